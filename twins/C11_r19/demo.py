"""Equivalence demo for SegmentAllocationTableAdapter._decode (smpl_extract/akai/sat.py).

The adapter receives the partition window (`this.header.partition_stream`, the
StreamOffset declared in PartitionHeaderConstruct) and hands that ONE shared
window to the SegmentAllocationTable, from which every Segment of the partition
reads. It also turns the raw SAT block into the sector links.

The live adapter is compared with a subclass carrying a verbatim copy of the
ORIGINAL _decode:

 1. exhaustively over every SAT block of up to 5 entries drawn from
    {free, both directory flags, end of file, every in-range index, one
    out-of-range index};
 2. randomly over longer blocks (chains, loops, directory runs, free areas,
    out-of-range and negative values, non-list sequences) - the links, the
    table size, exception type / text must agree;
 3. the partition_stream argument given as a construct expression, a lambda, a
    plain stream object, a callable object and None: the very same window
    object must reach the table, the expression must be called exactly once
    with the context;
 4. end to end: a partition header + SAT parsed from a traced image handle with
    the live and with the original adapter, Segments opened from both tables,
    block reads of 2-3 segments interleaved exhaustively and randomly: bytes,
    errors and the handle's seek/tell/read trace must agree and equal isolated
    sequential reads.
Exit 0 when everything agrees, 1 otherwise.
"""
import io
import itertools
import random
import struct
import sys
from typing import List

from construct.core import Int16ul
from construct.core import Struct
from construct.expr import this

from smpl_extract.akai.data_types import AKAI_PARTITION_MAGIC
from smpl_extract.akai.data_types import AKAI_SAT_EOF_FLAG
from smpl_extract.akai.data_types import AKAI_SAT_FREE_FLAG
from smpl_extract.akai.data_types import AKAI_SAT_RESERVED_FLAG_STD
from smpl_extract.akai.data_types import AKAI_SAT_RESERVED_FLAG_V2
from smpl_extract.akai.data_types import AKAI_SECTOR_SIZE
from smpl_extract.akai.partition import PartitionHeaderConstruct
from smpl_extract.akai.sat import SegmentAllocationTable
from smpl_extract.akai.sat import SegmentAllocationTableAdapter
from smpl_extract.util.fat import SectorLink
from smpl_extract.util.fat import add_to_sector_links
from smpl_extract.util.stream import StreamOffset


class OrigAdapter(SegmentAllocationTableAdapter):

    def _decode(
            self,
            obj: List[int],
            context,
            path
    ) -> SegmentAllocationTable:
        """Verbatim copy of the original _decode."""

        del path  # Unused
        block = obj
        if callable(self.partition_stream):
            partition_stream = self.partition_stream(context)
        else:
            partition_stream = self.partition_stream

        size = len(block)
        sector_links = [SectorLink()] * size
        dirty_flags = [False] * size

        previous_sector_was_directory = True
        for i in range(size):
            if not dirty_flags[i]:

                links = []
                subpath_index = i

                continue_flag = True
                while continue_flag:
                    if subpath_index >= size:
                        continue_flag = False
                        break

                    value_current = block[subpath_index]
                    current_sector_is_directory = value_current in (
                            AKAI_SAT_RESERVED_FLAG_STD,
                            AKAI_SAT_RESERVED_FLAG_V2
                    )

                    if not current_sector_is_directory and previous_sector_was_directory and len(links) > 0:
                        add_to_sector_links(links, sector_links)
                        previous_sector_was_directory = False
                        continue_flag = False
                        break
                    elif value_current == AKAI_SAT_FREE_FLAG or \
                            (value_current < size and dirty_flags[value_current]):

                        continue_flag = False
                        dirty_flags[subpath_index] = True
                        previous_sector_was_directory = False
                        break
                    elif value_current == AKAI_SAT_EOF_FLAG:
                        links.append(subpath_index)
                        add_to_sector_links(links, sector_links)
                        dirty_flags[subpath_index] = True
                        previous_sector_was_directory = current_sector_is_directory
                        continue_flag = False
                        break

                    dirty_flags[subpath_index] = True
                    links.append(subpath_index)
                    if not current_sector_is_directory:
                        subpath_index = value_current
                    else:
                        subpath_index += 1
                    previous_sector_was_directory = current_sector_is_directory

            else:
                pass

        result = SegmentAllocationTable(partition_stream, size, sector_links)
        return result


FAILURES = []
CHECKS = 0


def check(cond, label):
    global CHECKS
    CHECKS += 1
    if not cond:
        FAILURES.append(label)
        if len(FAILURES) <= 20:
            print("MISMATCH:", label)


def outcome(fn):
    try:
        return ("ok", fn())
    except Exception as e:  # noqa: BLE001
        ctx = type(e.__context__).__name__ if e.__context__ is not None else None
        return ("exc", type(e).__name__, str(e), ctx)


SENTINEL_STREAM = object()


def decode_with(cls, block):
    adapter = cls(SENTINEL_STREAM, Int16ul[1])
    out = outcome(lambda: adapter._decode(block, {}, "(demo)"))
    if out[0] != "ok":
        return out
    table = out[1]
    return (
        "ok",
        type(table).__name__,
        table.parent_stream is SENTINEL_STREAM,
        table.size,
        [(x.next, x.end) for x in table.sector_links],
        # which entries still share the one default SectorLink object
        [x is table.sector_links[0] for x in table.sector_links],
    )


def compare_block(block, label):
    before = list(block)
    a = decode_with(SegmentAllocationTableAdapter, block)
    b = decode_with(OrigAdapter, block)
    check(a == b, f"{label} block={before}: {a} != {b}")
    check(list(block) == before, f"{label}: block was modified")


# ------------------------------------------------------------- 1. exhaustive
def part_exhaustive():
    n = 0
    flags = [AKAI_SAT_FREE_FLAG, AKAI_SAT_RESERVED_FLAG_STD, AKAI_SAT_RESERVED_FLAG_V2, AKAI_SAT_EOF_FLAG]
    for size in range(0, 6):
        alphabet = flags + list(range(1, size + 1))   # index `size` is out of range
        for block in itertools.product(alphabet, repeat=size):
            compare_block(list(block), "exhaustive")
            n += 1
    return n


# ----------------------------------------------------------------- 2. random
def random_block(rng):
    size = rng.choice((1, 2, 3, 6, 10, 17, 40, 90))
    block = []
    for i in range(size):
        k = rng.random()
        if k < 0.15:
            block.append(AKAI_SAT_FREE_FLAG)
        elif k < 0.25:
            block.append(AKAI_SAT_RESERVED_FLAG_STD)
        elif k < 0.32:
            block.append(AKAI_SAT_RESERVED_FLAG_V2)
        elif k < 0.47:
            block.append(AKAI_SAT_EOF_FLAG)
        elif k < 0.62:
            block.append(min(i + 1, 0xFFFF))             # simple forward chain
        elif k < 0.70:
            block.append(size + rng.randrange(0, 5))      # leaves the table
        elif k < 0.73:
            block.append(-rng.randrange(1, size + 3))     # not possible from Int16ul, still compared
        elif k < 0.76:
            block.append(rng.choice((0xFFFF, 0xBFFF, 0xC001, 0x3FFF, 0x4001, 0x7FFF, 0x8001)))
        else:
            block.append(rng.randrange(0, size))
    return block


def akai_like_block(rng):
    """Directory run at the front, then files made of scattered sectors."""
    size = rng.choice((12, 30, 64))
    block = [AKAI_SAT_FREE_FLAG] * size
    n_dir = rng.randint(1, 4)
    for i in range(n_dir):
        block[i] = rng.choice((AKAI_SAT_RESERVED_FLAG_STD, AKAI_SAT_RESERVED_FLAG_V2))
    free = list(range(n_dir, size))
    rng.shuffle(free)
    while len(free) > 3:
        take = rng.randint(1, 5)
        chain, free = free[:take], free[take:]
        for a, b in zip(chain, chain[1:]):
            block[a] = b
        block[chain[-1]] = AKAI_SAT_EOF_FLAG
    return block


def part_random():
    rng = random.Random(1919)
    n = 0
    for _ in range(30000):
        compare_block(random_block(rng), "random")
        n += 1
    for _ in range(3000):
        compare_block(akai_like_block(rng), "akai-like")
        n += 1
    # other sequence types construct could hand over
    from construct.lib import ListContainer
    for _ in range(2000):
        block = random_block(rng)
        compare_block(ListContainer(block), "ListContainer")
        compare_block(tuple(block), "tuple")
        n += 2
    for bad in (None, 5, "ab", b"\x00\x01\x02", [None], [1.5, 0], ["x"], [[1]]):
        a = decode_with(SegmentAllocationTableAdapter, bad)
        b = decode_with(OrigAdapter, bad)
        check(a == b, f"odd obj {bad!r}: {a} != {b}")
        n += 1
    return n


# ------------------------------------------------- 3. partition_stream forms
class CallableStream:
    """A stream-like object that is itself callable."""

    def __init__(self):
        self.calls = []
        self.product = object()

    def __call__(self, context):
        self.calls.append(context)
        return self.product


class Raising:
    def __init__(self):
        self.calls = 0

    def __call__(self, context):
        self.calls += 1
        raise KeyError("no window in " + repr(sorted(context)))


def part_stream_forms():
    n = 0
    block = [AKAI_SAT_RESERVED_FLAG_STD, 2, 3, AKAI_SAT_EOF_FLAG, 0]
    window = object()
    for cls in (SegmentAllocationTableAdapter, OrigAdapter):
        # construct expression
        ctx = {"header": {"partition_stream": window}}
        from construct.lib import Container
        ctx = Container(header=Container(partition_stream=window))
        t = cls(this.header.partition_stream, Int16ul[1])._decode(block, ctx, "p")
        check(t.parent_stream is window, f"{cls.__name__}: expression did not deliver the window")
        # lambda, with call counting
        seen = []
        t = cls(lambda c: (seen.append(c), window)[1], Int16ul[1])._decode(block, ctx, "p")
        check(t.parent_stream is window and seen == [ctx] and seen[0] is ctx,
              f"{cls.__name__}: lambda called {len(seen)} times")
        # plain objects
        for plain in (window, None, 0, "stream", io.BytesIO(b"abc")):
            t = cls(plain, Int16ul[1])._decode(block, ctx, "p")
            check(t.parent_stream is plain, f"{cls.__name__}: plain {plain!r} not passed through")
        # callable stream object
        cs = CallableStream()
        t = cls(cs, Int16ul[1])._decode(block, ctx, "p")
        check(t.parent_stream is cs.product and cs.calls == [ctx], f"{cls.__name__}: callable object")
        # expression that fails: raised before anything else, called once
        r = Raising()
        out = outcome(lambda: cls(r, Int16ul[1])._decode(None, ctx, "p"))
        check(out == ("exc", "KeyError", repr("no window in ['header']"), None) and r.calls == 1,
              f"{cls.__name__}: failing expression gave {out}, calls={r.calls}")
        # missing context key through a construct expression
        out = outcome(lambda: cls(this.nothing.here, Int16ul[1])._decode(block, ctx, "p"))
        check(out[:2] == ("exc", "KeyError"), f"{cls.__name__}: missing key gave {out}")
        n += 10
    a = outcome(lambda: SegmentAllocationTableAdapter(this.nothing.here, Int16ul[1])._decode([], Container(), "p"))
    b = outcome(lambda: OrigAdapter(this.nothing.here, Int16ul[1])._decode([], Container(), "p"))
    check(a == b, f"missing key: {a} != {b}")
    return n + 1


# ------------------------------------------------------------- 4. end to end
class TraceIO(io.BytesIO):
    def __init__(self, data):
        super().__init__(data)
        self.trace = []

    def seek(self, off, whence=0):
        r = super().seek(off, whence)
        self.trace.append(("seek", off, whence, r))
        return r

    def tell(self):
        r = super().tell()
        self.trace.append(("tell", r))
        return r

    def read(self, size=-1):
        r = super().read(size)
        self.trace.append(("read", size, len(r)))
        return r


N_SAT = 16
PART_SECTORS = 16
PREFIX = 3 * AKAI_SECTOR_SIZE     # the partition does not start at offset 0


def build_image(rng, block):
    header = struct.pack("<H", PART_SECTORS) + b"\x00\x00" + AKAI_PARTITION_MAGIC + b"\x55\xBA" + b"\x2F\x00"
    sat = struct.pack(f"<{N_SAT}H", *block)
    body = bytearray(rng.randbytes(PREFIX + PART_SECTORS * AKAI_SECTOR_SIZE + 500))
    body[PREFIX:PREFIX + len(header) + len(sat)] = header + sat
    return bytes(body)


def make_parser(cls):
    return Struct(
        "header" / PartitionHeaderConstruct,
        "sat" / cls(this.header.partition_stream, Int16ul[N_SAT]),
    )


PARSERS = {
    "live": make_parser(SegmentAllocationTableAdapter),
    "orig": make_parser(OrigAdapter),
}


def run_reads(which, image, starts, schedule):
    h = TraceIO(image)
    h.seek(PREFIX)
    parsed = PARSERS[which].parse_stream(h)
    table = parsed.sat
    window = parsed.header.partition_stream
    facts = [
        type(table).__name__,
        table.parent_stream is window,
        type(window).__name__,
        window.offset,
        window.end_of_file,
        table.size,
        [(x.next, x.end) for x in table.sector_links],
    ]
    segments = [outcome(lambda: table.get_segment(s)) for s in starts]
    facts.append([
        (s[0], list(s[1].sector_list), s[1].substream is window) if s[0] == "ok" else s
        for s in segments
    ])
    results = []
    for idx, size in schedule:
        seg = segments[idx]
        if seg[0] != "ok":
            results.append(seg)
            continue
        results.append(outcome(lambda: seg[1].read(size)))
    return facts, results, list(h.trace)


def isolated(image, starts, schedule):
    per = {}
    for idx in range(len(starts)):
        per[idx] = run_reads("live", image, starts, [(i, s) for i, s in schedule if i == idx])[1]
    cursor = {i: 0 for i in range(len(starts))}
    out = []
    for i, _ in schedule:
        out.append(per[i][cursor[i]])
        cursor[i] += 1
    return out


def part_end_to_end():
    rng = random.Random(1920)
    n = 0
    for round_no in range(8):
        # directory sectors first, then three files of scattered sectors
        block = [AKAI_SAT_FREE_FLAG] * N_SAT
        block[0] = AKAI_SAT_RESERVED_FLAG_STD
        block[1] = AKAI_SAT_RESERVED_FLAG_V2 if round_no % 2 else AKAI_SAT_RESERVED_FLAG_STD
        free = list(range(2, N_SAT))
        rng.shuffle(free)
        starts = []
        for _ in range(3):
            take = rng.randint(1, 4)
            chain, free = free[:take], free[take:]
            for a, b in zip(chain, chain[1:]):
                block[a] = b
            block[chain[-1]] = AKAI_SAT_EOF_FLAG
            starts.append(chain[0])
        if round_no >= 6:
            block[free[0]] = N_SAT + 3      # a chain that leaves the table
        starts.append(free[0])              # a free (or damaged) sector, opened as well
        image = build_image(rng, block)

        sizes = (1, 300, 0x1000, AKAI_SECTOR_SIZE, AKAI_SECTOR_SIZE + 1, 3 * AKAI_SECTOR_SIZE)
        for counts in ((3, 3), (2, 2, 2)):
            pool = [i for i, c in enumerate(counts) for _ in range(c)]
            for order in sorted(set(itertools.permutations(pool))):
                schedule = [(i, rng.choice(sizes)) for i in order]
                a = run_reads("live", image, starts, schedule)
                b = run_reads("orig", image, starts, schedule)
                check(a == b, f"end to end {schedule}: live and original differ")
                check(a[1] == isolated(image, starts, schedule),
                      f"end to end {schedule}: shared differs from isolated")
                n += 1
        for _ in range(30):
            schedule = [
                (rng.randrange(len(starts)), rng.choice(sizes + (0, None)))
                for _ in range(rng.randint(1, 12))
            ]
            a = run_reads("live", image, starts, schedule)
            b = run_reads("orig", image, starts, schedule)
            check(a == b, f"end to end random {schedule}: live and original differ")
            check(a[1] == isolated(image, starts, schedule),
                  f"end to end random {schedule}: shared differs from isolated")
            n += 1
    return n


def main():
    n1 = part_exhaustive()
    n2 = part_random()
    n3 = part_stream_forms()
    n4 = part_end_to_end()
    print(f"exhaustive blocks: {n1}, random blocks: {n2}, stream forms: {n3}, "
          f"end to end schedules: {n4}, checks: {CHECKS}")
    if FAILURES:
        print(f"{len(FAILURES)} mismatches")
        return 1
    print("all agree")
    return 0


if __name__ == "__main__":
    sys.exit(main())
