"""Equivalence demo for the ChickSysCustomFirFilter.convolve_valid refactoring (fir.pyx).

fir.pyx ships pre-built and Cython is not installed, so the edited text has
no runtime effect on the compiled module.  To still exercise the *edited
text*: the two cdef kernels (`_c_bound_and_fix`, `_c_chicken_sys_convolve_valid`)
are cut out of smpl_extract/filters/fir.pyx and mechanically rewritten into
plain Python (cdef declarations -> assignments, C casts -> conversion calls
with C semantics, libc round() modelled exactly); the classes FirFilter and
ChickSysCustomFirFilter are ordinary Python text and are exec'ed as they
stand.  This is done twice: once with an inline copy of the ORIGINAL
ChickSysCustomFirFilter class, once with the class as it is in the file now.
Compared are (ORIGINAL text vs CURRENT text vs the compiled module)

  * convolve_valid called directly: int16 / float64 (the flush block is
    float64!) / int32 / float32 / bool / uint16 inputs with in-range,
    out-of-range, fractional, NaN and inf values, read-only and strided
    views, wrong h dtype, 2-d input, non-arrays, k_gain == 0; also that the
    caller's array is left untouched,
  * process()/get_remaining() streams for every delay offset of several
    kernels: every composition of short signals, random splits of long and
    extreme-valued int16 signals, reset_state in the middle, reuse after the
    flush; per-block outputs and the instance state after every step,
  * the ChickSysRolandDeemphFilter preset of common.py.

Exit 0 when everything agrees, 1 otherwise.
"""
import itertools
import math
import os
import random
import re
import sys
import types
import warnings
from typing import Optional

import numpy as np

import smpl_extract.filters.fir as compiled
from smpl_extract.filters import common

warnings.simplefilter("ignore")

PYX = os.path.join(os.path.dirname(os.path.abspath(compiled.__file__)), "fir.pyx")

ORIGINAL_CLASS = '''\
class ChickSysCustomFirFilter(FirFilter):


    def __init__(
        self,
        h: np.ndarray,
        delay_offset: int = 0,
        k_gain: int = 1
    ) -> None:
        super().__init__(h, delay_offset)
        self.k_gain = k_gain


    def convolve_valid(self, x: np.ndarray, h: np.ndarray) -> np.ndarray:
        x = x.astype(np.int16)
        result = _c_chicken_sys_convolve_valid(x, h, self.k_gain)
        return result
'''


# ------------------------------------------------------- Cython -> Python
def c_round(v):
    """libc round(): nearest integer as double, halfway cases away from zero"""
    v = float(v)
    if v != v or v in (float("inf"), float("-inf")):
        return v
    t = math.copysign(float(math.trunc(v)), v)
    if abs(v - t) >= 0.5:            # v - t is exact
        t += math.copysign(1.0, v)
    return t


def c_int(v):
    v = int(v)
    assert -2 ** 31 <= v < 2 ** 31
    return v


def c_short(v):
    assert float(v) == int(v) and -32768 <= int(v) <= 32767, v   # no UB in the cast
    return int(v)


def c_double(v):
    return float(v)


_CONV = {"int": "c_int", "short": "c_short", "double": "c_double"}
_CTYPE = r"(?:size_t|double|short|int)"


def _operand_end(s, pos):
    """end index of the C unary operand starting at s[pos]"""
    n = len(s)
    while pos < n and s[pos] == " ":
        pos += 1

    def skip_group(p):
        pairs = {"(": ")", "[": "]"}
        stack = [pairs[s[p]]]
        p += 1
        while stack:
            c = s[p]
            if c in pairs:
                stack.append(pairs[c])
            elif c == stack[-1]:
                stack.pop()
            p += 1
        return p

    if s[pos] == "(":
        pos = skip_group(pos)
    else:
        m = re.compile(r"[\w\.]+").match(s, pos)
        pos = m.end()
    while pos < n and s[pos] in "([":
        pos = skip_group(pos)
    return pos


def _wrap_casts(line):
    cast = re.compile(r"<\s*(int|short|double)\s*>")
    while True:
        ms = list(cast.finditer(line))
        if not ms:
            return line
        m = ms[-1]                               # innermost / rightmost first
        end = _operand_end(line, m.end())
        line = "%s%s(%s)%s" % (line[:m.start()], _CONV[m.group(1)],
                               line[m.end():end].strip(), line[end:])


def _join_parens(lines):
    out, buf, depth = [], "", 0
    for line in lines:
        code = line.split("#", 1)[0]
        buf = (buf + " " + code.strip()) if buf else (code.rstrip() if depth or "(" in code else line.rstrip("\n"))
        depth += code.count("(") - code.count(")")
        if depth <= 0:
            out.append(buf)
            buf, depth = "", 0
    if buf:
        out.append(buf)
    return out


def cy2py(text):
    lines = []
    for line in _join_parens(text.splitlines()):
        if line.strip().startswith("@cython"):
            continue
        m = re.match(r"^(?:cdef(?:\s+(?:void|double|short))?|def)\s+(\w+)\s*\((.*)\)\s*:\s*$", line)
        if m:
            params = [re.split(r"[\s\*]+", p.strip())[-1] for p in m.group(2).split(",") if p.strip()]
            lines.append("def %s(%s):" % (m.group(1), ", ".join(params)))
            continue
        m = re.match(r"^(\s*)cdef\s+%s(?:\[:\])?\s*(\w+)\s*=\s*(.*)$" % _CTYPE, line)
        if m:
            line = "%s%s = %s" % m.groups()
        elif re.match(r"^\s*cdef\s+%s\s*\w+\s*$" % _CTYPE, line):
            line = re.match(r"^(\s*)", line).group(1) + "pass"
        lines.append(_wrap_casts(line))
    return "\n".join(lines) + "\n"


def _cut_function(all_lines, name):
    start = next(i for i, l in enumerate(all_lines)
                 if re.match(r"^(?:cdef(?:\s+\w+)?|def)\s+%s\s*\(" % name, l))
    end = len(all_lines)
    for j in range(start + 1, len(all_lines)):
        l = all_lines[j]
        if l.strip() and not l[0].isspace() and not l.lstrip().startswith(")"):
            end = j
            break
    return "".join(all_lines[start:end])


def _cut_class(lines, name):
    start = next(i for i, l in enumerate(lines) if l.startswith("class " + name))
    end = len(lines)
    for j in range(start + 1, len(lines)):
        l = lines[j]
        if l.strip() and not l[0].isspace():
            end = j
            break
    return "".join(lines[start:end])


def build_namespace(class_text=None):
    with open(PYX, "r", encoding="utf-8") as fh:
        all_lines = fh.readlines()
    ns = {"np": np, "Optional": Optional, "cround": c_round,
          "c_int": c_int, "c_short": c_short, "c_double": c_double}
    exec(compile(cy2py(_cut_function(all_lines, "_c_bound_and_fix")), PYX + ":bound", "exec"), ns)
    exec(compile(cy2py(_cut_function(all_lines, "_c_chicken_sys_convolve_valid")), PYX + ":kernel", "exec"), ns)
    raw = ns["_c_chicken_sys_convolve_valid"]

    def typed_kernel(x, h, k):
        # what the `short[:] x, short[:] h, int k` signature enforces
        for a in (x, h):
            if not isinstance(a, np.ndarray):
                raise TypeError("a bytes-like object is required")
            if a.ndim != 1:
                raise ValueError("Buffer has wrong number of dimensions")
            if a.dtype != np.int16:
                raise ValueError("Buffer dtype mismatch")
            if not a.flags.writeable:
                raise ValueError("buffer source array is read-only")
        k = int(k)      # the compiled module accepts 2.0 for `int k`
        if not -2 ** 31 <= k < 2 ** 31:
            raise OverflowError("value too large to convert to int")
        return raw(x, h, k)

    ns["_c_chicken_sys_convolve_valid"] = typed_kernel
    exec(compile(_cut_class(all_lines, "FirFilter"), PYX + ":FirFilter", "exec"), ns)
    text = class_text or _cut_class(all_lines, "ChickSysCustomFirFilter")
    ns["__class_source__"] = text
    exec(compile(text, PYX + ":Chick", "exec"), ns)
    return ns


ORIG = build_namespace(ORIGINAL_CLASS)
TEXT = build_namespace()
CLASSES = [ORIG["ChickSysCustomFirFilter"], TEXT["ChickSysCustomFirFilter"], compiled.ChickSysCustomFirFilter]

FAILS = []
CHECKS = [0]


def expect(label, ok, *info):
    CHECKS[0] += 1
    if not ok:
        FAILS.append((label,) + info)


def same_arr(a, b):
    return (isinstance(a, np.ndarray) and isinstance(b, np.ndarray) and a.dtype == b.dtype
            and a.shape == b.shape and a.tobytes() == b.tobytes())


def same_list(a, b):
    return len(a) == len(b) and all(same_arr(p, q) for p, q in zip(a, b))


def outcome(fn):
    try:
        return ("ok", fn())
    except BaseException as e:  # noqa
        return ("exc", type(e).__name__)


def same_outcome(a, b, cmp=same_arr):
    if a[0] != b[0]:
        return False
    if a[0] == "exc":
        return a[1] == b[1]
    return cmp(a[1], b[1])


def state(f):
    return {k: ((v.dtype, v.shape, v.tobytes()) if isinstance(v, np.ndarray) else v)
            for k, v in sorted(vars(f).items()) if k != "h"}


rng = random.Random(1914)
nrng = np.random.default_rng(1914)

ROLAND = np.asarray([1, -2, 5, -11, 25, -65, 176, -460, 9981, 32767, 9981,
                     -460, 176, -65, 25, -11, 5, -2, 1], dtype=np.int16)
EXTREMES = np.asarray([-32768, -32767, -1, 0, 1, 32766, 32767], dtype=np.int16)


def three_convolves(label, x, h, k):
    outs = []
    for cls in CLASSES:
        f = cls(np.asarray([1, 2, 1], dtype=np.int16), 1, k)
        before = x.tobytes() if isinstance(x, np.ndarray) else None
        o = outcome(lambda: f.convolve_valid(x, h))
        if before is not None:
            expect(label + " input untouched", x.tobytes() == before)
        outs.append(o)
    expect(label, same_outcome(outs[0], outs[1]) and same_outcome(outs[0], outs[2]), x, h, k, outs)
    if outs[1][0] == "ok":
        expect(label + " fresh result", outs[1][1] is not x and outs[1][1].dtype == np.int16)


def splits(n):
    if n == 0:
        yield []
        return
    if n <= 7:
        for bits in itertools.product([0, 1], repeat=n - 1):
            yield [i + 1 for i, b in enumerate(bits) if b] + [n]
    else:
        yield [n]
        yield list(range(1, n + 1))
        for _ in range(4):
            k = rng.randint(0, min(n - 1, 10))
            yield sorted(rng.sample(range(1, n), k)) + [n]


def run_stream(f, x, cuts, reset_at=None):
    """per-block outputs, flush output and the state after every step"""
    trace = []
    states = []
    lo = 0
    for j, hi in enumerate(cuts):
        if reset_at is not None and j == reset_at:
            f.reset_state()
        trace.append(f.process(x[lo:hi]))
        states.append(state(f))
        lo = hi
    trace.append(f.get_remaining())
    states.append(state(f))
    return trace, states


def same_trace(a, b):
    return same_list(a[0], b[0]) and a[1] == b[1]


def main():
    # 0. the texts are what we think they are
    expect("orig class text", "x = x.astype(np.int16)" in ORIG["__class_source__"])
    expect("current class text", "class ChickSysCustomFirFilter(FirFilter):" in TEXT["__class_source__"]
           and "def convolve_valid(self, x: np.ndarray, h: np.ndarray)" in TEXT["__class_source__"])
    for cls in CLASSES[:2]:
        expect("class layout", cls.__mro__[1].__name__ == "FirFilter"
               and {"__init__", "convolve_valid"} <= set(vars(cls))
               and not {"process", "get_remaining", "reset_state"} & set(vars(cls)))

    # 1. convolve_valid called directly
    hs = [np.asarray([1, 2, 1], dtype=np.int16), np.asarray([3, -2], dtype=np.int16), ROLAND,
          np.asarray([], dtype=np.int16), np.asarray([32767], dtype=np.int16)]
    gains = [1, -1, 2, 4, 7, 52067, -52067, 2 ** 31 - 1]
    for h in hs:
        for n_x in (0, 1, 2, len(h), len(h) + 1, len(h) + 9, 40):
            for k in rng.sample(gains, 3):
                xi = nrng.integers(-32768, 32768, n_x).astype(np.int16)
                three_convolves("int16", xi, h, k)
                three_convolves("extremes", nrng.choice(EXTREMES, n_x), h, k)
                three_convolves("float64 whole", xi.astype(np.float64), h, k)
                three_convolves("float64 fractional", nrng.uniform(-40000.0, 40000.0, n_x), h, k)
                three_convolves("float32", nrng.uniform(-300.0, 300.0, n_x).astype(np.float32), h, k)
                three_convolves("int32 wide", nrng.integers(-2 ** 31, 2 ** 31, n_x).astype(np.int32), h, k)
                three_convolves("int64", nrng.integers(-70000, 70000, n_x), h, k)
                three_convolves("uint16", nrng.integers(0, 65536, n_x).astype(np.uint16), h, k)
                three_convolves("bool", nrng.integers(0, 2, n_x).astype(bool), h, k)
                three_convolves("strided", nrng.integers(-32768, 32768, 2 * n_x).astype(np.int16)[::2], h, k)
                ro = xi.copy()
                ro.setflags(write=False)
                three_convolves("read-only x", ro, h, k)
    h3 = hs[0]
    special = np.asarray([np.nan, np.inf, -np.inf, 0.5, -0.5, 1.5, 32767.9, -32768.9, 1e300, -0.0, 2.5, 7.0])
    three_convolves("special floats", special, h3, 3)
    three_convolves("k=0", np.arange(5, dtype=np.int16), h3, 0)
    three_convolves("k=0 short input", np.arange(2, dtype=np.int16), h3, 0)
    three_convolves("float k", np.arange(5, dtype=np.int16), h3, 2.0)
    three_convolves("huge k", np.arange(5, dtype=np.int16), h3, 2 ** 40)
    three_convolves("int32 h", np.arange(5, dtype=np.int16), h3.astype(np.int32), 3)
    three_convolves("float h", np.arange(5, dtype=np.int16), h3.astype(np.float64), 3)
    three_convolves("list h", np.arange(5, dtype=np.int16), [1, 2, 1], 3)
    hro = h3.copy()
    hro.setflags(write=False)
    three_convolves("read-only h", np.arange(5, dtype=np.int16), hro, 3)
    three_convolves("2-d x", np.zeros((2, 3), dtype=np.int16), h3, 3)
    three_convolves("0-d x", np.asarray(5, dtype=np.int16), h3, 3)
    three_convolves("list x", [1, 2, 3, 4], h3, 3)
    three_convolves("None x", None, h3, 3)
    three_convolves("str x", "abcd", h3, 3)
    three_convolves("complex x", np.asarray([1 + 2j, 3, 4, 5]), h3, 3)
    three_convolves("object x", np.asarray([1, 2, 3, 4], dtype=object), h3, 3)
    three_convolves("object x bad", np.asarray([1, "a", 3, 4], dtype=object), h3, 3)

    # 2. streaming, all delay offsets (the flush feeds a float64 block through convolve_valid)
    cfgs = [(ROLAND, m0, 52067) for m0 in (0, 1, 7, 9, 17, 18)]
    cfgs += [(np.asarray([1, 2, 1], dtype=np.int16), m0, 4) for m0 in (0, 1, 2)]
    cfgs += [(np.asarray([3, -2], dtype=np.int16), m0, 2) for m0 in (0, 1)]
    cfgs += [(np.asarray([32767, 32767], dtype=np.int16), 1, 1), (np.asarray([3], dtype=np.int16), 0, -2),
             (np.asarray([5, -4, 3, -2, 1], dtype=np.int16), 3, 1)]
    sigs = [nrng.integers(-32768, 32768, n).astype(np.int16) for n in range(0, 8)]
    sigs += [np.full(30, 32767, dtype=np.int16), np.full(30, -32768, dtype=np.int16),
             np.asarray([32767, -32768] * 20, dtype=np.int16)]
    sigs += [nrng.integers(-32768, 32768, rng.randint(8, 120)).astype(np.int16) for _ in range(4)]
    sigs += [nrng.choice(EXTREMES, 50)]
    n_streams = 0
    for h, m0, k in cfgs:
        for x in sigs:
            for cuts in splits(len(x)):
                reset_at = rng.choice([None, None, None, rng.randrange(len(cuts))]) if cuts else None
                fs = [cls(h, m0, k) for cls in CLASSES]
                outs = [outcome(lambda f=f: run_stream(f, x, cuts, reset_at)) for f in fs]
                expect("stream", same_outcome(outs[0], outs[1], same_trace)
                       and same_outcome(outs[0], outs[2], same_trace), m0, k, cuts, reset_at)
                n_streams += 1
                if n_streams % 7 == 0:      # reuse after the flush
                    y = nrng.integers(-32768, 32768, 25).astype(np.int16)
                    outs = [outcome(lambda f=f: run_stream(f, y, [3, 4, 25])) for f in fs]
                    expect("reuse", same_outcome(outs[0], outs[1], same_trace)
                           and same_outcome(outs[0], outs[2], same_trace))
        # float blocks fed to process (converted by convolve_valid as well)
        xf = nrng.uniform(-30000, 30000, 33)
        fs = [cls(h, m0, k) for cls in CLASSES]
        outs = [outcome(lambda f=f: run_stream(f, xf, [5, 6, 20, 33])) for f in fs]
        expect("float stream", same_outcome(outs[0], outs[1], same_trace)
               and same_outcome(outs[0], outs[2], same_trace))
    for x in sigs:
        for cuts in splits(len(x)):
            f = common.ChickSysRolandDeemphFilter()
            g = TEXT["ChickSysCustomFirFilter"](ROLAND, 7, 52067)
            a, b = outcome(lambda: run_stream(f, x, cuts)), outcome(lambda: run_stream(g, x, cuts))
            expect("preset", same_outcome(a, b, same_trace), cuts)

    # 3. constructor
    for args in [(ROLAND,), (ROLAND, 3), (ROLAND, 3, 9), ([1, 2, 3], 1, 2), ((), 0, 1), (5,), ()]:
        outs = [outcome(lambda c=c: state(c(*args))) for c in CLASSES]
        expect("ctor", all(o[0] == outs[0][0] and (o[1] == outs[0][1]) for o in outs), args, outs)
    outs = [outcome(lambda c=c: state(c(h=ROLAND, delay_offset=2, k_gain=5))) for c in CLASSES]
    expect("ctor kw", outs[0][0] == "ok" and outs[0] == outs[1] == outs[2])

    print("streams: %d, checks: %d, failures: %d" % (n_streams, CHECKS[0], len(FAILS)))
    for f in FAILS[:10]:
        print("FAIL", f)
    return 1 if FAILS else 0


if __name__ == "__main__":
    sys.exit(main())
