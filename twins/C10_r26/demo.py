"""Equivalence demo for r26: structural.Traversable.parse_path - the except
handler that turns a failed child lookup (no child with that name, a leaf in
the middle of the path, a falsy match) into the `was not found` message.

Compared with an inline copy of the ORIGINAL parse_path on synthetic trees:
  1. every path built from real names, prefixes, blanks, both separators,
     trailing separators, case changes, unknown names, quotes / braces /
     percent signs (which must not be interpreted by the message
     formatting) and unicode (a few thousand strings): same node (identity)
     or same exception type, message, args, __context__ type, __cause__ and
     __suppress_context__;
  2. the "image" versus "<resolved part>/" choice: failures at the root, at
     deeper levels, below a leaf, and with a current node whose __ne__ says
     it equals everything (then "image" is printed at a deeper level too);
  3. exceptions that the handler must NOT catch (RuntimeError from a
     StopIteration inside the generator, KeyError, AttributeError) still
     pass through unchanged;
  4. order of side effects: every safe_name read, _sanitize_string call,
     children access, __bool__ and __eq__/__ne__ call is logged - same log
     (`!=` is still evaluated exactly once, before anything is joined).
Exit 0 when all agree, else 1.
"""
import itertools
import random
import sys
from typing import List
from typing import cast

from smpl_extract.base import Element
from smpl_extract.base import ElementTypes
from smpl_extract.structural import ErrorInvalidPath
from smpl_extract.structural import ErrorNoChildWithName
from smpl_extract.structural import ErrorNotTraversable
from smpl_extract.structural import Traversable


# ---- ORIGINAL implementation (verbatim) ------------------------------------
def orig_parse_path(
        self, 
        path
) -> Element:

    tokens_raw = self._TOKENIZE_PATH_REGEX.split(path.strip())
    tokens_raw_iter = iter(tokens_raw)

    tokens: List[str] = []
    tokens.append(next(tokens_raw_iter))
    while True:
        try:
            next(tokens_raw_iter)
            next_token = next(tokens_raw_iter)
        except StopIteration:
            break
        tokens.append(next_token)

    if len(tokens) > 0 and len(tokens[-1]) < 1:
        tokens = tokens[:-1]

    current_node = self
    for i, token in enumerate(tokens):
        token_sanitized = self._sanitize_string(token)

        try:
            if isinstance(current_node, Traversable):
                current_node = cast(Traversable, current_node)
                children = current_node.children

                child = next((
                    x for x in children 
                    if self._sanitize_string(x.safe_name) == token_sanitized
                ))
                if not child:
                    raise ErrorNoChildWithName()
                current_node = child

            else:
                raise ErrorNotTraversable

        except (ErrorNoChildWithName, ErrorNotTraversable, StopIteration) as e:
            path_so_far = "/".join(tokens[:i]) + "/" if current_node != self else "image"
            msg = f"The entity \"{token}\" was not found in \"{path_so_far}\"."
            raise ErrorInvalidPath(msg)

    if isinstance(current_node, Traversable):
        children = current_node.children

    return current_node


failures = []
LOG = []


def check(label, got, want):
    if got != want:
        failures.append(label)
        if len(failures) <= 20:
            print("MISMATCH", label, "\n   got ", repr(got)[:400],
                  "\n   want", repr(want)[:400])


# ---- synthetic nodes ----------------------------------------------------------
class Leaf(Element):
    type_id = ElementTypes.SampleEntry
    type_name = "Leaf"

    def __init__(self, name, uid):
        Element.__init__(self, [name], None)
        self.name = name
        self.uid = uid

    def get_info(self):
        raise AssertionError("not used here")

    @property
    def safe_name(self):
        LOG.append(("safe_name", self.uid))
        return self.name


class FalsyLeaf(Leaf):
    def __bool__(self):
        LOG.append(("bool", self.uid))
        return False


class EmptyLenLeaf(Leaf):
    def __len__(self):
        LOG.append(("len", self.uid))
        return 0


class StopLeaf(Leaf):
    @property
    def safe_name(self):
        LOG.append(("safe_name", self.uid))
        raise StopIteration("from safe_name")


class KeyErrorLeaf(Leaf):
    @property
    def safe_name(self):
        LOG.append(("safe_name", self.uid))
        raise KeyError("from safe_name")


class EqLeaf(Leaf):
    """Compares equal to everything (so `current_node != self` is False)."""
    __hash__ = Leaf.__hash__

    def __eq__(self, other):
        LOG.append(("eq", self.uid))
        return True

    def __ne__(self, other):
        LOG.append(("ne", self.uid))
        return False


class Dir(Traversable):
    type_name = "Dir"
    one_shot = False

    def __init__(self, name, uid, spec, counter):
        Traversable.__init__(self, lambda ctx: build(spec, counter),
                             path=[name])
        self.name = name
        self.uid = uid

    @property
    def safe_name(self):
        LOG.append(("safe_name", self.uid))
        return self.name

    @property
    def children(self):
        LOG.append(("children", self.uid))
        found = Traversable.children.fget(self)
        if self.one_shot:
            return iter(found)
        return found

    def _sanitize_string(self, input_str):
        LOG.append(("sanitize", self.uid, input_str))
        return Traversable._sanitize_string(self, input_str)


class UpperDir(Dir):
    def _sanitize_string(self, input_str):
        LOG.append(("sanitize", self.uid, input_str))
        return input_str.strip().upper().rstrip(":")


class OneShotDir(Dir):
    one_shot = True


class FalsyDir(Dir):
    def __bool__(self):
        LOG.append(("bool", self.uid))
        return False


LEAF_KINDS = {"leaf": Leaf, "falsy": FalsyLeaf, "emptylen": EmptyLenLeaf,
              "stop": StopLeaf, "keyerror": KeyErrorLeaf, "eq": EqLeaf}
DIR_KINDS = {"dir": Dir, "upper": UpperDir, "oneshot": OneShotDir,
             "falsydir": FalsyDir}


def build(spec, counter):
    made = []
    for entry in spec:
        if entry is None:
            made.append(None)
            continue
        uid = next(counter)
        kind, name = entry[0], entry[1]
        if kind in LEAF_KINDS:
            made.append(LEAF_KINDS[kind](name, uid))
        else:
            made.append(DIR_KINDS[kind](name, uid, entry[2], counter))
    return made


def make_root(root_kind, spec):
    return DIR_KINDS[root_kind]("root", 0, spec, itertools.count(1))


SPECS = {
    "plain": [
        ("dir", "VOL 1", [("leaf", "KICK"), ("leaf", "KICK"),
                          ("leaf", " SNARE "), ("leaf", ""), ("leaf", "a:b"),
                          ("dir", "SUB", [("leaf", "x"), ("dir", "E", [])])]),
        ("dir", "VOL 1", [("leaf", "other")]),
        ("dir", "", [("leaf", "in blank")]),
        ("leaf", "LEAF"), ("leaf", "leaf"), ("leaf", "名前"), ("leaf", "A:"),
        ("dir", "vol 1", [("leaf", "lower")]),
    ],
    "falsy": [
        ("leaf", "a"), ("falsy", "F"), ("leaf", "F"), ("emptylen", "E"),
        ("falsydir", "FD", [("leaf", "x")]), ("dir", "FD", [("leaf", "y")]),
        ("dir", "D", [("falsy", "a"), ("falsy", "a"), ("leaf", "b")]),
    ],
    "raising": [
        ("leaf", "a"),
        ("dir", "D", [("leaf", "a"), ("keyerror", "K"), ("leaf", "b")]),
        ("dir", "N", [("leaf", "a"), None, ("leaf", "b")]),
        ("dir", "ST", [("stop", "S")]),
        ("stop", "S"), ("leaf", "b"),
    ],
    "eq": [
        ("eq", "Q"), ("leaf", "a"),
        ("dir", "D", [("eq", "Q"), ("leaf", "a")]),
    ],
    "oneshot": [
        ("oneshot", "O", [("leaf", "a"), ("leaf", "b"),
                          ("oneshot", "P", [("leaf", "c")])]),
        ("leaf", "z"),
    ],
    "empty": [],
}


def names_in(spec):
    for entry in spec:
        if entry is None:
            continue
        yield entry[1]
        if len(entry) > 2:
            for name in names_in(entry[2]):
                yield name


def candidate_paths(spec, rng):
    names = sorted(set(names_in(spec))) + ["nope", "", " ", "☃", "K", "root",
                                           "image", "VOL", "vol 1", "a",
                                           "{}", "{0}", "{token}", "%s",
                                           'q"q', "'", "{", "}}"]
    paths = ["", " ", "/", "\\", "\\\\", "//", "/ /", " / ", "\t", "\\\\\\"]
    for name in names:
        paths += [name, " " + name + " ", name + "/", name + "\\",
                  name + "\\\\", "/" + name, name.lower(), name.upper(),
                  name[:-1], name + "x", name + ":", name + "//"]
    for a, b in itertools.product(names, repeat=2):
        paths += [a + "/" + b, a + "\\" + b + "/", " " + a + " / " + b + " "]
    for _ in range(300):
        parts = [rng.choice(names) for _ in range(rng.randrange(1, 5))]
        seps = [rng.choice(["/", "\\", "\\\\", " / ", "//"]) for _ in parts]
        paths.append("".join(p + s for p, s in zip(parts, seps))
                     [:rng.randrange(1, 60)])
    return paths


def describe(node):
    if isinstance(node, (Leaf, Dir)):
        return ("node", type(node).__name__, node.uid)
    return ("other", repr(node))


def run(method, root_kind, spec, path):
    del LOG[:]
    root = make_root(root_kind, spec)
    try:
        result = ("ok",) + describe(method(root, path))
    except BaseException as exc:  # noqa: B902
        ctx = exc.__context__
        ctx_name = type(ctx).__name__
        result = ("exc", type(exc).__name__, str(exc), exc.args,
                  ctx_name, str(ctx),
                  type(exc.__cause__).__name__, exc.__suppress_context__)
    return result, list(LOG)


def main():
    rng = random.Random(26)
    count = 0
    kinds = set()
    for spec_name in sorted(SPECS):
        spec = SPECS[spec_name]
        paths = candidate_paths(spec, rng)
        for root_kind in ("dir", "upper", "oneshot"):
            for path in paths:
                got = run(Traversable.parse_path, root_kind, spec, path)
                want = run(orig_parse_path, root_kind, spec, path)
                check("%s %s %r" % (spec_name, root_kind, path), got, want)
                kinds.add(want[0][:2])
                count += 1
    # non-string paths fail the same way
    for path in (None, 5, b"a/b", ["a"]):
        check("bad path %r" % (path,),
              run(Traversable.parse_path, "dir", SPECS["plain"], path),
              run(orig_parse_path, "dir", SPECS["plain"], path))
    wanted = {("ok", "node"), ("exc", "ErrorInvalidPath"),
              ("exc", "RuntimeError"), ("exc", "KeyError"),
              ("exc", "AttributeError")}
    if not wanted <= kinds:
        failures.append("outcomes too uniform")
        print("missing outcomes", sorted(wanted - kinds))
    if failures:
        print("FAILED: %d mismatches" % len(failures))
        return 1
    print("OK: %d paths, outcomes %s, all agree" % (count, sorted(kinds)))
    return 0


if __name__ == "__main__":
    sys.exit(main())
