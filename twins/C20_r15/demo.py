"""Equivalence evidence for r15: SlicingGeneral (smpl_extract/util/constructs.py),
the adapter behind the keygroup's per-zone fields enable_key_tracking,
aux_out_offset and velocity_to_sample_start.

The refactoring splits `_realize` into `_evaluate_bounds` (the four
`evaluate(...)` calls, same order) and the Slicing construction, lets `_decode`
unpack the 4-tuple instead of indexing `[0]`, and names the sliced list in
`_encode` before passing it on.

An inline copy of the ORIGINAL class (OrigSlicingGeneral) is compared with the
live class:
  1. direct `_decode` / `_encode` / `_realize` calls over a grid of count /
     start / stop / step / pattern values given as constants and as context
     lambdas that log the order in which they are evaluated (None, negative,
     zero step, out-of-range, non-int values included) and over many lists;
  2. parse / build / sizeof through Array subcons, as the keygroup declares
     them (`Int8ul[n]`, `Int16sl[n]`, BoolConstruct(Int8ul)[n]);
  3. whole keygroups: random 150-byte keygroup blocks with 0..4 active zones
     parsed by KeygroupConstruct + KeygroupAdapter with the live methods and
     with the ORIGINAL methods patched into the class; parsed containers, the
     Keygroup dataclass, exceptions, stream position and rebuilt bytes are
     compared.
Exit 0 = all agree, 1 = a difference was found.
"""
import io
import random
import struct
import sys
from typing import List
from typing import Tuple
from typing import cast

from construct.core import Adapter
from construct.core import Computed
from construct.core import Int16sl
from construct.core import Int8ul
from construct.core import Slicing
from construct.core import Struct
from construct.core import evaluate
from construct.lib.containers import Container

from smpl_extract.akai.keygroup import KeygroupAdapter
from smpl_extract.akai.keygroup import KeygroupConstruct
from smpl_extract.util.constructs import BoolConstruct
from smpl_extract.util.constructs import SlicingGeneral


# --------------------------------------------------------------------------
# inline copy of the ORIGINAL implementation
# --------------------------------------------------------------------------
class OrigSlicingGeneral(Adapter):


    def __init__(
            self,
            subcon,
            count,
            start,
            stop,
            step = 1,
            pattern = None
    )->None:
        super().__init__(subcon)  # type: ignore
        self.count = count
        self.start = start
        self.stop = stop
        self.step = step
        self.pattern = pattern


    def _realize(self,
            context
    )->Tuple[Slicing, int, int, int]:
        count = evaluate(self.count, context)
        start = evaluate(self.start, context)
        stop = evaluate(self.stop, context)
        step = evaluate(self.step, context)

        result = Slicing(
            self.subcon,  # type: ignore
            count,
            start,
            stop,
            step,
            self.pattern
        )
        return result, start, stop, step


    def _decode(self, obj, context, path):
        slicing = self._realize(context)[0]
        result = slicing._decode(obj, context, path)
        return result


    def _encode(self, obj, context, path):
        obj = cast(List, obj)
        slicing, start, stop, step = self._realize(context)
        result = slicing._encode(obj[start:stop:step], context, path)
        return result


failures = 0
checked = 0
LOG = []


def fail(*msg):
    global failures
    failures += 1
    if failures <= 5:
        print("MISMATCH", *[repr(m)[:400] for m in msg])


def logged(tag, value):
    """context lambda that records when it is evaluated"""
    def expr(ctx):
        LOG.append((tag, sorted(k for k in ctx.keys() if k != "_io")
                    if hasattr(ctx, "keys") else repr(ctx)))
        if isinstance(value, Exception):
            raise value
        return value
    return expr


def observe(func, *args):
    del LOG[:]
    try:
        res = func(*args)
        out = ("ok", type(res).__name__, repr(res))
    except Exception as e:  # noqa
        out = ("exc", type(e).__name__, str(e))
    return out, list(LOG)


class LoggingList(list):
    """list recording how it is sliced"""
    def __getitem__(self, key):
        LOG.append(("getitem", repr(key)))
        return list.__getitem__(self, key)

    def __len__(self):
        return list.__len__(self)


# --------------------------------------------------------------------------
# 1. direct calls
# --------------------------------------------------------------------------
counts = [0, 1, 4, 7, -1, None, "4", 2.0]
starts = [0, 1, 3, -1, -9, 9, None, "1", 1.5]
stops = [0, 1, 2, 4, -1, 9, None, "2"]
steps = [1, 2, -1, 0, None, 3, "1"]
patterns = [None, 0, False, "pad"]
lists = [[], [1], [1, 2], [1, 2, 3, 4], [True, False, True, False],
         list(range(9)), (5, 6, 7, 8), "abcd", None, 5]
rng = random.Random(15)
context = Container(num_velocity_zones=4, num_active_velocity_zones=2)
ok_seen = exc_seen = 0
grid = [(c, a, o, e, p) for c in counts for a in starts for o in stops
        for e in steps for p in patterns]
rng.shuffle(grid)
for n, (c, a, o, e, p) in enumerate(grid[:6000]):
    as_lambda = n % 2 == 0
    def args_for():
        if as_lambda:
            return (logged("count", c), logged("start", a),
                    logged("stop", o), logged("step", e))
        return (c, a, o, e)
    live = SlicingGeneral(Int8ul[4], *args_for(), pattern=p)
    orig = OrigSlicingGeneral(Int8ul[4], *args_for(), pattern=p)
    data = lists[n % len(lists)]
    for method in ("_decode", "_encode"):
        checked += 1
        arg_a = LoggingList(data) if isinstance(data, list) else data
        arg_b = LoggingList(data) if isinstance(data, list) else data
        ra = observe(getattr(live, method), arg_a, context, "(path)")
        rb = observe(getattr(orig, method), arg_b, context, "(path)")
        if ra != rb:
            fail(method, (c, a, o, e, p), data, ra, rb)
        ok_seen += ra[0][0] == "ok"
        exc_seen += ra[0][0] == "exc"
        if as_lambda and ra[0][0] == "ok" and \
                [t[0] for t in ra[1] if t[0] != "getitem"] != ["count", "start", "stop", "step"]:
            fail("evaluation order", ra[1])
    # _realize: same tuple shape, same Slicing attributes
    checked += 1
    def realized(obj):
        slicing, start, stop, step = obj._realize(context)
        return (type(slicing).__name__, slicing.subcon is obj.subcon,
                slicing.count, slicing.start, slicing.stop, slicing.step,
                slicing.empty, start, stop, step)
    ra = observe(realized, live)
    rb = observe(realized, orig)
    if ra != rb:
        fail("_realize", (c, a, o, e, p), ra, rb)
if min(ok_seen, exc_seen) < 500:
    fail("grid not diverse", ok_seen, exc_seen)
# a lambda that raises: later bounds must not be evaluated
for bad in ("count", "start", "stop", "step"):
    def args_for():
        return tuple(
            logged(k, KeyError(k) if k == bad else 1)
            for k in ("count", "start", "stop", "step"))
    live = SlicingGeneral(Int8ul[4], *args_for())
    orig = OrigSlicingGeneral(Int8ul[4], *args_for())
    for method in ("_decode", "_encode"):
        checked += 1
        ra = observe(getattr(live, method), [1, 2, 3, 4], context, "p")
        rb = observe(getattr(orig, method), [1, 2, 3, 4], context, "p")
        if ra != rb:
            fail("raising bound", bad, method, ra, rb)
# default step / keyword spelling
checked += 1
live = SlicingGeneral(Int8ul[4], 4, 1, 3)
orig = OrigSlicingGeneral(Int8ul[4], 4, 1, 3)
if (live.step, live.pattern, live.count, live.start, live.stop) != \
        (orig.step, orig.pattern, orig.count, orig.start, orig.stop):
    fail("defaults")


# --------------------------------------------------------------------------
# 2. parse / build / sizeof through Array subcons
# --------------------------------------------------------------------------
def n_zones(this):
    return this.num_velocity_zones


def n_active(this):
    return this.num_active_velocity_zones


def make_struct(cls):
    return Struct(
        "num_velocity_zones" / Int8ul,
        "num_active_velocity_zones" / Int8ul,
        "flags" / cls(BoolConstruct(Int8ul)[n_zones], n_zones, 0, n_active,
                      pattern=False),
        "bytes_" / cls(Int8ul[n_zones], n_zones, 0, n_active, pattern=0),
        "words" / cls(Int16sl[n_zones], n_zones, 0, n_active, pattern=0),
    )


def make_offset_struct(cls):
    # start != 0: `_encode` slices the given list once more before handing it
    # to Slicing, so these do not round-trip; both versions must fail alike
    return Struct(
        "num_velocity_zones" / Int8ul,
        "odd" / cls(Int8ul[n_zones], n_zones, 1, None, 2, pattern=7),
        "tail" / cls(Int8ul[3], 3, -2, 3),
    )


live_struct = make_struct(SlicingGeneral)
orig_struct = make_struct(OrigSlicingGeneral)
live_offset_struct = make_offset_struct(SlicingGeneral)
orig_offset_struct = make_offset_struct(OrigSlicingGeneral)
for n in range(400):
    zones = rng.randrange(0, 7)
    blob = bytes([zones]) + bytes(rng.randrange(256) for _ in range(zones + 3))
    if n % 10 == 0:
        blob = blob[:rng.randrange(0, len(blob) + 1)]
    checked += 1
    ra = observe(live_offset_struct.parse, blob)
    rb = observe(orig_offset_struct.parse, blob)
    if ra != rb:
        fail("offset parse", blob.hex(), ra, rb)
    for odd in ([], [1], [1, 2], [1, 2, 3], [1, 2, 3, 4, 5, 6]):
        for tail in ([], [9], [9, 8], [9, 8, 7]):
            checked += 1
            v = dict(num_velocity_zones=zones, odd=odd, tail=tail)
            ra = observe(live_offset_struct.build, v)
            rb = observe(orig_offset_struct.build, v)
            if ra != rb:
                fail("offset build", v, ra, rb)
parsed_ok = built_ok = 0
for n in range(1500):
    zones = rng.randrange(0, 7)
    active = rng.randrange(0, 9)
    body_len = zones * 4
    body = bytes(rng.randrange(256) for _ in range(body_len))
    if n % 10 == 0:
        body = body[:rng.randrange(0, body_len + 1)]
    blob = bytes([zones, active]) + body
    checked += 1
    sa, sb = io.BytesIO(blob), io.BytesIO(blob)
    ra = observe(live_struct.parse_stream, sa)
    rb = observe(orig_struct.parse_stream, sb)
    if ra != rb or sa.tell() != sb.tell():
        fail("parse", blob.hex(), ra, rb)
    if ra[0][0] != "ok":
        continue
    parsed_ok += 1
    obj = live_struct.parse(blob)
    obj.pop("_io", None)
    variants = [obj]
    changed = Container(obj)
    changed["bytes_"] = [rng.randrange(256) for _ in range(rng.randrange(0, 6))]
    changed["words"] = [rng.randrange(-32768, 32768) for _ in range(rng.randrange(0, 6))]
    changed["flags"] = [rng.random() < 0.5 for _ in range(rng.randrange(0, 6))]
    variants.append(changed)
    for v in variants:
        checked += 1
        ra = observe(live_struct.build, v)
        rb = observe(orig_struct.build, v)
        if ra != rb:
            fail("build", v, ra, rb)
        built_ok += ra[0][0] == "ok"
    checked += 1
    ra = observe(lambda: live_struct.sizeof(num_velocity_zones=zones))
    rb = observe(lambda: orig_struct.sizeof(num_velocity_zones=zones))
    if ra != rb:
        fail("sizeof", zones, ra, rb)
if parsed_ok < 800 or built_ok < 300:
    fail("too few ok", parsed_ok, built_ok)


# --------------------------------------------------------------------------
# 3. whole keygroups, ORIGINAL methods patched into the live class
# --------------------------------------------------------------------------
METHODS = ("_realize", "_decode", "_encode")
LIVE = {k: SlicingGeneral.__dict__[k] for k in METHODS}
ORIG = {k: OrigSlicingGeneral.__dict__[k] for k in METHODS}


def use(table):
    for k, v in table.items():
        setattr(SlicingGeneral, k, v)


DEFAULT_KEYGROUP = bytes.fromhex(
    "029600187f0000630c000000001e632d000000000032632d0000000000000104ffff"
    + "0a0a0a0a0a0a0a0a0a0a0a0a007f000000000000ffff2c01" * 4
    + "0000010100000000000000000000000000000000"
)
assert len(DEFAULT_KEYGROUP) == 150


def akai_name(rng):
    if rng.random() < 0.35:
        return bytes([0x0A] * 12)
    n = rng.randrange(1, 13)
    return bytes(rng.randrange(0, 0x29) for _ in range(n)) + bytes([0x0A] * (12 - n))


def make_keygroup(rng):
    kg = bytearray(DEFAULT_KEYGROUP)
    kg[1:3] = struct.pack("<H", rng.randrange(0, 65536))
    kg[3] = rng.randrange(0x18, 0x80)
    kg[4] = rng.randrange(0x18, 0x80)
    for off in range(5, 32):
        kg[off] = rng.randrange(256)
    if rng.random() < 0.15:
        kg[31] = rng.randrange(0, 5)        # num_velocity_zones other than 4
    else:
        kg[31] = 4
    for z in range(4):
        base = 34 + 24 * z
        kg[base:base + 12] = akai_name(rng)
        for off in range(12, 20):
            kg[base + off] = rng.randrange(256)
        kg[base + 20] = rng.randrange(0, 6)
    for off in range(130, 150):
        kg[off] = rng.randrange(256)
    return bytes(kg)


def freeze(value):
    if isinstance(value, dict):
        return ("dict", [(k, freeze(v)) for k, v in value.items() if k != "_io"])
    if isinstance(value, (list, tuple)):
        return (type(value).__name__, [freeze(v) for v in value])
    return (type(value).__name__, repr(value), str(value))


keygroup_parser = Struct(
    "keygroup_raw" / KeygroupConstruct,
    "keygroup" / KeygroupAdapter(Computed(lambda this: this.keygroup_raw)),
)


def observe_keygroup(blob):
    stream = io.BytesIO(blob)
    try:
        parsed = keygroup_parser.parse_stream(stream)
    except Exception as e:  # noqa
        return ("exc", type(e).__name__, str(e), stream.tell())
    raw = parsed.keygroup_raw
    try:
        rebuilt = KeygroupConstruct.build(raw).hex()
    except Exception as e:  # noqa
        rebuilt = ("exc", type(e).__name__, str(e))
    return ("ok", freeze(raw), repr(parsed.keygroup), stream.tell(), rebuilt)


keygroups_ok = 0
for n in range(600):
    blob = make_keygroup(rng)
    if n % 25 == 0:
        blob = blob[:rng.randrange(100, 150)]
    checked += 1
    use(LIVE)
    a = observe_keygroup(blob)
    use(ORIG)
    try:
        b = observe_keygroup(blob)
    finally:
        use(LIVE)
    if a != b:
        fail("keygroup", blob.hex(), a, b)
    keygroups_ok += a[0] == "ok"
if keygroups_ok < 400:
    fail("too few keygroups parsed", keygroups_ok)
assert all(SlicingGeneral.__dict__[k] is v for k, v in LIVE.items())

print("r15 demo: %d comparisons (%d direct ok / %d direct exc, %d structs parsed, "
      "%d built, %d keygroups ok), %d failures"
      % (checked, ok_seen, exc_seen, parsed_ok, built_ok, keygroups_ok, failures))
sys.exit(1 if failures else 0)
