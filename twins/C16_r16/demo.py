"""Equivalence demo for r16: is_roland_s7xx_image (smpl_extract/roland/s7xx/image.py),
the probe that determine_image_type runs on the stream it has just opened
read-only ("rb") and that must hand the stream back at the position where it
found it.

Part 1: the live function and an inline copy of the ORIGINAL are run on
recording streams (every tell / seek / read call with arguments and results is
logged) over many blobs: valid Roland ID areas, ID areas with one field broken
(regex mismatch, non-ASCII text, truncation), empty and random data, from
random start positions (also beyond the end), and on streams that raise
OSError / ValueError / ConstructError-unrelated errors from tell, seek or read
at a chosen call.  Result, exception, the complete call log and the final
stream position must agree.

Part 2: determine_image_type on real files in a fresh temporary directory
(AKAI-like blobs, blobs that start with a valid Roland ID area, text files),
once with the live probe and once with the original patched into
smpl_extract.actions; the kind of image returned / exception raised, the
position of the opened stream, its mode, and the file's SHA-256 afterwards
must agree.
"""
import hashlib
import io
import os
import random
import shutil
import sys
import tempfile

from construct.core import ConstructError
from io import SEEK_SET

import smpl_extract.actions as actions
from smpl_extract.akai.data_types import AKAI_PARTITION_MAGIC
from smpl_extract.roland.s7xx import image as roland_image
from smpl_extract.roland.s7xx.image import IdAreaAdapterParser


# --------------------------------------------------------------------------
# inline copy of the ORIGINAL implementation
# --------------------------------------------------------------------------
def orig_is_roland_s7xx_image(stream):
    stream_head = stream.tell()
    stream.seek(0, SEEK_SET)

    result = True
    try:
        IdAreaAdapterParser.parse_stream(stream)  # type: ignore
    except (ConstructError, UnicodeDecodeError) as e:
        result = False

    stream.seek(stream_head, SEEK_SET)
    return result


# --------------------------------------------------------------------------
# recording stream
# --------------------------------------------------------------------------
class Recorder:
    def __init__(self, data, start, fail_at=None, fail_exc=None):
        self.inner = io.BytesIO(data)
        self.inner.seek(start)
        self.log = []
        self.fail_at = fail_at
        self.fail_exc = fail_exc

    def _call(self, name, *args):
        index = len(self.log)
        if self.fail_at is not None and index == self.fail_at:
            self.log.append((name, args, "raise " + self.fail_exc.__name__))
            raise self.fail_exc("injected at call %d" % index)
        value = getattr(self.inner, name)(*args)
        self.log.append((name, args, value))
        return value

    def tell(self):
        return self._call("tell")

    def seek(self, *args):
        return self._call("seek", *args)

    def read(self, *args):
        return self._call("read", *args)


def make_id_area(rng, mutate=None):
    def pad(text, size):
        raw = text if isinstance(text, bytes) else text.encode("ascii")
        return raw[:size].ljust(size, b"\x00")

    s7xx = rng.choice(["S770 MR25A", "S750 MR25A", "s760 mr25a", " S77 MR25A"[1:] + " "])
    version = rng.choice(["S-770 Hard Disk Ver. 2.23", "S-760 MO Disk Ver 1.0",
                          "s-750 Sound Disk  Ver.2.10-b"])
    copyright_text = rng.choice(["Copyright Roland", "  copyright roland corp"])
    if mutate == "s7xx":
        s7xx = "AKAI S1000"
    elif mutate == "version":
        version = "Version two"
    elif mutate == "copyright":
        copyright_text = "Copyleft"
    elif mutate == "non_ascii_s7xx":
        s7xx = b"S770 MR25\xff"
    elif mutate == "non_ascii_name":
        pass
    blob = b"".join([
        rng.randrange(1 << 32).to_bytes(4, "little"),
        pad(s7xx, 10), bytes(2),
        pad("", 15), bytes(1),
        pad(version, 31), bytes(1),
        pad(copyright_text, 31), bytes(1),
        bytes(160),
        pad(b"DISK \xe9" if mutate == "non_ascii_name" else "MY DISK", 16),
        rng.randrange(1 << 32).to_bytes(4, "little"),
    ] + [rng.randrange(1 << 16).to_bytes(2, "little") for _ in range(5)])
    blob += bytes(rng.randrange(256) for _ in range(rng.choice([0, 10, 226, 400])))
    if mutate == "truncate":
        blob = blob[:rng.randint(0, 285)]
    return blob


MUTATIONS = [None, None, None, "s7xx", "version", "copyright", "non_ascii_s7xx",
             "non_ascii_name", "truncate"]
FAIL_EXCS = [OSError, ValueError, KeyError, UnicodeDecodeError.__mro__[1], RuntimeError]


def run_probe(func, data, start, fail_at, fail_exc):
    stream = Recorder(data, start, fail_at, fail_exc)
    try:
        value = func(stream)
        outcome = ("ok", value, type(value).__name__)
    except Exception as e:  # noqa
        outcome = ("exc", type(e).__name__, str(e))
    return outcome, stream.log, stream.inner.tell()


def part_one():
    rng = random.Random(1616)
    live = roland_image.is_roland_s7xx_image
    checks = failures = 0
    seen = {}
    for case in range(4000):
        choice = rng.random()
        if choice < 0.6:
            data = make_id_area(rng, rng.choice(MUTATIONS))
        elif choice < 0.7:
            data = b""
        else:
            data = bytes(rng.randrange(256) for _ in range(rng.choice([1, 50, 290, 600])))
        start = rng.choice([0, 0, 1, 4, len(data), len(data) + 7, rng.randint(0, 700)])
        fail_at = rng.randint(0, 25) if rng.random() < 0.25 else None
        fail_exc = rng.choice(FAIL_EXCS)
        a = run_probe(live, data, start, fail_at, fail_exc)
        b = run_probe(orig_is_roland_s7xx_image, data, start, fail_at, fail_exc)
        checks += 1
        seen[a[0][:2]] = seen.get(a[0][:2], 0) + 1
        if a != b:
            failures += 1
            if failures <= 3:
                print("MISMATCH case", case, a, b)
    print("  outcomes:", sorted(seen.items(), key=str))
    if not (seen.get(("ok", True)) and seen.get(("ok", False))):
        print("  demo is not exercising both answers")
        failures += 1
    return checks, failures


# --------------------------------------------------------------------------
# part 2
# --------------------------------------------------------------------------
def make_akai_partition(num_sectors):
    data = bytearray(num_sectors * 0x2000)
    data[0:2] = num_sectors.to_bytes(2, "little")
    data[4:4 + len(AKAI_PARTITION_MAGIC)] = AKAI_PARTITION_MAGIC
    data[200:202] = b"\x2f\x00"
    return bytes(data)


def sha(path):
    with open(path, "rb") as f:
        return hashlib.sha256(f.read()).hexdigest()


def classify(path):
    before = sha(path)
    try:
        image = actions.determine_image_type(path)
        stream = getattr(image, "file", None)
        described = ("ok", type(image).__name__,
                     None if stream is None else (stream.tell(), getattr(stream, "mode", None),
                                                  stream.writable()))
        if stream is not None:
            stream.close()
    except Exception as e:  # noqa
        described = ("exc", type(e).__name__)
    return described, before == sha(path)


def part_two():
    rng = random.Random(16160)
    directory = tempfile.mkdtemp(prefix="r16_demo_")
    checks = failures = 0
    try:
        blobs = {
            "akai.img": make_akai_partition(4) + make_akai_partition(5),
            "empty.img": b"",
            "zeros.img": bytes(5000),
            "text.txt": b"hello\nworld\n",
            "notcue.cue": b'FILE "x.bin" BINARY\n',
        }
        for i in range(6):
            blobs["roland%d.img" % i] = make_id_area(rng, [None, None, "version", "truncate",
                                                         "non_ascii_name", None][i]) + bytes(3000)
        for i in range(6):
            blobs["random%d.img" % i] = bytes(rng.randrange(256) for _ in range(rng.randint(1, 4000)))
        saved = actions.is_roland_s7xx_image
        for name, blob in sorted(blobs.items()):
            path = os.path.join(directory, name)
            with open(path, "wb") as f:
                f.write(blob)
            res_live = classify(path)
            actions.is_roland_s7xx_image = orig_is_roland_s7xx_image
            try:
                res_orig = classify(path)
            finally:
                actions.is_roland_s7xx_image = saved
            checks += 1
            if res_live != res_orig or not res_live[1]:
                failures += 1
                print("FILE MISMATCH", name, res_live, res_orig)
    finally:
        shutil.rmtree(directory, ignore_errors=True)
    return checks, failures


def main():
    total = 0
    for title, part in (("probe on recording streams", part_one),
                        ("determine_image_type on files", part_two)):
        checks, failures = part()
        print("%s: checks %d failures %d" % (title, checks, failures))
        total += failures
    return 1 if total else 0


if __name__ == "__main__":
    sys.exit(main())
