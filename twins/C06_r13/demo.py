"""Equivalence demo for CompactDiskAudioImage.children (C06, r13).

The live property is compared against an inline copy of the ORIGINAL body on
 * hand-made images: no routines attribute at all, empty / one / several
   routines, routines that reverse / filter / replace / raise, `_routines`
   objects of odd types (None, dict subclass that logs .values(), a property
   that raises AttributeError or another error), `tracks` being odd objects;
 * real images built by CompactDiskAudioImageAdapter.from_bin_cue from
   generated bin/cue pairs with hostile titles, with the name routines
   installed, comparing the assigned safe/export names;
 * a complete export_samples_to_wav run into a fresh temporary directory,
   once with the live property and once with the ORIGINAL property patched
   in, comparing stdout and the produced directory tree byte for byte.
Exit status 0 when everything agrees, 1 otherwise.
"""
import contextlib
import io
import os
import random
import shutil
import sys
import tempfile

from smpl_extract import actions
from smpl_extract.cdda.image import AudioTrack
from smpl_extract.cdda.image import BYTES_PER_FRAME
from smpl_extract.cdda.image import CompactDiskAudioImage
from smpl_extract.cdda.image import CompactDiskAudioImageAdapter
from smpl_extract.cuesheet import parse_cue_sheet


# --------------------------------------------------------------------------
# ORIGINAL implementation (verbatim body of the property)
# --------------------------------------------------------------------------
def original_children(self):
    tracks = self.tracks
    for routine in getattr(self, "_routines", {}).values():
        tracks = routine(tracks)
    return tracks


LIVE_PROPERTY = CompactDiskAudioImage.__dict__["children"]


def live_children(self):
    return LIVE_PROPERTY.fget(self)


FAILURES = []


def check(label, left, right):
    if left != right:
        FAILURES.append(label)
        print("MISMATCH", label)
        print("   original:", repr(left)[:400])
        print("   live    :", repr(right)[:400])


def outcome(func, *args):
    try:
        return ("ok", func(*args))
    except BaseException as error:  # noqa: BLE001 - compared, not hidden
        return ("raised", type(error).__name__, str(error))


# --------------------------------------------------------------------------
# part 1: hand-made images
# --------------------------------------------------------------------------
class LoggingDict(dict):
    def __init__(self, log, *args):
        super().__init__(*args)
        self.log = log

    def values(self):
        self.log.append("values()")
        return super().values()


def make_routine(kind, log, tag):
    def routine(items):
        log.append((tag, kind, [getattr(x, "title", x) for x in items]))
        if kind == "identity":
            return items
        if kind == "copy":
            return list(items)
        if kind == "reverse":
            return list(reversed(items))
        if kind == "drop_first":
            return items[1:]
        if kind == "rename":
            for index, item in enumerate(items):
                item._export_name = f"{tag}-{index}"
            return items
        if kind == "raise":
            raise RuntimeError("routine " + tag + " failed")
        if kind == "none":
            return None
        raise AssertionError(kind)
    return routine


class RaisingAttr(CompactDiskAudioImage):
    """`_routines` is a property raising AttributeError (swallowed by both)."""
    @property
    def _routines(self):
        self.log.append("_routines read")
        raise AttributeError("nope")


class RaisingOther(CompactDiskAudioImage):
    @property
    def _routines(self):
        self.log.append("_routines read")
        raise KeyError("other")


class LoggingTracks(CompactDiskAudioImage):
    """Reads of `tracks` and `_routines` are logged to check their order."""
    def __getattribute__(self, name):
        if name in ("tracks", "_routines"):
            object.__getattribute__(self, "log").append("get " + name)
        return object.__getattribute__(self, name)


def build_tracks(count):
    return [AudioTrack(title=f"t{i}", _path=[f"t{i}"]) for i in range(count)]


def hand_made_scenarios():
    kinds = ["identity", "copy", "reverse", "drop_first", "rename", "raise", "none"]
    scenarios = []
    for count in (0, 1, 3):
        scenarios.append(("no attribute", CompactDiskAudioImage, count, "absent"))
        scenarios.append(("empty dict", CompactDiskAudioImage, count, []))
        for kind in kinds:
            scenarios.append((f"one {kind}", CompactDiskAudioImage, count, [kind]))
        rng = random.Random(count)
        for _ in range(40):
            chain = [rng.choice(kinds) for _ in range(rng.randint(2, 4))]
            scenarios.append(("chain " + ",".join(chain), CompactDiskAudioImage, count, chain))
        scenarios.append(("routines None", CompactDiskAudioImage, count, "none"))
        scenarios.append(("routines list", CompactDiskAudioImage, count, "list"))
        scenarios.append(("logging dict", CompactDiskAudioImage, count, "logging"))
        scenarios.append(("prop AttributeError", RaisingAttr, count, "absent"))
        scenarios.append(("prop KeyError", RaisingOther, count, "absent"))
        scenarios.append(("logged reads absent", LoggingTracks, count, "absent"))
        scenarios.append(("logged reads chain", LoggingTracks, count, ["copy", "reverse"]))
    return scenarios


def run_hand_made(impl, scenario):
    _, cls, count, spec = scenario
    log = []
    image = cls()
    object.__setattr__(image, "log", log)
    image.tracks = build_tracks(count)
    if spec == "absent":
        pass
    elif spec == "none":
        image._routines = None
    elif spec == "list":
        image._routines = [make_routine("copy", log, "r0")]
    elif spec == "logging":
        image._routines = LoggingDict(log, {"a": make_routine("reverse", log, "a")})
    else:
        image.set_routines({
            f"r{i}": make_routine(kind, log, f"r{i}") for i, kind in enumerate(spec)
        })
    first = outcome(impl, image)
    second = outcome(impl, image)        # not cached: evaluated again
    same_list = first[0] == "ok" and first[1] is image.tracks

    def view(result):
        if result[0] != "ok" or result[1] is None:
            return result
        return ("ok", [(t.title, t.export_name) for t in result[1]])
    return (view(first), view(second), same_list, log,
            [t.title for t in image.tracks], hasattr(image, "_children"))


def part_hand_made():
    for scenario in hand_made_scenarios():
        expected = run_hand_made(original_children, scenario)
        actual = run_hand_made(live_children, scenario)
        check("hand-made: %s / %d tracks" % (scenario[0], scenario[2]), expected, actual)


# --------------------------------------------------------------------------
# part 2 + 3: generated bin/cue images
# --------------------------------------------------------------------------
TITLES = [
    "Kick", "Kick", "kick", "Kick!", "Kick?", "Snare -L", "Snare -R", "Snare",
    "a/b", "a\\\\b", "..", ".", "...", "", " ", "'quoted'", "`tick`", "x:y", ":x",
    "Kick (2)", "Kick (2)", "Pad L", "Pad R", "Pad", "\t tab", "CON", "name.",
    "name .", "-lead", "#1", "@home", "a=b", "a&b", "a+b", "été",
    "录音", "x" * 70, "Bass-L", "Bass-R", "Bass", "Bass (2)", "0",
]


def make_cue(root, titles, frames_each=2, final_frames=3, name="disc"):
    bin_path = os.path.join(root, name + ".bin")
    cue_path = os.path.join(root, name + ".cue")
    total_frames = frames_each * (len(titles) - 1) + final_frames
    rng = random.Random(len(titles))
    with open(bin_path, "wb") as handle:
        handle.write(bytes(rng.randrange(256) for _ in range(total_frames * BYTES_PER_FRAME)))
    lines = [f'FILE "{name}.bin" BINARY']
    for index, title in enumerate(titles):
        frame = index * frames_each
        lines.append(f"  TRACK {index + 1:02d} AUDIO")
        if title is not None:
            lines.append(f'    TITLE "{title}"')
        lines.append("    INDEX 01 %02d:%02d:%02d" % (frame // 4500, (frame // 75) % 60, frame % 75))
    with open(cue_path, "w", encoding="utf-8") as handle:
        handle.write("\n".join(lines) + "\n")
    return cue_path, bin_path, lines


def title_sets():
    rng = random.Random(1306)
    sets = [TITLES, ["only"], [None, None, None], ["same"] * 6]
    for _ in range(25):
        sets.append([rng.choice(TITLES) for _ in range(rng.randint(2, 12))])
    return sets


def names_view(impl, image):
    result = outcome(impl, image)
    if result[0] != "ok":
        return result
    return [(t.title, t.safe_name, t.export_name, t.export_path()) for t in result[1]]


def part_parsed_images(root):
    for number, titles in enumerate(title_sets()):
        _, bin_path, lines = make_cue(root, titles, name=f"names{number}")
        views = []
        for impl in (original_children, live_children):
            with open(bin_path, "rb") as stream:
                image = CompactDiskAudioImageAdapter.from_bin_cue(
                    stream, parse_cue_sheet(list(lines)))
                before = names_view(impl, image)
                image.set_routines({
                    "make_safe_names": image.make_safe_names_routine,
                    "make_export_names": image.make_export_names_routine,
                })
                after = names_view(impl, image)
                image.set_routines({})
                cleared = names_view(impl, image)
                views.append((before, after, cleared))
        check(f"parsed image {number}", views[0], views[1])


def tree(root):
    found = {}
    for directory, _, files in os.walk(root):
        for file_name in files:
            full = os.path.join(directory, file_name)
            with open(full, "rb") as handle:
                found[os.path.relpath(full, root)] = handle.read()
    return found


def export_run(cue_path, destination, use_original):
    saved = CompactDiskAudioImage.__dict__["children"]
    if use_original:
        CompactDiskAudioImage.children = property(original_children)
    captured = io.StringIO()
    try:
        with contextlib.redirect_stdout(captured):
            result = outcome(actions.export_samples_to_wav, cue_path, destination)
    finally:
        CompactDiskAudioImage.children = saved
    return result, captured.getvalue(), tree(destination)


def part_export(root):
    # ASCII only here: cue sheets given by file name are read as ascii
    for number, titles in enumerate(title_sets()):
        titles = [t if t is None or t.isascii() else "uni" for t in titles]
        source = os.path.join(root, f"src{number}")
        os.makedirs(source)
        cue_path, _, _ = make_cue(source, titles)
        runs = []
        for use_original in (True, False):
            destination = os.path.join(root, f"out{number}_{int(use_original)}", "a", "b", "c")
            os.makedirs(destination)
            runs.append(export_run(cue_path, destination, use_original))
        check(f"export {number}", runs[0], runs[1])


def main():
    root = tempfile.mkdtemp(prefix="r13demo_")
    try:
        part_hand_made()
        part_parsed_images(root)
        part_export(root)
    finally:
        shutil.rmtree(root, ignore_errors=True)
    if FAILURES:
        print(f"{len(FAILURES)} mismatches")
        return 1
    print("all scenarios agree")
    return 0


if __name__ == "__main__":
    sys.exit(main())
