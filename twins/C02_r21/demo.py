"""Equivalence demo for r21: smpl_extract/roland/s7xx/fat.py,
FatAreaAdapter._decode - the part that turns the two trailing FAT words
(version_flag_1 / version_flag_2) into the FAT / directory version (mechanism
'FAT words -> cluster links'; the version it returns decides how the directory
link pointers are rebased).

Refactoring: the per-call dict `version_map`, the pre-initialised `version = 1`
and the `for ... : if flag != V1: <validate>; version = map[flag]; break` loop
were moved into a new private module function `_detect_fat_version(flags)`
that returns early (no `break`, no default variable); the dict literal became a
module-level table built with `dict(zip(FLAGS, (1, 2)))`, and the
`not in map.keys()` test + `map[flag]` subscription became one `.get()`
followed by an `is None` test.

The ORIGINAL `_decode` (pasted below) is installed on FatAreaAdapter for a
second run of every scenario and the two runs are compared:
  (1) direct `_decode` calls on containers with every pair of flag values from
      a list of interesting 16-bit words (both valid flags, unknown words, the
      other FAT marker words) and of odd objects (None, str, float, bool,
      unhashable, custom __eq__/__ne__/__hash__ with logging): version,
      num_remaining_clusters, every sector link, table size, parent stream
      identity, or exception type + message; the order of the `!=` tests and
      message formatting calls made on the odd objects is compared too,
  (2) FatAreaParser.parse_stream on byte streams holding random cluster chains
      (shuffled cluster order), bad identifiers, loops and flag words in the
      middle of a chain, for every flag pair,
  (3) a minimal whole image parsed with RolandSxxImageParser: `fat_area`
      version and chains for FAT version 1 and 2,
  (4) precomputed versions.
Exit 0 when everything agrees, 1 otherwise.
"""
import io
import itertools
import random
import struct
import sys
from typing import cast

from construct.core import ConstructError
from construct.lib.containers import Container

from smpl_extract.roland.s7xx import data_types as dt
from smpl_extract.roland.s7xx import fat as live
from smpl_extract.roland.s7xx import image as image_mod
from smpl_extract.roland.s7xx.data_types import FAT_AREA_ID
from smpl_extract.roland.s7xx.data_types import FAT_ERROR_FLAG
from smpl_extract.roland.s7xx.data_types import FAT_FREE_FLAG
from smpl_extract.roland.s7xx.data_types import FAT_IS_END_F
from smpl_extract.roland.s7xx.data_types import FAT_NUM_ENTRIES
from smpl_extract.roland.s7xx.data_types import FAT_RESERVED_FLAG
from smpl_extract.roland.s7xx.data_types import FAT_VERSION_1_FLAG
from smpl_extract.roland.s7xx.data_types import FAT_VERSION_2_FLAG
from smpl_extract.roland.s7xx.fat import FatArea
from smpl_extract.roland.s7xx.fat import FatAreaContainer
from smpl_extract.roland.s7xx.fat import RolandFileAllocationTable
from smpl_extract.util.fat import SectorLink
from smpl_extract.util.fat import add_to_sector_links


# ---------------------------------------------------------------- original --
def original_decode(self, obj, context, path) -> FatArea:
    container = cast(FatAreaContainer, obj)

    fat_id = container.metadata.fat_id
    if fat_id != FAT_AREA_ID:
        raise ConstructError((
            "Bad FAT identifier. "
            f"Expected {FAT_AREA_ID}, found {fat_id}"
        ))

    num_remaining_clusters = container.metadata.num_unused_clusters

    version_flag_1 = container.metadata.version_flag_1
    version_flag_2 = container.metadata.version_flag_2

    version_map = {
        FAT_VERSION_1_FLAG: 1,
        FAT_VERSION_2_FLAG: 2
    }

    version = 1

    for version_flag in (version_flag_1, version_flag_2):
        if version_flag != FAT_VERSION_1_FLAG:
            if version_flag not in version_map.keys():
                raise ConstructError((
                    f"Unknown FAT version {version_flag}."
                ))
            version = version_map[version_flag]
            break

    fat_entries = container.fat_entries

    sector_links = [SectorLink()] * FAT_NUM_ENTRIES
    dirty_flags = [False] * FAT_NUM_ENTRIES
    dirty_flags[0:2] = [True, True]
    for i in range(2, FAT_NUM_ENTRIES - 9):

        if dirty_flags[i]:
            continue

        subpath_links = []
        subpath_visited = set()
        subpath_index = i
        while True:
            if subpath_index >= FAT_NUM_ENTRIES:
                break

            if subpath_index in subpath_visited:
                raise ConstructError("Encountered a loop in FAT.")
            subpath_visited.add(subpath_index)

            value = fat_entries[subpath_index]
            dirty_flags[subpath_index] = True

            if value == FAT_ERROR_FLAG:
                raise ConstructError("Encountered ERROR_FLAG in FAT.")

            if value in (FAT_RESERVED_FLAG, FAT_FREE_FLAG):
                if len(subpath_links) > 0:
                    if value == FAT_RESERVED_FLAG:
                        err_type = "RESERVE_FLAG"
                    else:
                        err_type = "FREE_FLAG"
                    raise ConstructError(f"Unexpected {err_type} in FAT.")
                else:
                    break

            subpath_links.append(subpath_index)

            if FAT_IS_END_F(value):
                add_to_sector_links(subpath_links, sector_links)
                break

            subpath_index = value
            continue

    fat = RolandFileAllocationTable(
        container.fat_data_stream,
        FAT_NUM_ENTRIES,
        sector_links
    )

    result = FatArea(
        version,
        num_remaining_clusters,
        fat
    )
    return result
# -----------------------------------------------------------------------------

failures = []


def check(cond, what):
    if not cond:
        failures.append(what)
        print("MISMATCH:", what)


def outcome(fn):
    try:
        return ("ok", fn())
    except BaseException as e:  # noqa: BLE001
        return ("exc", type(e).__name__, str(e))


OPS = []


class Flag:
    """Flag stand-in with programmable ==, != and hash; logs the `!=` tests and
    the formatting calls made on it (flags parsed from an image are plain ints;
    how often a dict probes a key's hash is not part of the contract)."""

    def __init__(self, label, equal_to=(), hash_value=None, hashable=True, raise_ne=False,
                 text="flag"):
        self.label = label
        self.equal_to = equal_to
        self.hash_value = hash_value
        self.hashable = hashable
        self.raise_ne = raise_ne
        self.text = text

    def __eq__(self, other):
        return other in self.equal_to

    def __ne__(self, other):
        OPS.append((self.label, "ne", repr(other)))
        if self.raise_ne:
            raise RuntimeError("ne %r" % (other,))
        return other not in self.equal_to

    def __hash__(self):
        if not self.hashable:
            raise TypeError("unhashable flag %s" % self.label)
        return hash(self.hash_value)

    def __format__(self, spec):
        OPS.append((self.label, "format", spec))
        return self.text

    def __repr__(self):
        return "Flag(%s)" % self.label


INT_FLAGS = [0xffff, 0xfffe, 0xfffd, 0xfffa, 0xfff8, 0xfff7, 0x0000, 0x0001, 0x0002, 0x8000,
             0x7fff, 0x1234]


def odd_flags():
    return [
        None, "65534", "", 65535.0, 65534.0, 65534.5, True, False, -1, -2, 2 ** 16 + 0xfffe,
        (0xfffe,), [0xfffe], {0xfffe}, b"\xfe\xff", 1 + 0j,
        Flag("eqV1", equal_to=(0xffff,), hash_value=0xffff),
        Flag("eqV2", equal_to=(0xfffe,), hash_value=0xfffe),
        Flag("eqV2-wrong-hash", equal_to=(0xfffe,), hash_value=7),
        Flag("eq-both", equal_to=(0xffff, 0xfffe), hash_value=0xfffe),
        Flag("eq-none", hash_value=0xfffe),
        Flag("unhashable", hashable=False),
        Flag("unhashable-eqV1", equal_to=(0xffff,), hashable=False),
        Flag("raise-ne", raise_ne=True),
    ]


def make_words(rng, kind):
    words = [0] * FAT_NUM_ENTRIES
    if kind in ("chains", "loop", "free-mid", "reserved-mid", "error"):
        free = list(range(2, 300)) + [FAT_NUM_ENTRIES - 12, FAT_NUM_ENTRIES - 10]
        rng.shuffle(free)
        chains = []
        while len(free) > 10:
            n = rng.randrange(1, 9)
            chain, free = free[:n], free[n:]
            chains.append(chain)
            for a, b in zip(chain, chain[1:]):
                words[a] = b
            words[chain[-1]] = 0xfff8 + rng.randrange(8)
        long_chain = max(chains, key=len)
        if kind == "loop":
            words[long_chain[-1]] = long_chain[0]
        elif kind == "free-mid":
            words[long_chain[-1]] = 1000
        elif kind == "reserved-mid":
            words[long_chain[-1]] = 1001
            words[1001] = 1
        elif kind == "error":
            words[long_chain[-1]] = 0xfff7
    elif kind == "random":
        words = [rng.randrange(0x10000) for _ in range(FAT_NUM_ENTRIES)]
    words[0] = FAT_AREA_ID
    words[1] = rng.randrange(0x10000)
    return words


def summarize(area, stream_obj):
    links = area.fat.sector_links
    default = SectorLink()
    touched = [(i, l.next, l.end) for i, l in enumerate(links) if l != default]
    return (area.version, type(area.version).__name__, area.num_remaining_clusters,
            area.fat.size, len(links), touched, area.fat.parent_stream is stream_obj,
            type(area).__name__, type(area.fat).__name__)


def decode_direct(words, fat_id, unused, flag_1, flag_2):
    stream_obj = io.BytesIO(b"data")
    container = Container(
        fat_entries=words,
        metadata=Container(fat_id=fat_id, num_unused_clusters=unused,
                           version_flag_1=flag_1, version_flag_2=flag_2),
        stream_size=4,
        fat_data_stream=stream_obj,
    )
    del OPS[:]
    res = outcome(lambda: summarize(live.FatAreaParser._decode(container, Container(), "(demo)"),
                                    stream_obj))
    return res, list(OPS)


def scenario_direct():
    out = []
    rng = random.Random(21)
    small = make_words(rng, "chains")
    empty = make_words(rng, "zero")
    # every pair of integer flag words
    for f1, f2 in itertools.product(INT_FLAGS, repeat=2):
        out.append(("int", f1, f2, decode_direct(empty, FAT_AREA_ID, 77, f1, f2)))
    for f1, f2 in itertools.product((0xffff, 0xfffe, 0xfffd, 0), repeat=2):
        out.append(("int chains", f1, f2, decode_direct(small, FAT_AREA_ID, 3, f1, f2)))
    # odd objects in either position, next to each plain flag
    n_odd = len(odd_flags())
    for i in range(n_odd):
        for plain in (0xffff, 0xfffe, 0x1234):
            out.append(("odd first", i, plain,
                        decode_direct(empty, FAT_AREA_ID, 0, odd_flags()[i], plain)))
            out.append(("odd second", plain, i,
                        decode_direct(empty, FAT_AREA_ID, 0, plain, odd_flags()[i])))
        out.append(("odd both", i, decode_direct(empty, FAT_AREA_ID, 0, odd_flags()[i], odd_flags()[i])))
    # bad identifier wins over a bad version; broken chains come after the version
    for fat_id in (0x1234, 0, 0xffff, None):
        for f1, f2 in ((0xffff, 0xffff), (0x1234, 0xffff), (0xfffe, 0x1234)):
            out.append(("bad id", repr(fat_id), f1, f2, decode_direct(empty, fat_id, 1, f1, f2)))
    for kind in ("loop", "free-mid", "reserved-mid", "error", "random"):
        words = make_words(rng, kind)
        for f1, f2 in ((0xffff, 0xffff), (0xfffe, 0xffff), (0xffff, 0xfffe), (0x1234, 0xffff),
                       (0xffff, 0x1234)):
            out.append((kind, f1, f2, decode_direct(words, FAT_AREA_ID, 9, f1, f2)))
    # missing metadata attributes
    for drop in ("version_flag_1", "version_flag_2", "num_unused_clusters", "fat_id"):
        meta = Container(fat_id=FAT_AREA_ID, num_unused_clusters=1, version_flag_1=0x1234,
                         version_flag_2=0x4321)
        del meta[drop]
        container = Container(fat_entries=empty, metadata=meta, fat_data_stream=None)
        out.append(("missing", drop,
                    outcome(lambda: live.FatAreaParser._decode(container, Container(), "p").version)))
    return out


def scenario_streams():
    out = []
    rng = random.Random(2121)
    kinds = ["chains", "chains", "zero", "loop", "free-mid", "reserved-mid", "error"]
    pairs = [(0xffff, 0xffff), (0xfffe, 0xffff), (0xffff, 0xfffe), (0xfffe, 0xfffe),
             (0xfffd, 0xffff), (0xffff, 0x0000), (0x0001, 0xfffe), (0xfffe, 0x0001)]
    for kind in kinds:
        for f1, f2 in pairs:
            words = make_words(rng, kind)
            words[-2], words[-1] = f1, f2
            data = struct.pack("<%dH" % FAT_NUM_ENTRIES, *words) + bytes(rng.randrange(0, 5000))
            start = rng.choice([0, 0, 3, 0x800])
            stream = io.BytesIO(bytes(start) + data)
            stream.seek(start)

            def parse():
                area = live.FatAreaParser.parse_stream(stream)
                files = []
                for index in (2, 3, 17, 150, 299, FAT_NUM_ENTRIES - 12):
                    files.append(outcome(lambda: list(area.fat.get_file(index, 1).sector_list)))
                return (summarize(area, None)[:6], files, area.fat.parent_stream.offset,
                        area.fat.parent_stream.end_of_file)
            out.append((kind, f1, f2, start, outcome(parse), stream.tell()))
    return out


def id_area_bytes():
    buf = bytearray(dt.ID_AREA_SIZE)
    struct.pack_into("<I", buf, 0, 1)
    buf[4:14] = b"S770 MR25A"
    buf[32:63] = b"S-770 Hard Disk Ver. 2.00".ljust(31)
    buf[64:95] = b"Copyright Roland".ljust(31)
    buf[256:272] = b"DEMO DISK".ljust(16)
    return bytes(buf)


def scenario_image():
    out = []
    rng = random.Random(212121)
    for f1, f2 in ((0xffff, 0xffff), (0xfffe, 0xffff), (0xffff, 0xfffe), (0xfffe, 0xfffe),
                   (0xfffc, 0xffff), (0xffff, 0x0002)):
        words = make_words(rng, "chains")
        words[-2], words[-1] = f1, f2
        image = bytearray(dt.DATA_AREA_OFFSET + 4 * dt.ROLAND_CLUSTER_SIZE)
        image[0:dt.ID_AREA_SIZE] = id_area_bytes()
        image[dt.FAT_AREA_OFFSET:dt.FAT_AREA_OFFSET + 2 * FAT_NUM_ENTRIES] = \
            struct.pack("<%dH" % FAT_NUM_ENTRIES, *words)

        def parse():
            parsed = image_mod.RolandSxxImageParser(io.BytesIO(bytes(image)))
            links = [(i, l.next, l.end) for i, l in enumerate(parsed.fat.sector_links)
                     if l != SectorLink()]
            return (parsed.disk_name, parsed.num_volumes, len(parsed.volumes), links)

        def parse_container():
            c = image_mod.RolandS7xxImageStruct.parse(bytes(image))
            return (c.fat_area.version, c["_dir_version"], c.fat_area.num_remaining_clusters)
        out.append((f1, f2, outcome(parse), outcome(parse_container)))
    return out


def run_all():
    return {
        "direct": scenario_direct(),
        "streams": scenario_streams(),
        "image": scenario_image(),
    }


def first_difference(a, b):
    for i, (x, y) in enumerate(zip(a, b)):
        if x != y:
            return i, x, y
    return None


def main():
    live_results = run_all()
    saved = live.FatAreaAdapter._decode
    live.FatAreaAdapter._decode = original_decode
    try:
        original_results = run_all()
    finally:
        live.FatAreaAdapter._decode = saved

    total = 0
    for key in live_results:
        a, b = live_results[key], original_results[key]
        total += len(a)
        check(len(a) == len(b), f"{key}: lengths")
        if a != b:
            check(False, f"{key}: first difference {first_difference(a, b)!r}"[:700])

    # (4) precomputed expectations
    expected = {(0xffff, 0xffff): 1, (0xfffe, 0xffff): 2, (0xffff, 0xfffe): 2, (0xfffe, 0xfffe): 2,
                (0xfffe, 0x1234): 2, (0xffff, 0x1234): "Unknown FAT version 4660.",
                (0x0000, 0xfffe): "Unknown FAT version 0.", (0xfffd, 0xfffe): "Unknown FAT version 65533."}
    seen = {}
    for rec in live_results["direct"]:
        if rec[0] == "int":
            res = rec[3][0]
            seen[(rec[1], rec[2])] = res[1][0] if res[0] == "ok" else res[2]
    for pair, want in expected.items():
        check(seen.get(pair) == want, f"precomputed {pair}: {seen.get(pair)!r} != {want!r}")
    n_ok = sum(1 for r in live_results["direct"] if r[-1][0][0] == "ok")
    n_exc = sum(1 for r in live_results["direct"] if r[-1][0][0] == "exc")
    check(n_ok >= 60 and n_exc >= 100, f"coverage ok={n_ok} exc={n_exc}")
    img_ok = sum(1 for r in live_results["image"] if r[2][0] == "ok" and r[3][0] == "ok")
    check(img_ok == 4, f"whole images parsed: {img_ok}")
    stream_ok = sum(1 for r in live_results["streams"] if r[4][0] == "ok")
    check(stream_ok >= 10, f"stream parses ok: {stream_ok}")

    print(f"{total} scenario records compared (direct ok={n_ok} exc={n_exc}, streams ok={stream_ok}, "
          f"images ok={img_ok}), {len(failures)} mismatches")
    return 1 if failures else 0


if __name__ == "__main__":
    sys.exit(main())
