"""Equivalence demo for r14: smpl_extract/transcoder.py swap_endianess_multi
(one of the per-frame helpers run by PipelineTranscoder.__next__ after a frame
was decoded, i.e. part of what shapes the last - possibly short - frame of a
stream that ended early).

  * swap_endianess_multi: for/if/append/continue loop -> list comprehension
    with a conditional expression.
  (pad_channels, the neighbouring per-frame helper, is unchanged; it is
  compared as well because the end-to-end runs go through both.)

The demo pastes the ORIGINAL functions and compares them with the live ones on
random channel lists (all integer dtypes, lengths 0..., equal and unequal
lengths, empty lists, iterators, odd swap flags, flags with a counting
__bool__), including identity of arrays that must be passed through untouched,
and then end-to-end: make_transcoder over complete / truncated sector streams
run once with the live helpers and once with the original helpers patched into
the module.
Exit 0 when everything agrees, 1 otherwise.
"""
from io import BytesIO
import random
import sys
from typing import List

import numpy as np

from smpl_extract import transcoder as live
from smpl_extract.data_streams import DataStream
from smpl_extract.data_streams import Endianess
from smpl_extract.data_streams import StreamEncoding
from smpl_extract.util.fat import FileStream


# --------------------------------------------------------------------------
# ORIGINAL implementations (verbatim copies)
# --------------------------------------------------------------------------
def pad_channels_orig(channels: List[np.ndarray]) -> List[np.ndarray]:
    target_size = max(map(len, channels))
    result_channels = []
    for channel in channels:
        N = target_size - len(channel)
        if N <= 0:
            result_channels.append(channel)
            continue

        padded_channel = np.pad(
            channel,
            (0, N),
            "linear_ramp",
            end_values=(0, 0)
        )
        result_channels.append(padded_channel)
    return result_channels


def swap_endianess_multi_orig(
        channels: List[np.ndarray],
        swaps: List[bool]
) -> List[np.ndarray]:
    result_channels = []
    for channel, swap in zip(channels, swaps):
        if swap:
            result_channels.append(channel.byteswap())
            continue
        result_channels.append(channel)
    return result_channels


# --------------------------------------------------------------------------
failures = 0
checks = 0


def check(cond, what):
    global failures, checks
    checks += 1
    if not cond:
        failures += 1
        if failures <= 20:
            print("MISMATCH:", what)


def describe(result, inputs):
    """Comparable description of a list of arrays, including which input
    object (if any) each output is identical to."""
    if not isinstance(result, list):
        return ("notlist", type(result).__name__, repr(result))
    out = []
    for arr in result:
        ident = None
        for i, x in enumerate(inputs):
            if arr is x:
                ident = i
                break
        if isinstance(arr, np.ndarray):
            out.append((ident, str(arr.dtype), arr.shape, arr.tobytes()))
        else:
            out.append((ident, type(arr).__name__, repr(arr)))
    return ("list", out)


def outcome(f, inputs):
    try:
        return ("ok", describe(f(), inputs))
    except BaseException as e:  # noqa
        return ("exc", type(e).__name__, str(e))


DTYPES = ["int8", "uint8", "int16", "uint16", "int32", "uint32", "int64",
          ">i2", "<i2", ">i4", "float32"]


def random_channels(rng: random.Random):
    n = rng.randint(0, 5)
    mode = rng.random()
    base_len = rng.randint(0, 12)
    channels = []
    for _ in range(n):
        if mode < 0.4:
            length = base_len
        elif mode < 0.8:
            length = max(0, base_len + rng.randint(-3, 3))
        else:
            length = rng.choice([0, 0, 1, base_len])
        dtype = np.dtype(rng.choice(DTYPES))
        if dtype.kind == "f":
            arr = np.array(
                [rng.uniform(-100, 100) for _ in range(length)], dtype=dtype
            )
        else:
            info = np.iinfo(dtype)
            arr = np.array(
                [rng.randint(int(info.min), int(info.max))
                 for _ in range(length)],
                dtype=dtype
            )
        channels.append(arr)
    return channels


class CountingFlag:
    def __init__(self, value, counter):
        self.value = value
        self.counter = counter

    def __bool__(self):
        self.counter.append(self.value)
        return self.value


def test_pad(rng: random.Random):
    for case in range(3000):
        channels = random_channels(rng)
        ra = outcome(lambda: pad_channels_orig(channels), channels)
        rb = outcome(lambda: live.pad_channels(channels), channels)
        check(ra == rb, f"pad case {case}: {ra} != {rb}")
    # tuples, lists of lists, 2-d arrays, iterators (consumed by max(map()))
    extra = [
        (np.arange(3, dtype="int16"), np.arange(5, dtype="int16")),
        [np.zeros((2, 2), dtype="int8"), np.zeros((4, 2), dtype="int8")],
        [[1, 2, 3], [1]],
        [np.arange(4), "abcd"],
        [np.arange(4), "ab"],
        [],
        None,
        [None],
    ]
    for i, channels in enumerate(extra):
        inputs = list(channels) if channels is not None else []
        ra = outcome(lambda: pad_channels_orig(channels), inputs)
        rb = outcome(lambda: live.pad_channels(channels), inputs)
        check(ra == rb, f"pad extra {i}: {ra} != {rb}")
    for i in range(20):
        channels = random_channels(rng)
        ra = outcome(lambda: pad_channels_orig(iter(channels)), channels)
        rb = outcome(lambda: live.pad_channels(iter(channels)), channels)
        check(ra == rb, f"pad iterator {i}: {ra} != {rb}")


def test_swap(rng: random.Random):
    flag_pool = [True, False, 0, 1, 2, None, "", "x", [], [0], 0.0, np.True_,
                 np.False_]
    for case in range(3000):
        channels = random_channels(rng)
        m = rng.choice([len(channels), len(channels), rng.randint(0, 6)])
        swaps = [rng.choice(flag_pool) for _ in range(m)]
        ra = outcome(lambda: swap_endianess_multi_orig(channels, swaps),
                     channels)
        rb = outcome(lambda: live.swap_endianess_multi(channels, swaps),
                     channels)
        check(ra == rb, f"swap case {case}: {ra} != {rb}")

        # iterators as arguments + flags whose truth test is counted
        ca, cb = [], []
        fa = [CountingFlag(bool(x), ca) for x in swaps]
        fb = [CountingFlag(bool(x), cb) for x in swaps]
        ra = outcome(
            lambda: swap_endianess_multi_orig(iter(channels), iter(fa)),
            channels
        )
        rb = outcome(
            lambda: live.swap_endianess_multi(iter(channels), iter(fb)),
            channels
        )
        check(ra == rb, f"swap iter case {case}: {ra} != {rb}")
        check(ca == cb, f"swap iter case {case}: truth tests {ca} != {cb}")
    extra = [
        ([1, 2], [True, False]),       # int has no byteswap
        ([1, 2], [False, False]),
        (None, [True]),
        ([np.arange(3)], None),
        ([np.array(["a"])], [np.array([True, False])]),  # ambiguous truth
    ]
    for i, (channels, swaps) in enumerate(extra):
        inputs = list(channels) if channels is not None else []
        ra = outcome(lambda: swap_endianess_multi_orig(channels, swaps),
                     inputs)
        rb = outcome(lambda: live.swap_endianess_multi(channels, swaps),
                     inputs)
        check(ra == rb, f"swap extra {i}: {ra} != {rb}")


def drain(transcoder):
    chunks = []
    try:
        for chunk in transcoder:
            chunks.append(bytes(chunk))
            if len(chunks) > 10000:
                chunks.append(b"<<runaway>>")
                break
    except BaseException as e:  # noqa
        chunks.append(("exc", type(e).__name__, str(e)))
    return chunks


def test_end_to_end(rng: random.Random):
    live_pad = live.pad_channels
    live_swap = live.swap_endianess_multi
    for case in range(400):
        sector_size = rng.choice([2, 4, 8, 16, 64, 512])
        num_parent_sectors = rng.randint(1, 24)
        full = bytes(
            rng.getrandbits(8) for _ in range(sector_size * num_parent_sectors)
        )
        data = full[:rng.choice([len(full), rng.randint(0, len(full))])]
        num_streams = rng.choice([1, 2, 2, 3])
        sample_width = rng.choice([1, 2, 4])
        endians = [
            rng.choice([Endianess.LITTLE, Endianess.BIG])
            for _ in range(num_streams)
        ]
        dest_endian = rng.choice([Endianess.LITTLE, Endianess.BIG])
        seed = rng.getrandbits(32)

        def build():
            local = random.Random(seed)
            streams = []
            for k in range(num_streams):
                n = local.randint(0, 10)
                sector_list = [
                    local.randint(0, num_parent_sectors - 1)
                    for _ in range(n)
                ]
                fs = FileStream(BytesIO(data), sector_size, sector_list)
                streams.append(DataStream(fs, StreamEncoding(
                    endianess=endians[k],
                    sample_width=sample_width,
                    num_interleaved_channels=1
                )))
            dest = StreamEncoding(
                endianess=dest_endian,
                sample_width=sample_width,
                num_interleaved_channels=num_streams
            )
            return live.make_transcoder(streams, dest)

        rb = drain(build())
        live.pad_channels = pad_channels_orig
        live.swap_endianess_multi = swap_endianess_multi_orig
        try:
            ra = drain(build())
        finally:
            live.pad_channels = live_pad
            live.swap_endianess_multi = live_swap
        check(ra == rb, f"end-to-end case {case}: output differs")


def main():
    rng = random.Random(0xC15D14)
    test_pad(rng)
    test_swap(rng)
    test_end_to_end(rng)
    print(f"{checks} checks, {failures} mismatches")
    return 0 if failures == 0 else 1


if __name__ == "__main__":
    sys.exit(main())
