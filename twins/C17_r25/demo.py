"""Equivalence demo for r25 (property C17, mechanism "FILE scan"):
smpl_extract/cuesheet.py parse_cue_sheet - the scan loop that skips every
line before / between FILE entries is written with a guard clause
(`if _FILE_LINE_REGEX.match(text) is None: continue`) instead of nesting the
FILE handling under `if match_result:`; the `match_result` temporary is gone
and `while len(lines):` is spelled `while len(lines) > 0:`.

The live module is compared with an inline copy of the ORIGINAL cuesheet.py
(executed into a private module object).  For every input both sides must
give the same result (dataclasses compared through repr), the same exception
(type and args), leave the caller's list in the same state, and - on traced
inputs - perform the same sequence of len() / pop() / strip() / regex match /
push-back operations and the same CueSheetFileAdapter.parse calls.
Exit status 0 when everything agrees, 1 otherwise.
"""
import itertools
import random
import sys
import types

import smpl_extract.cuesheet as live


ORIGINAL_SRC = r'''from dataclasses import dataclass
from dataclasses import field
import re
from typing import List
from typing import Optional
from typing import Protocol
from typing import Tuple
from typing import TypeVar


class BadCueSheet(Exception): pass


def get_nonempty_entry(lines: List[str]) -> Tuple[str, List[str]]:
    text = ""
    while len(lines):
        text = lines.pop(0).strip()
        if len(text):
            break
    return text, lines


T = TypeVar("T", covariant=True)
class CueItemAdapter(Protocol[T]):
    def parse(self, lines: List[str]) -> T: ...


_AUDIO_FRAMES_PER_SECOND = 75
@dataclass
class CueSheetIndex:
    number: int = 0
    n_minutes: int = 0
    n_seconds: int = 0
    n_frames: int = 0

    def get_total_audio_frames(self) -> int:
        total_seconds = 60*self.n_minutes + self.n_seconds
        total_frames = _AUDIO_FRAMES_PER_SECOND*total_seconds + \
            self.n_frames
        return total_frames


@dataclass
class CueSheetTrack:
    number: int = 0
    mode: str = ""
    title: Optional[str] = None
    indices: List[CueSheetIndex] = field(default_factory=list)
    unparsed: List = field(default_factory=list)


_TRACK_LINE_REGEX = re.compile(r"\s*TRACK\s+(\d+)\s+([A-z\d\/]+)", flags=re.I)
_TITLE_LINE_REGEX = re.compile(r"\s*TITLE\s+\"(.*?)\"", flags=re.I)
_INDEX_LINE_REGEX = re.compile(r"\s*INDEX\s+(\d+)\s+(\d+):(\d+):(\d+)", flags=re.I)
class CueSheetTrackAdapter:
    @classmethod
    def parse(cls, lines: List[str]):
        text, lines = get_nonempty_entry(lines)
        if len(text) <= 0:
            raise BadCueSheet
        result = _TRACK_LINE_REGEX.match(text)
        if not result:
            raise BadCueSheet
        track_number = int(result.groups()[0])
        track_mode = result.groups()[1]
        track = CueSheetTrack(
            track_number,
            track_mode
        )

        while len(lines):
            text, lines = get_nonempty_entry(lines)
            if len(text) <= 0:
                break

            # Check if next track began
            result = _TRACK_LINE_REGEX.match(text)
            if result:
                lines = [text] + lines
                break

            # check known properties
            result = _INDEX_LINE_REGEX.match(text)
            if result:
                index_number = int(result.groups()[0])
                n_minutes = int(result.groups()[1])
                n_seconds = int(result.groups()[2])
                n_frames = int(result.groups()[3])
                index = CueSheetIndex(
                    index_number,
                    n_minutes,
                    n_seconds,
                    n_frames
                )
                track.indices.append(index)
                continue

            result = _TITLE_LINE_REGEX.match(text)
            if result:
                title = result.groups()[0]
                track.title = title
                continue

            track.unparsed.append(text)

        return track, lines


@dataclass
class CueSheetFile:
    bin_file_name: str
    tracks: List[CueSheetTrack] = field(default_factory=list)


_FILE_LINE_REGEX = re.compile(r"\s*FILE\s+\"(.*?)\"\s+BINARY", flags=re.I)
class CueSheetFileAdapter:


    @classmethod
    def parse(cls, lines: List[str]):
        text, lines = get_nonempty_entry(lines)
        if len(text) <= 0:
            raise BadCueSheet
        result = _FILE_LINE_REGEX.match(text)
        if not result:
            raise BadCueSheet
        
        bin_file_name = result.groups()[0]
        cue_sheet = CueSheetFile(bin_file_name)
        while len(lines):
            text, lines = get_nonempty_entry(lines)
            if len(text) <= 0:
                break
            lines = [text] + lines
            track, lines = CueSheetTrackAdapter.parse(lines)
            if track:
                cue_sheet.tracks.append(track)

        return cue_sheet, lines


def parse_cue_sheet(lines: List[str]) -> CueSheetFile:
    cue_sheet_files = []
    while len(lines):
        text, lines = get_nonempty_entry(lines)
        match_result = _FILE_LINE_REGEX.match(text)
        if match_result:
            lines = [text] + lines
            cue_sheet_file, lines = CueSheetFileAdapter.parse(lines)
            cue_sheet_files.append(cue_sheet_file)
    
    if len(cue_sheet_files) <= 0:
        raise BadCueSheet("No FILE entry")
    
    result = cue_sheet_files[0]
    return result

'''

orig = types.ModuleType("cuesheet_original")
orig.__dict__["__name__"] = "cuesheet_original"
sys.modules["cuesheet_original"] = orig
exec(compile(ORIGINAL_SRC, "cuesheet_original.py", "exec"), orig.__dict__)

FAILURES = []
N_CASES = [0]


def check(what, a, b):
    N_CASES[0] += 1
    if a != b:
        FAILURES.append(what)
        if len(FAILURES) <= 10:
            print("MISMATCH", what)
            print("   original:", repr(a)[:400])
            print("   live    :", repr(b)[:400])


# ---------------------------------------------------------------- tracing
LOG = []


class TStr(str):
    """str whose strip() is logged (the result is a plain str)"""
    def strip(self, *args):
        LOG.append(("strip", str(self)))
        return str.strip(self, *args)


class TList(list):
    """list whose len() / pop() / push-back concatenation are logged"""
    def __len__(self):
        n = list.__len__(self)
        LOG.append(("len", n))
        return n

    def pop(self, *args):
        LOG.append(("pop",) + args)
        return list.pop(self, *args)

    def __radd__(self, other):
        LOG.append(("pushback", list(other), list.__len__(self)))
        return TList(list(other) + list(self))

    def insert(self, *args):
        LOG.append(("insert",) + args)
        return list.insert(self, *args)

    def __delitem__(self, key):
        LOG.append(("del", repr(key)))
        return list.__delitem__(self, key)

    def __iter__(self):
        LOG.append(("iter",))
        return list.__iter__(self)

    def __getitem__(self, key):
        LOG.append(("getitem", repr(key)))
        return list.__getitem__(self, key)

    def __bool__(self):
        LOG.append(("bool",))
        return list.__len__(self) > 0


class RegexProxy:
    def __init__(self, regex, name):
        self._regex = regex
        self._name = name

    def match(self, text, *args):
        LOG.append(("match", self._name, text))
        return self._regex.match(text, *args)

    def __getattr__(self, attr):
        return getattr(self._regex, attr)


def describe_exception(e):
    return ("EXC", type(e).__name__, type(e).__mro__[1].__name__, repr(e.args))


def norm(value):
    """repr-based normal form (the dataclasses of the two modules are
    different classes with the same repr layout)"""
    return repr(value).replace("cuesheet_original.", "").replace(
        "smpl_extract.cuesheet.", "")


def run(module, fn_path, make_input, traced):
    """call module.<fn_path>(lines); return everything observable"""
    target = module
    for part in fn_path.split("."):
        target = getattr(target, part)
    lines = make_input()
    saved = {}
    del LOG[:]
    if traced:
        for name in ("_FILE_LINE_REGEX", "_TRACK_LINE_REGEX",
                     "_TITLE_LINE_REGEX", "_INDEX_LINE_REGEX"):
            saved[name] = getattr(module, name)
            setattr(module, name, RegexProxy(saved[name], name))
        adapter_parse = module.CueSheetFileAdapter.__dict__["parse"]

        def recording_parse(cls, lns):
            LOG.append(("FileAdapter.parse", list.__len__(lns)
                        if isinstance(lns, list) else None, norm(lns)))
            return adapter_parse.__func__(cls, lns)
        module.CueSheetFileAdapter.parse = classmethod(recording_parse)
    try:
        try:
            result = target(lines)
            same_list = None
            if isinstance(result, tuple) and len(result) == 2:
                same_list = result[1] is lines
            outcome = ("OK", norm(result), same_list)
        except BaseException as e:   # noqa - compared, not swallowed
            outcome = describe_exception(e)
    finally:
        if traced:
            for name, value in saved.items():
                setattr(module, name, value)
            module.CueSheetFileAdapter.parse = adapter_parse
    log = list(LOG)
    del LOG[:]
    if isinstance(lines, list):
        after = list.__repr__(lines)
    elif isinstance(lines, (tuple, str, bytes, bytearray, int, dict,
                            type(None))):
        after = repr(lines)
    else:
        after = (type(lines).__name__, repr(list(lines)))
    return outcome, after, log if traced else None


FUNCTIONS = ("get_nonempty_entry", "parse_cue_sheet",
             "CueSheetFileAdapter.parse", "CueSheetTrackAdapter.parse")


def compare(label, make_input, functions=FUNCTIONS):
    for fn in functions:
        for traced in (False, True):
            a = run(orig, fn, make_input, traced)
            b = run(live, fn, make_input, traced)
            check("%s / %s / traced=%s" % (label, fn, traced), a, b)


def as_plain(lines):
    return lambda: list(lines)


def as_traced(lines):
    return lambda: TList(TStr(x) if type(x) is str else x for x in lines)


# ---------------------------------------------------------------- inputs
def canonical(n_tracks, name="disc.bin"):
    out = ['FILE "%s" BINARY' % name]
    for i in range(1, n_tracks + 1):
        out.append("  TRACK %02d AUDIO" % i)
        out.append('    TITLE "Track %d"' % i)
        if i % 2 == 0:
            out.append("    INDEX 00 %02d:%02d:%02d" % (i, 2 * i, 3 * i))
        out.append("    INDEX 01 %02d:%02d:%02d" % (i, 2 * i + 2, 3 * i + 1))
    return out


UNKNOWN = ["REM GENRE Sampling", 'PERFORMER "Nobody"', "FLAGS DCP",
           "PREGAP 00:02:00", 'TITLE "Disc title"', "CATALOG 0000000000000",
           "", "   ", "\t\n", "FILE nothing", 'FILE "x.bin" WAVE',
           "TRACK 09 MODE1/2352", "INDEX 01 00:00:00", '  file "b.bin"  binary ',
           'xFILE "c.bin" BINARY']


def cosmetic(lines, rnd):
    out = []
    for line in lines:
        k = rnd.randrange(6)
        if k == 0:
            line = line.lower()
        elif k == 1:
            line = line.upper()
        elif k == 2:
            line = "  \t" + line + "   \r\n"
        elif k == 3:
            line = line.swapcase()
        elif k == 4:
            line = line.strip() + "\n"
        out.append(line)
    return out


def main():
    rnd = random.Random(1700025)

    # 1. hand-written edge cases
    edge = [
        [], [""], ["", "", ""], ["  ", "\n", "\t"], ["x"], ["  x  "],
        ["", "x", ""], ["x", "", "y"], ["", "", "x", "y", ""],
        ['FILE "a.bin" BINARY'], ['', 'FILE "a.bin" BINARY', ''],
        ['file "a.bin" binary', ''], ['REM x', 'FILE "a.bin" BINARY'],
        ['REM x', '', 'REM y'], ['FILE "a.bin" WAVE'], ['FILE a.bin BINARY'],
        ['FILE "a.bin" BINARY', 'REM no track here'],
        ['FILE "a.bin" BINARY', 'TRACK 01 AUDIO', 'FILE "b.bin" BINARY',
         'TRACK 02 AUDIO'],
        ['FILE "a.bin" BINARY', 'TRACK xx AUDIO'],
        ['FILE "a.bin" BINARY', '', '', ''],
        ['TRACK 01 AUDIO', 'INDEX 01 00:00:00'],
        ['TRACK 01 AUDIO', '', 'TITLE "t"', 'junk', 'TRACK 02 MODE2/2352'],
        ['FILE "é.bin" BINARY', ' TRACK 1 AUDIO'],
        ['　FILE "w.bin" BINARY　'],
        ['FILE "a.bin" BINARY', 'TRACK 99999999999999999999 AUDIO'],
    ]
    for i, lines in enumerate(edge):
        compare("edge %d plain" % i, as_plain(lines))
        compare("edge %d traced" % i, as_traced(lines))

    # 2. ill-typed inputs: exceptions (type, args) and the state the
    #    caller's list is left in must not change either
    odd = [
        lambda: [b"", b"  "], lambda: [b""], lambda: ["", b""],
        lambda: [b" x "], lambda: [b'FILE "a.bin" BINARY'],
        lambda: ["", None, "x"], lambda: [None], lambda: ["x", None],
        lambda: [1, 2], lambda: ["", 0], lambda: [["nested"]],
        lambda: ("", "x"), lambda: (), lambda: ("x",), lambda: None,
        lambda: "text", lambda: "", lambda: 5, lambda: {}, lambda: {0: "x"},
        lambda: iter(["x"]), lambda: bytearray(b" x"), lambda: bytearray(),
        lambda: [bytearray(b" "), bytearray(b"")],
        lambda: TList([TStr(""), None, TStr("x")]),
        lambda: TList([b"", b" "]),
        lambda: ['REM', 'FILE "a.bin" BINARY', None],
        lambda: ['REM', 'FILE "a.bin" BINARY', 'TRACK 01 AUDIO', None, 'x'],
        lambda: ['REM', None, 'FILE "a.bin" BINARY'],
    ]
    for i, make in enumerate(odd):
        compare("odd %d" % i, make)

    # 3. canonical sheets x cosmetic transformations x an unknown line
    #    inserted at every line position (before the FILE line included)
    for n_tracks in (0, 1, 2, 3):
        base = canonical(n_tracks)
        compare("canonical %d" % n_tracks, as_plain(base))
        compare("canonical %d traced" % n_tracks, as_traced(base))
        for position in range(len(base) + 1):
            for extra in UNKNOWN:
                lines = base[:position] + [extra] + base[position:]
                if rnd.random() < 0.5:
                    lines = cosmetic(lines, rnd)
                maker = as_traced(lines) if rnd.random() < 0.5 \
                    else as_plain(lines)
                compare("insert %r at %d of %d-track sheet"
                        % (extra, position, n_tracks), maker,
                        functions=("parse_cue_sheet", "get_nonempty_entry"))

    # 4. several FILE entries, junk before / between / after them
    for a, b, c in itertools.product((0, 1, 2), repeat=3):
        for junk in (0, 1, 3):
            lines = []
            for k, n in enumerate((a, b, c)):
                lines += [rnd.choice(UNKNOWN) for _ in range(junk)]
                lines += canonical(n, "disc%d.bin" % k)
            lines += [rnd.choice(UNKNOWN) for _ in range(junk)]
            compare("multi %d%d%d junk %d" % (a, b, c, junk),
                    as_traced(cosmetic(lines, rnd)),
                    functions=("parse_cue_sheet", "CueSheetFileAdapter.parse"))

    # 5. random line soups
    pool = UNKNOWN + canonical(2) + ["", " ", "\n"]
    for i in range(300):
        lines = [rnd.choice(pool) for _ in range(rnd.randrange(0, 12))]
        compare("soup %d" % i, as_traced(lines) if i % 2 else as_plain(lines))

    # 6. get_nonempty_entry drained to the end: every intermediate answer
    for i in range(60):
        lines = [rnd.choice(["", " ", "\t", " a ", "b", "\n", "c\n"])
                 for _ in range(rnd.randrange(0, 9))]
        answers = []
        for module in (orig, live):
            work = list(lines)
            seen = []
            for _ in range(len(lines) + 2):
                text, rest = module.get_nonempty_entry(work)
                seen.append((text, type(text).__name__, rest is work,
                             list(work)))
            answers.append(seen)
        check("drain %d" % i, answers[0], answers[1])

    # 7. the line regexes are unchanged
    for name in ("_FILE_LINE_REGEX", "_TRACK_LINE_REGEX", "_TITLE_LINE_REGEX",
                 "_INDEX_LINE_REGEX"):
        a, b = getattr(orig, name), getattr(live, name)
        check("regex " + name, (a.pattern, a.flags), (b.pattern, b.flags))

    print("%d comparisons, %d mismatches" % (N_CASES[0], len(FAILURES)))
    return 1 if FAILURES else 0


if __name__ == "__main__":
    sys.exit(main())
