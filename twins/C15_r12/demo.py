"""Equivalence demo for r12: smpl_extract/formats/wav.py construct
definitions (WavSampleChunkStruct arrays, the chunk-body Switch table of
WavRiffChunkStruct, and through them WavRiffBodyStruct / RiffStruct with
their Int32ul length prefixes).

The demo re-creates the ORIGINAL construct definitions verbatim
(`*_orig` names below) and compares them with the live ones from the package:
  * the structure of the construct trees (types, names, counts, switch keys);
  * bytes built for fmt / smpl / data chunks and whole RIFF files, where the
    data chunk is fed from lists, generators, generators that stop early
    (what a truncated image produces) and real transcoders made by
    make_transcoder over complete and truncated sector streams;
  * the length prefixes found in the built bytes versus the bytes that follow;
  * parsing of the built bytes and of truncated / corrupted variants
    (containers, lazily parsed data, exception type and message);
  * build errors (unknown chunk id, missing fields, wrong counts), sizeof().
Exit 0 when everything agrees, 1 otherwise.
"""
from io import BytesIO
import random
import sys

from construct.core import Array
from construct.core import Byte
from construct.core import Const
from construct.core import Construct
from construct.core import Enum as EnumConstruct 
from construct.core import ExprAdapter
from construct.core import GreedyBytes
from construct.core import GreedyRange
from construct.core import Int16ul
from construct.core import Int32ul
from construct.core import Lazy
from construct.core import Prefixed
from construct.core import Rebuild
from construct.core import Struct
from construct.core import Subconstruct
from construct.core import Switch
from construct.lib.containers import Container
from construct.lib.containers import ListContainer
from construct.expr import len_
from construct.expr import this

from smpl_extract.data_streams import DataStream
from smpl_extract.data_streams import Endianess
from smpl_extract.data_streams import StreamEncoding
from smpl_extract.formats import wav as live
from smpl_extract.formats.wav import SmpteFormat
from smpl_extract.formats.wav import WavFormatChunkContainer
from smpl_extract.formats.wav import WavLoopContainer
from smpl_extract.formats.wav import WavLoopType
from smpl_extract.formats.wav import WavSampleChunkContainer
from smpl_extract.midi import MidiNote
from smpl_extract.transcoder import make_transcoder
from smpl_extract.util import bytes2int
from smpl_extract.util.fat import FileStream


# --------------------------------------------------------------------------
# ORIGINAL definitions (verbatim copy, names suffixed with _orig)
# --------------------------------------------------------------------------
WavLoopStruct_orig = Struct(
    "cue_id"        / Int32ul,
    "loop_type"     / EnumConstruct(
                        Int32ul,
                        WavLoopType
                    ),
    "start_byte"    / Int32ul,
    "end_byte"      / Int32ul,
    "fraction"      / Int32ul,
    "play_cnt"      / Int32ul
)


WavSampleChunkStruct_orig = Struct(
    "manufacturer"      / Int32ul,
    "product"           / Int32ul,
    "sample_period"     / Int32ul,
    "midi_note"         / ExprAdapter(
                            Int32ul,
                            lambda x,y: MidiNote.from_midi_byte(x),
                            lambda x,y: x.to_midi_byte()  # type: ignore
                        ),
    "pitch_fraction"    / Int32ul,
    "smpte_format"      / EnumConstruct(
                            Int32ul,
                            SmpteFormat
                        ),
    "smpte_offset"      / Int32ul,
    "sample_loop_cnt"   / Rebuild(
        Int32ul,
        len_(this.sample_loops)
    ),
    "sampler_data_size" / Rebuild(
        Int32ul,
        len_(this.sampler_data)
    ),
    "sample_loops"      / WavLoopStruct_orig[this.sample_loop_cnt],
    "sampler_data"      / Byte[this.sampler_data_size],
)


WavFormatChunkStruct_orig = Struct(
    "audio_format"      / Int16ul,
    "channel_cnt"       / Int16ul,
    "sample_rate"       / Int32ul,
    "byte_rate"         / Rebuild(
        Int32ul,
        this.sample_rate * this.channel_cnt * this.bits_per_sample//8
    ),
    "block_align"       / Rebuild(
        Int16ul,
        this.channel_cnt * this.bits_per_sample//8
    ),
    "bits_per_sample"   / Int16ul
)


WavDataChunkStruct_orig = Lazy(GreedyRange(GreedyBytes))


WavRiffChunkType_orig = EnumConstruct(
    Int32ul,
    FMT=bytes2int(b"fmt "),
    SMPL=bytes2int(b"smpl"),
    DATA=bytes2int(b"data"),
)
WavRiffChunkStruct_orig = Struct(
    "riff_id"   / WavRiffChunkType_orig,
    "data"      / Prefixed(Int32ul, 
        Switch(this.riff_id, {
            WavRiffChunkType_orig.FMT:  WavFormatChunkStruct_orig,
            WavRiffChunkType_orig.SMPL: WavSampleChunkStruct_orig,
            WavRiffChunkType_orig.DATA: WavDataChunkStruct_orig
        })
    )
)


WavRiffBodyStruct_orig = Struct(
    "fourcc"    / Const(b"WAVE"),
    "chunks"    / GreedyRange(WavRiffChunkStruct_orig)
)


RiffStruct_orig = Struct( 
    "fourcc"    / Const(b"RIFF"),
    "data"      / Prefixed(Int32ul, WavRiffBodyStruct_orig),
)


# --------------------------------------------------------------------------
failures = 0
checked = 0


def check(label, new, old):
    global failures, checked
    checked += 1
    if new != old:
        failures += 1
        if failures <= 15:
            print("MISMATCH", label)
            print("  new:", str(new)[:400])
            print("  old:", str(old)[:400])


def shape(con, depth=0):
    """Structural description of a construct tree."""
    if not isinstance(con, Construct) or depth > 12:
        return repr(con)
    out = [type(con).__name__, con.name]
    if isinstance(con, Struct):
        out.append([shape(sc, depth + 1) for sc in con.subcons])
    elif isinstance(con, Switch):
        out.append(repr(con.keyfunc))
        out.append([(str(k), int(k) if hasattr(k, "intvalue") else k,
                     shape(v, depth + 1)) for k, v in con.cases.items()])
        out.append(shape(con.default, depth + 1))
    elif isinstance(con, Array):
        out.append(repr(con.count))
        out.append(con.discard)
        out.append(shape(con.subcon, depth + 1))
    elif isinstance(con, Prefixed):
        out.append(shape(con.lengthfield, depth + 1))
        out.append(con.includelength)
        out.append(shape(con.subcon, depth + 1))
    elif isinstance(con, EnumConstruct):
        out.append(sorted(con.encmapping.items()))
        out.append(shape(con.subcon, depth + 1))
    elif isinstance(con, Const):
        out.append(con.value)
        out.append(shape(con.subcon, depth + 1))
    elif isinstance(con, Rebuild):
        out.append(repr(con.func))
        out.append(shape(con.subcon, depth + 1))
    elif isinstance(con, Subconstruct):
        out.append(shape(con.subcon, depth + 1))
    else:
        try:
            out.append(con.sizeof())
        except Exception as e:  # noqa
            out.append(type(e).__name__)
    return out


def plain(obj):
    """Parsed result -> comparable plain data (forces lazy values)."""
    if callable(obj) and not isinstance(obj, (Container, ListContainer)):
        try:
            return ("lazy", plain(obj()))
        except BaseException as e:  # noqa
            return ("lazy-exc", type(e).__name__, str(e))
    if isinstance(obj, dict):
        return {k: plain(v) for k, v in obj.items() if k != "_io"}
    if isinstance(obj, (list, tuple)):
        return [plain(x) for x in obj]
    if isinstance(obj, MidiNote):
        return ("MidiNote", obj.to_midi_byte())
    if hasattr(obj, "intvalue"):
        return ("enum", str(obj), int(obj))
    return obj


def attempt(f):
    try:
        return ("ok", f())
    except BaseException as e:  # noqa
        return ("exc", type(e).__name__, str(e))


def chunk(ids, name, data):
    return Container(riff_id=getattr(ids, name), data=data)


def riff(chunks):
    return Container(data=Container(chunks=chunks))


rnd = random.Random(1212)
IMAGE = bytes(rnd.randrange(256) for _ in range(60000))


def loops(n):
    return [
        WavLoopContainer(
            cue_id=i,
            loop_type=rnd.choice(list(WavLoopType)),
            start_byte=rnd.randrange(1 << 32),
            end_byte=rnd.randrange(1 << 32),
            fraction=rnd.randrange(1 << 16),
            play_cnt=rnd.randrange(1 << 20),
        ) for i in range(n)
    ]


def smpl(n_loops, sampler_data):
    return WavSampleChunkContainer(
        manufacturer=rnd.randrange(1 << 32),
        product=rnd.randrange(1 << 16),
        sample_period=rnd.randrange(1 << 24),
        midi_note=MidiNote.from_midi_byte(rnd.randrange(20, 110)),
        pitch_fraction=rnd.randrange(1 << 32),
        smpte_format=rnd.choice(list(SmpteFormat)),
        smpte_offset=rnd.randrange(1 << 32),
        sample_loops=loops(n_loops),
        sampler_data=sampler_data,
    )


def fmt(channels, rate, bits):
    return WavFormatChunkContainer(
        audio_format=1, channel_cnt=channels, sample_rate=rate,
        bits_per_sample=bits)


def gen_chunks(pieces, fail_after=None):
    """Data source shaped like a transcoder: an iterator of byte blocks that
    may end early (the short read of a truncated image ends the stream)."""
    for i, piece in enumerate(pieces):
        if fail_after is not None and i >= fail_after:
            return
        yield piece


def transcoder_source(cut, payload_len, sample_width, big):
    sector_size = 512
    chain = list(range(5, 5 + -(-payload_len // sector_size)))
    stream = FileStream(BytesIO(IMAGE[:cut]), sector_size, chain)
    src = StreamEncoding(
        endianess=Endianess.BIG if big else Endianess.LITTLE,
        sample_width=sample_width, num_interleaved_channels=1)
    dest = StreamEncoding(
        endianess=Endianess.LITTLE, sample_width=sample_width,
        num_interleaved_channels=1)
    return make_transcoder([DataStream(stream, src)], dest)


def verify_prefixes(raw):
    """RIFF length == bytes after it; each chunk length == its body."""
    if raw[:4] != b"RIFF":
        return "no RIFF"
    total = int.from_bytes(raw[4:8], "little")
    if total != len(raw) - 8 or raw[8:12] != b"WAVE":
        return "bad RIFF length"
    pos = 12
    ids = []
    while pos < len(raw):
        ids.append(raw[pos:pos + 4])
        size = int.from_bytes(raw[pos + 4:pos + 8], "little")
        pos += 8 + size
    return ("ok", ids, pos == len(raw))


def main():
    # ---- 1. structure of the construct trees -------------------------------
    for name in ("WavLoopStruct", "WavSampleChunkStruct",
                 "WavFormatChunkStruct", "WavDataChunkStruct",
                 "WavRiffChunkType", "WavRiffChunkStruct",
                 "WavRiffBodyStruct", "RiffStruct"):
        check("shape " + name, shape(getattr(live, name)),
              shape(globals()[name + "_orig"]))

    NEW = (live.RiffStruct, live.WavRiffChunkStruct,
           live.WavSampleChunkStruct, live.WavRiffChunkType)
    OLD = (RiffStruct_orig, WavRiffChunkStruct_orig,
           WavSampleChunkStruct_orig, WavRiffChunkType_orig)

    # ---- 2. smpl chunk on its own -------------------------------------------
    samples = []
    for n_loops in (0, 1, 2, 5):
        for sampler_data in (b"", b"\x01", bytes(range(17)), [1, 2, 3]):
            samples.append(smpl(n_loops, sampler_data))
    for i, obj in enumerate(samples):
        new = attempt(lambda: NEW[2].build(obj))
        old = attempt(lambda: OLD[2].build(obj))
        check(f"smpl build {i}", new, old)
        if new[0] == "ok":
            raw = new[1]
            for cut in sorted({len(raw), len(raw) - 1, 36, 35, 40, 59, 60,
                               0}):
                check(f"smpl parse {i} cut {cut}",
                      attempt(lambda: plain(NEW[2].parse(raw[:cut]))),
                      attempt(lambda: plain(OLD[2].parse(raw[:cut]))))
    # wrong / missing fields
    for label, obj in (
        ("no loops key", dict(manufacturer=0)),
        ("loops None", WavSampleChunkContainer(sample_loops=None)),
        ("bad loop", WavSampleChunkContainer(sample_loops=[dict(cue_id=1)])),
        ("data str", WavSampleChunkContainer(sampler_data="ab")),
        ("data big", WavSampleChunkContainer(sampler_data=[300])),
    ):
        check("smpl bad " + label,
              attempt(lambda: NEW[2].build(obj)),
              attempt(lambda: OLD[2].build(obj)))
    check("smpl sizeof", attempt(NEW[2].sizeof), attempt(OLD[2].sizeof))
    check("chunk sizeof", attempt(NEW[1].sizeof), attempt(OLD[1].sizeof))
    check("riff sizeof", attempt(NEW[0].sizeof), attempt(OLD[0].sizeof))

    # ---- 3. single RIFF chunks ------------------------------------------------
    def both_chunk(label, name, make_data):
        new = attempt(lambda: NEW[1].build(chunk(NEW[3], name, make_data())))
        old = attempt(lambda: OLD[1].build(chunk(OLD[3], name, make_data())))
        check("chunk " + label, new, old)
        return new

    both_chunk("fmt", "FMT", lambda: fmt(2, 44100, 16))
    both_chunk("fmt odd", "FMT", lambda: fmt(1, 22050, 8))
    for i, obj in enumerate(samples[:6]):
        both_chunk(f"smpl {i}", "SMPL", lambda: obj)
    both_chunk("data list", "DATA", lambda: [b"\x01\x02", b"", b"\x03"])
    both_chunk("data empty", "DATA", lambda: [])
    both_chunk("data gen", "DATA",
               lambda: gen_chunks([b"ab", b"cd", b"ef"]))
    both_chunk("data gen stops", "DATA",
               lambda: gen_chunks([b"ab", b"cd", b"ef"], fail_after=1))
    both_chunk("data wrong type", "DATA", lambda: [1, 2])
    both_chunk("fmt given data", "FMT", lambda: [b"ab"])
    both_chunk("data given fmt", "DATA", lambda: fmt(1, 1, 8))
    # unknown chunk ids: by int, by unknown name, by raw string
    for rid in (0x12345678, "LIST", 0, bytes2int(b"data"), "DATA", "FMT"):
        check(f"chunk unknown id {rid!r}",
              attempt(lambda: NEW[1].build(dict(riff_id=rid, data=[b"x"]))),
              attempt(lambda: OLD[1].build(dict(riff_id=rid, data=[b"x"]))))
    check("chunk no data key",
          attempt(lambda: NEW[1].build(dict(riff_id="FMT"))),
          attempt(lambda: OLD[1].build(dict(riff_id="FMT"))))

    # ---- 4. whole files, data from lists / generators / transcoders ---------
    sources = []
    for n_pieces in (0, 1, 3, 10):
        pieces = [IMAGE[100 * k:100 * k + rnd.randrange(0, 90)]
                  for k in range(n_pieces)]
        sources.append(("list", lambda p=pieces: list(p)))
        sources.append(("gen", lambda p=pieces: gen_chunks(p)))
        for stop in (0, 1, 2):
            sources.append((f"gen stop {stop}",
                            lambda p=pieces, s=stop: gen_chunks(p, s)))
    for width in (1, 2):
        for big in (False, True):
            for cut in (60000, 9000, 5 * 512 + 700, 5 * 512, 5 * 512 - 1,
                        3000, 100, 0):
                sources.append((
                    f"transcoder w={width} big={big} cut={cut}",
                    lambda c=cut, w=width, b=big: transcoder_source(
                        c, 9000, w, b)))

    built = []
    for label, make_source in sources:
        for with_smpl in (False, True):
            smpl_obj = smpl(rnd.randrange(0, 4), bytes(rnd.randrange(0, 5)))

            def make(ids):
                chunks = [chunk(ids, "FMT", fmt(1, 44100, 16))]
                if with_smpl:
                    chunks.append(chunk(ids, "SMPL", smpl_obj))
                chunks.append(chunk(ids, "DATA", make_source()))
                return riff(chunks)

            new = attempt(lambda: NEW[0].build(make(NEW[3])))
            old = attempt(lambda: OLD[0].build(make(OLD[3])))
            check(f"riff build {label} smpl={with_smpl}", new, old)
            # build_stream into a file-like object, as export_wav does
            out_new, out_old = BytesIO(), BytesIO()
            check(f"riff build_stream {label} smpl={with_smpl}",
                  attempt(lambda: NEW[0].build_stream(make(NEW[3]), out_new)),
                  attempt(lambda: OLD[0].build_stream(make(OLD[3]), out_old)))
            check(f"riff stream bytes {label} smpl={with_smpl}",
                  out_new.getvalue(), out_old.getvalue())
            if new[0] == "ok":
                check(f"riff stream==build {label}", out_new.getvalue(),
                      new[1])
                check(f"riff prefixes {label} smpl={with_smpl}",
                      verify_prefixes(new[1])[0], "ok")
                built.append(new[1])

    # data chunk not last / two data chunks / no chunks
    for label, names in (("data first", ["DATA", "FMT"]),
                         ("two data", ["FMT", "DATA", "DATA"]),
                         ("none", [])):
        def make(ids):
            return riff([
                chunk(ids, n, fmt(2, 8000, 8) if n == "FMT" else
                      gen_chunks([b"12", b"345"])) for n in names])
        check("riff order " + label,
              attempt(lambda: NEW[0].build(make(NEW[3]))),
              attempt(lambda: OLD[0].build(make(OLD[3]))))

    # ---- 5. parsing built files, truncated and corrupted ---------------------
    for i, raw in enumerate(built[::3]):
        cuts = {len(raw), len(raw) - 1, 0, 3, 4, 7, 8, 11, 12, 16, 19, 20,
                35, 36, 37, 44, 45, len(raw) // 2}
        for cut in sorted(c for c in cuts if 0 <= c <= len(raw)):
            check(f"riff parse {i} cut {cut}",
                  attempt(lambda: plain(NEW[0].parse(raw[:cut]))),
                  attempt(lambda: plain(OLD[0].parse(raw[:cut]))))
        for _ in range(6):
            pos = rnd.randrange(len(raw))
            bad = raw[:pos] + bytes([raw[pos] ^ 0x5A]) + raw[pos + 1:]
            check(f"riff parse {i} corrupt at {pos}",
                  attempt(lambda: plain(NEW[0].parse(bad))),
                  attempt(lambda: plain(OLD[0].parse(bad))))

    print(f"{checked} comparisons, {failures} mismatches")
    return 1 if failures else 0


if __name__ == "__main__":
    sys.exit(main())
