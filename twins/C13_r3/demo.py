"""Equivalence demo for r3: FileEntriesAdapter._parse (smpl_extract/akai/file_entry.py).

Parses many synthetic AKAI volume directory tables (valid, corrupted, noise,
truncated, without end marker, ...) with the live FileEntriesAdapter and with a
subclass carrying an inline copy of the ORIGINAL _parse, for both ways the
adapter is used (sat given as a context lambda, sat given as an object).
Compared: the returned FileEntry list (names, types), what each lazy `.file`
realisation yields or raises, the exact sequence of tell/seek/read calls on the
directory stream and on the partition stream, the sequence of
sat.get_segment() calls, and any exception (type + message).
Exit 0 when everything agrees, 1 otherwise.
"""
import io
import random
import sys
from typing import Iterable, List, Union

from construct.core import ConstructError, Int16ul, Lazy, StreamError, Struct
from construct.expr import this
from io import SEEK_CUR, SEEK_END, SEEK_SET

from smpl_extract.akai.data_types import (
    AKAI_SECTOR_SIZE, FILE_TABLE_END_FLAG, FileType,
)
from smpl_extract.akai.file import FileAdapter, FileConstruct
from smpl_extract.akai.file_entry import (
    FileEntriesAdapter, FileEntry, FileEntryConstruct, FileEntryContainer,
)
from smpl_extract.akai.sat import (
    SegmentAllocationTable, SegmentAllocationTableAdapter,
)
from smpl_extract.util.constructs import pull_child_info
from smpl_extract.util.fat import RequestedInvalidSector


class OriginalFileEntriesAdapter(FileEntriesAdapter):
    """Live class with the ORIGINAL _parse pasted in verbatim."""

    def _parse(self, stream, context, path)->Iterable[FileEntry]:


        def is_table_end(stream_inner):
            original_address = stream_inner.tell()

            stream_inner.seek(8, SEEK_CUR)
            try:
                end_flag = Int16ul.parse_stream(stream_inner)
            except (StreamError):
                return True

            stream_inner.seek(original_address, SEEK_SET)

            result = (end_flag == FILE_TABLE_END_FLAG)
            return result


        child_info = pull_child_info(context)
        parent = child_info.parent
        sat = self.sat(context) if callable(self.sat) else self.sat

        # read file entries containers
        stream.seek(0, SEEK_END)
        file_table_size = stream.tell()
        stream.seek(0, SEEK_SET)

        table_entry_size = self.subcon.sizeof()
        max_table_entry_cnt = file_table_size // table_entry_size

        file_entries: List[FileEntry] = []
        for _i in range(max_table_entry_cnt):
            if is_table_end(stream):
                break
            file_entry_container: Union[FileEntryContainer, None] = None
            entry_address = stream.tell()
            try:
                file_entry_container = self.subcon.parse_stream(stream, _=context, sat=sat)
            except (ConstructError, RequestedInvalidSector):
                # skip the bad entry, stay aligned with the table
                stream.seek(entry_address + table_entry_size, SEEK_SET)

            if file_entry_container is not None and file_entry_container.start > 0:
                name = file_entry_container.name
                file_content = Lazy(FileAdapter(
                        this._.sat,
                        FileConstruct
                    )).parse_stream(
                        file_entry_container.file_stream,  # type: ignore
                        _=context,
                        file_type=file_entry_container.file_type,
                        _elem_name=name,
                        _elem_parent=parent,
                        _elem_routines=child_info.routines
                    )

                if file_content is None:
                    raise ConstructError

                file_entry = FileEntry(
                    file_entry_container.name,
                    file_entry_container.file_type,
                    file_content
                )

                file_entries.append(file_entry)

        result = file_entries
        return result


class RecordingStream(io.BytesIO):
    def __init__(self, data, log, tag):
        super().__init__(data)
        self.log = log
        self.tag = tag

    def read(self, *a):
        r = super().read(*a)
        self.log.append((self.tag, "read", a, len(r)))
        return r

    def seek(self, *a):
        r = super().seek(*a)
        self.log.append((self.tag, "seek", a, r))
        return r

    def tell(self):
        r = super().tell()
        self.log.append((self.tag, "tell", r))
        return r


class LoggingSat(SegmentAllocationTable):
    def __init__(self, parent_stream, size, links, log):
        super().__init__(parent_stream, size, links)
        self.log = log

    def get_segment(self, index):
        self.log.append(("sat", "get_segment", index))
        return super().get_segment(index)


class FakeParent:
    path = ["A", "VOL"]
    name = "VOL"


SAT_SIZE = 64
VALID_TYPES = [int(t) for t in FileType]


def build_sat(words, log):
    part = RecordingStream(bytes(range(256)) * (SAT_SIZE * AKAI_SECTOR_SIZE // 256), log, "part")
    base = SegmentAllocationTableAdapter(part, Int16ul[SAT_SIZE])._decode(list(words), {}, "")
    return LoggingSat(part, base.size, base.sector_links, log)


def entry(name=(0x0B,) * 12, ftype=0x73, size=100, start=5, pad1=b"\0" * 4, pad2=b"\0\0"):
    return (bytes(name) + pad1 + bytes([ftype]) + size.to_bytes(3, "little")
            + start.to_bytes(2, "little") + pad2)


END = bytes([0x0A] * 8) + FILE_TABLE_END_FLAG.to_bytes(2, "little") + bytes(14)
assert len(END) == 24 and len(entry()) == 24


def default_sat_words():
    w = [0] * SAT_SIZE
    w[0:4] = [0x4000] * 4          # directory sectors
    w[5] = 6; w[6] = 7; w[7] = 0xC000      # a 3 sector file at 5
    w[8] = 0xC000                          # 1 sector file at 8
    w[10] = 11; w[11] = 12; w[12] = 0xC000
    w[20] = 21; w[21] = 20                 # two-cycle
    w[22] = 22                             # self loop
    w[30] = 63; w[63] = 0xC000
    w[31] = 64                             # link out of range
    return w


def realise(fe):
    try:
        f = fe.file
    except Exception as e:  # noqa: BLE001
        return ("exc", type(e).__name__, str(e))
    return ("ok", type(f).__name__, getattr(f, "name", None),
            tuple(getattr(f, "path", ()) or ()))


def observe(adapter_cls, table, sat_words, sat_as_lambda, routines):
    log = []
    sat = build_sat(sat_words, log)
    stream = RecordingStream(table, log, "dir")
    parent = FakeParent()
    if sat_as_lambda:
        adapter = adapter_cls(this._.sat, FileEntryConstruct)
    else:
        adapter = adapter_cls(sat, FileEntryConstruct)
    body = Struct("file_entries" / adapter)
    try:
        parsed = body.parse_stream(
            stream, _={"outer": 1}, sat=sat,
            _elem_parent=parent, _elem_routines=routines)
        entries = parsed.file_entries
        out = ("ok", tuple((e.name, int(e.file_type), type(e.file_type).__name__)
                           for e in entries))
        out += (tuple(realise(e) for e in entries),)
        out += (tuple(realise(e) for e in entries),)   # second realisation
    except Exception as e:  # noqa: BLE001
        out = ("exc", type(e).__name__, str(e))
    return out, tuple(log)


def cases():
    rng = random.Random(313)
    good = default_sat_words()
    yield "empty", b"", good
    yield "only-end", END, good
    yield "short-5", b"\x0b" * 5, good
    yield "short-9", b"\x0b" * 9, good
    yield "short-10", b"\x0b" * 10, good
    yield "short-23", entry()[:23], good
    yield "one-no-end", entry(), good
    yield "one-plus-partial", entry() + entry()[:9], good
    yield "one-plus-partial-11", entry() + entry()[:11], good
    yield "one-plus-partial-23", entry() + entry()[:23], good
    yield "one-end", entry() + END, good
    yield "end-then-entries", END + entry() * 3, good
    yield "three-end-garbage", entry(start=5) + entry(start=8) + entry(start=10) + END + b"\xff" * 50, good
    yield "start-zero-skipped", entry(start=0) + entry(start=8) + entry(start=0) + END, good
    yield "all-start-zero", entry(start=0) * 10, good
    yield "start-in-free-sector", entry(start=40) + entry(start=8) + END, good
    yield "start-in-directory-sector", entry(start=1) + entry(start=3) + END, good
    yield "start-out-of-range", entry(start=64) + entry(start=8) + entry(start=0xFFFF) + END, good
    yield "start-links-out-of-range", entry(start=31) + entry(start=8) + END, good
    yield "start-in-two-cycle", entry(start=8) + entry(start=20) + entry(start=5) + END, good
    yield "start-in-self-loop", entry(start=22) + entry(start=5) + END, good
    yield "start-last-sector", entry(start=63) + entry(start=30) + END, good
    yield "bad-type", entry(ftype=0x00) + entry(start=8) + entry(ftype=0xFF) + END, good
    for t in VALID_TYPES:
        yield f"type-{t:#x}", entry(ftype=t, start=5) + entry(ftype=t, start=8, size=0) + END, good
    yield "bad-name-char", entry(name=(0xFF,) * 12) + entry(start=8) + END, good
    yield "bad-name-last-char", entry(name=(0x0B,) * 11 + (0x29,)) + entry(start=8) + END, good
    yield "end-flag-bytes-elsewhere", entry(name=(0x47, 0xD7) + (0x0B,) * 10) + entry(start=8) + END, good
    yield "sizes", b"".join(entry(size=s, start=5) for s in
                            (0, 1, 149, 150, 151, 8192, 3 * 8192, 3 * 8192 + 1, 0xFFFFFF)) + END, good
    yield "nonzero-padding", entry(pad1=b"\xff" * 4, pad2=b"\xff\xff", start=8) * 2 + END, good
    yield "full-table-no-end", entry(start=8) * 341, good
    yield "full-table-341-plus-8", entry(start=8) * 341 + b"\x0b" * 8, good
    yield "many-then-end", entry(start=5) * 100 + END + entry(start=8) * 5, good
    for w in (0x0000, 0x4000, 0x8000, 0xC000, 0xFFFF, 1, 5, SAT_SIZE - 1, SAT_SIZE):
        tbl = b"".join(entry(start=s) for s in (0, 1, 2, 5, 8, 62, 63, 64)) + END
        yield f"sat-all-{w:#x}", tbl, [w] * SAT_SIZE
    # targeted: every SAT word of the good table set to each special value / link
    tbl = entry(start=5) + entry(start=8) + entry(start=10) + entry(start=30) + END
    for idx in (5, 6, 7, 8, 10, 12, 30, 63):
        for val in (0x0000, 0x4000, 0x8000, 0xC000, 0xFFFF, 5, 6, 8, idx, 63, 64):
            w = list(good); w[idx] = val
            yield f"sat[{idx}]={val:#x}", tbl, w
    # noise tables
    for k in range(60):
        n = rng.choice([24, 48, 100, 240, 1000, 8192])
        yield f"noise-{k}", bytes(rng.randrange(256) for _ in range(n)), good
    # noise restricted to valid characters / types so more entries parse
    for k in range(60):
        n = rng.randint(1, 30)
        tbl = b""
        for _ in range(n):
            tbl += entry(
                name=tuple(rng.randrange(0x29) for _ in range(12)),
                ftype=rng.choice(VALID_TYPES + [0, 0x74]),
                size=rng.choice([0, 1, 150, 5000, 0xFFFFFF, rng.randrange(1 << 24)]),
                start=rng.choice([0, 1, 5, 8, 10, 20, 22, 30, 31, 40, 63, 64,
                                  rng.randrange(1 << 16)]))
        if rng.random() < 0.7:
            tbl += END
        if rng.random() < 0.3:
            tbl = tbl[:rng.randrange(len(tbl) + 1)]
        words = list(good)
        for _ in range(rng.randint(0, 4)):
            words[rng.randrange(SAT_SIZE)] = rng.choice(
                [0, 0x4000, 0x8000, 0xC000, rng.randrange(SAT_SIZE), rng.randrange(1 << 16)])
        yield f"semi-valid-{k}", tbl, words


def main():
    bad = 0
    n = 0
    hist = {}
    for name, table, words in cases():
        for as_lambda in (True, False):
            for routines in ({}, {"r": (lambda xs: xs)}):
                n += 1
                a = observe(OriginalFileEntriesAdapter, table, words, as_lambda, routines)
                b = observe(FileEntriesAdapter, table, words, as_lambda, routines)
                key = f"{len(a[0][1])} entries" if a[0][0] == "ok" else a[0][1]
                if as_lambda and not routines:
                    hist[key] = hist.get(key, 0) + 1
                if a != b:
                    bad += 1
                    print(f"MISMATCH {name} lambda={as_lambda}: original={a[0]} "
                          f"live={b[0]} log-equal={a[1] == b[1]}")
    print(f"{n} runs, {bad} mismatches")
    for k, v in sorted(hist.items()):
        print(f"  {v:4d}  {k}")
    return 1 if bad else 0


if __name__ == "__main__":
    sys.exit(main())
