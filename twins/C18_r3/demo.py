"""Equivalence demo for r3: parse_akai_tune_cents / build_akai_tune_cents
rewritten from early-return to a single-exit if/else.

Compares the live functions against inline copies of the ORIGINAL ones over
every signed and unsigned byte value, a dense grid of cent values, special
floats and wrong types (exception type and message included), and checks the
byte -> cents -> byte round trip directly and through the construct adapter.
Exit 0 = everything agrees, 1 = a difference was found.
"""
import sys
from fractions import Fraction

from construct.core import Int8sl

from smpl_extract.akai import data_types as live


# ---------------------------------------------------------------- original
def orig_parse_akai_tune_cents(obj)->float:
    # line equation: y = m(x-x1) + y1
    M = 100/255
    X1 = -128
    Y1 = -50

    x: int = obj
    if x == 0:
        return 0
    result = M*(x - X1) + Y1
    return result


def orig_build_akai_tune_cents(obj)->int:
    # line equation: y = m(x-x1) + y1
    M = 255/100
    X1 = -50
    Y1 = -128

    x: float = obj
    if x == 0:
        return 0
    result = round(M*(x - X1)) + Y1
    return result


# ----------------------------------------------------------------- harness
def outcome(fn, *args):
    try:
        value = fn(*args)
    except BaseException as exc:  # noqa: BLE001 - failures are compared too
        return ("raise", type(exc), repr(exc.args))
    # repr keeps -0.0 / 0 / 0.0 / nan apart and compares floats bit-exactly
    return ("return", type(value), repr(value))


failures = 0
checked = 0


def compare(label, new_fn, old_fn, *args):
    global failures, checked
    checked += 1
    got = outcome(new_fn, *args)
    want = outcome(old_fn, *args)
    if got != want:
        failures += 1
        if failures <= 20:
            print(f"MISMATCH {label}{args!r}: live={got!r} original={want!r}")


class Weird:
    """Equality that is true, but not a number: only the zero branch works."""
    def __eq__(self, other):
        return True
    __hash__ = None


odd_values = [True, False, 0.0, -0.0, 1e-320, -1e-320, 1e308, -1e308,
              float("inf"), float("-inf"), float("nan"),
              Fraction(0), Fraction(1, 3), 0j, 1j, 2 ** 80, -2 ** 80,
              None, "0", "12", b"\x00", (0,), [0], [], {}, Weird(), object]

# --- parse: every byte value in both signed and unsigned reading, and beyond
for raw in list(range(-1000, 1001)) + odd_values:
    compare("parse_akai_tune_cents", live.parse_akai_tune_cents,
            orig_parse_akai_tune_cents, raw)

# --- build: every value parse can produce, a dense grid, and odd values
cents_inputs = [orig_parse_akai_tune_cents(raw) for raw in range(-128, 128)]
cents_inputs += [step / 100 for step in range(-12000, 12001)]
cents_inputs += [half / 255 * 100 - 50 for half in range(0, 256)]
cents_inputs += list(range(-200, 201))
cents_inputs += odd_values
for cents in cents_inputs:
    compare("build_akai_tune_cents", live.build_akai_tune_cents,
            orig_build_akai_tune_cents, cents)

# --- the promised round trip: byte -> cents -> byte for the whole byte domain
for raw in range(-128, 128):
    checked += 1
    cents = live.parse_akai_tune_cents(raw)
    back = live.build_akai_tune_cents(cents)
    want = orig_build_akai_tune_cents(orig_parse_akai_tune_cents(raw))
    if back != want or type(back) is not type(want):
        failures += 1
        print("round trip differs from original for", raw, back, want)

# --- through the construct adapter, as the structs use it
adapter = live.AkaiTuneCents(Int8sl)
for raw in range(-128, 128):
    data = Int8sl.build(raw)
    checked += 2
    parsed = adapter.parse(data)
    want = orig_parse_akai_tune_cents(raw)
    if (type(parsed), repr(parsed)) != (type(want), repr(want)):
        failures += 1
        print("adapter parse differs for", raw, parsed, want)
    rebuilt = outcome(adapter.build, parsed)
    want_bytes = outcome(lambda c: Int8sl.build(orig_build_akai_tune_cents(c)), want)
    if rebuilt != want_bytes:
        failures += 1
        print("adapter build differs for", raw, rebuilt, want_bytes)

print(f"{checked} comparisons, {failures} mismatches")
sys.exit(1 if failures else 0)
