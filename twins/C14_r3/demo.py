"""Equivalence demo for r3 (SafeListConstruct._parse, util/constructs.py).

Compares the live SafeListConstruct._parse against an inline copy of the
ORIGINAL implementation for many element constructs, counts, predicates and
input streams.  Compared per case:
  * returned list (or propagated exception type + message),
  * every seek/read/tell call on the shared stream and the final position,
  * the value of context._index left behind,
  * what each predicate call was given (type + snapshot) and in which order.
Also runs the real Roland DirectoryListConstruct over random and
single-byte-damaged directory areas.
Exit code 0 when everything agrees, 1 otherwise.
"""
import io
import random
import sys
from io import SEEK_SET
from typing import Any, Callable, Optional

from construct.core import (
    Array, Byte, Bytes, Check, Computed, ConstructError, Enum, Int16ul,
    PaddedString, RangeError, SizeofError, Struct, evaluate,
)
from construct.lib.containers import Container

from smpl_extract.roland.s7xx.directory_area import DirectoryEntryParser
from smpl_extract.util.constructs import SafeListConstruct, UnsizedConstruct


# --------------------------------------------------------------------------
# inline copy of the ORIGINAL implementation
# --------------------------------------------------------------------------
class OrigSafeListConstruct(Array):

    def __init__(
            self,
            count,
            subcon,
            predicate: Optional[Callable[[Any], bool]] = None
    ) -> None:
        super().__init__(count, subcon)  # type: ignore
        self.predicate = predicate

    def _parse(self, stream, context, path):
        count = evaluate(self.count, context)
        if count < 0:
            raise RangeError(f"invalid count {count}", path=path)
        obj = dict()
        if self.predicate is not None:
            predicate = self.predicate
        else:
            predicate = lambda obj: True
        for i in range(count):
            context._index = i
            entry_address = stream.tell()
            try:
                entry = self.subcon._parsereport(stream, context, path)  # type: ignore
            except (UnicodeDecodeError, ConstructError, KeyError, IndexError) as e:
                # as in the tree after the alignment fix: a failed element still occupies its slot
                try:
                    entry_size = self.subcon._sizeof(context, path)  # type: ignore
                except SizeofError:
                    entry_size = 0
                if entry_size > 0:
                    stream.seek(entry_address + entry_size, SEEK_SET)
                continue
            if predicate(obj):
                obj[i] = (entry)
        return list(obj.values())


# --------------------------------------------------------------------------
# harness
# --------------------------------------------------------------------------
class RecStream(io.BytesIO):
    def __init__(self, data):
        super().__init__(data)
        self.log = []

    def seek(self, offset, whence=SEEK_SET):
        r = super().seek(offset, whence)
        self.log.append(("seek", offset, whence, r))
        return r

    def tell(self):
        r = super().tell()
        self.log.append(("tell", r))
        return r

    def read(self, size=-1):
        r = super().read(size)
        self.log.append(("read", size, r))
        return r


def boom(kind):
    def f(ctx):
        v = ctx.tag
        if kind == "key" and v % 5 == 1:
            return {}["missing"]
        if kind == "index" and v % 5 == 2:
            return [][3]
        if kind == "value" and v % 11 == 3:
            raise ValueError(f"bad tag {v}")
        if kind == "zerodiv" and v % 13 == 4:
            return 1 // 0
        if kind == "unicode" and v % 5 == 3:
            return bytes([0xFF, v]).decode("ascii")
        if kind == "attr" and v % 17 == 5:
            return ctx.no_such_field_anywhere
        return v * 2
    return f


SUBCONS = {
    "byte": Byte,
    "u16": Int16ul,
    "ascii": Struct("name" / PaddedString(4, "ascii"), "v" / Byte),
    "enum": Struct("kind" / Enum(Byte, a=1, b=2, c=0x44), "i" / Computed(lambda t: t._index)),
    "check": Struct("tag" / Byte, Check(lambda t: t.tag < 200), "pad" / Bytes(2)),
    "key": Struct("tag" / Byte, "x" / Computed(boom("key"))),
    "index": Struct("tag" / Byte, "x" / Computed(boom("index"))),
    "value": Struct("tag" / Byte, "x" / Computed(boom("value"))),
    "zerodiv": Struct("tag" / Byte, "x" / Computed(boom("zerodiv"))),
    "unicode": Struct("tag" / Byte, "x" / Computed(boom("unicode"))),
    "attr": Struct("tag" / Byte, "x" / Computed(boom("attr"))),
    "direntry": DirectoryEntryParser,
}


def make_predicates(log):
    def snapshot(arg):
        log.append((type(arg).__name__, sorted(arg.keys()) if isinstance(arg, dict) else repr(arg)))

    def always(arg):
        snapshot(arg)
        return True

    def never(arg):
        snapshot(arg)
        return False

    def at_most_three(arg):
        snapshot(arg)
        return len(arg) < 3

    def alternating(arg):
        snapshot(arg)
        return len(log) % 2 == 0

    def truthy_value(arg):
        snapshot(arg)
        return "yes" if len(arg) != 2 else ""

    def raising(arg):
        snapshot(arg)
        if len(arg) >= 2:
            raise RuntimeError("predicate gave up")
        return True

    def raising_caught_kind(arg):
        # raised *outside* the try block, so it must propagate
        snapshot(arg)
        if len(arg) >= 1:
            raise KeyError("from predicate")
        return True

    return {
        "none": None, "always": always, "never": never,
        "at_most_three": at_most_three, "alternating": alternating,
        "truthy_value": truthy_value, "raising": raising,
        "raising_caught_kind": raising_caught_kind,
    }


COUNTS = {
    "0": 0, "1": 1, "3": 3, "7": 7, "40": 40, "-1": -1, "-5": -5,
    "ctx": lambda ctx: ctx.n, "ctxneg": lambda ctx: ctx.n - 100,
    "true": True,
}


def run(cls, subcon_name, count_name, pred_name, data, wrap):
    pred_log = []
    predicate = make_predicates(pred_log)[pred_name]
    con = cls(COUNTS[count_name], SUBCONS[subcon_name], predicate)
    if wrap:
        con = UnsizedConstruct(con)
    stream = RecStream(data)
    # same context layout as construct's Construct.parse_stream() builds
    context = Container(n=4, _index="untouched")
    context._parsing = True
    context._building = False
    context._sizing = False
    context._params = context
    try:
        if wrap:
            value = con._parsereport(stream, context, "(demo)")
        else:
            value = con._parse(stream, context, "(demo)")
        result = ("ok", type(value).__name__, repr(value))
    except Exception as exc:
        result = ("exc", type(exc).__name__, str(exc))
    return (result, stream.log, io.BytesIO.tell(stream),
            context.get("_index"), pred_log)


def directory_cases():
    """Real Roland directory list: random areas + exhaustive damage of entry 1."""
    rng = random.Random(77)

    def entry(i):
        name = (b"SAMPLE %02d" % i).ljust(16, b" ")
        return (name + bytes([0x44, 0]) + (i).to_bytes(2, "little")
                + (i + 1).to_bytes(2, "little") + b"\0\0" + b"\0\0\0\0"
                + (2 + i).to_bytes(2, "little") + (1).to_bytes(2, "little"))

    base = b"".join(entry(i) for i in range(4))
    assert len(base) == 4 * 0x20
    yield base
    for offset in range(0x20, 0x40):
        for value in range(256):
            damaged = bytearray(base)
            damaged[offset] = value
            yield bytes(damaged)
    for _ in range(200):
        yield bytes(rng.randrange(256) for _ in range(rng.randrange(0, 0x20 * 5)))


def main():
    rng = random.Random(33)
    failures = 0
    count = 0

    def compare(*args):
        nonlocal failures, count
        count += 1
        got = run(SafeListConstruct, *args)
        want = run(OrigSafeListConstruct, *args)
        if got != want:
            failures += 1
            if failures <= 5:
                print("MISMATCH", args[:3], args[3].hex(), args[4])
                print("  live:", got[0], got[2:])
                print("  orig:", want[0], want[2:])

    pred_names = list(make_predicates([]).keys())
    # full cross product on a few streams
    streams = [b"", b"\x01", bytes(range(1, 40)),
               bytes(rng.randrange(256) for _ in range(64)),
               b"abcd\x01ef\xffh\x02ijkl\x03" * 3,
               bytes([1, 2, 0x44, 9, 200, 250, 3]) * 6]
    for subcon_name in SUBCONS:
        for count_name in COUNTS:
            for pred_name in pred_names:
                for data in streams:
                    compare(subcon_name, count_name, pred_name, data, False)
    # random
    for _ in range(3000):
        data = bytes(rng.randrange(256) for _ in range(rng.randrange(0, 90)))
        compare(rng.choice(list(SUBCONS)), rng.choice(list(COUNTS)),
                rng.choice(pred_names), data, rng.random() < 0.3)
    # real directory lists
    for data in directory_cases():
        compare("direntry", "ctx", "none", data, True)
        compare("direntry", "7", "at_most_three", data, False)

    print(f"{count} cases compared, {failures} mismatches")
    return 1 if failures else 0


if __name__ == "__main__":
    sys.exit(main())
