"""Equivalence evidence for r21: the loop table of the AKAI sample header
(smpl_extract/akai/sample.py: LoopDataConstruct and LoopEntryAdapter._decode,
used as `LoopEntryAdapter(LoopDataConstruct)[8]` by SampleHeaderConstruct).

The refactoring (a) declares the four fields of a loop slot from a module-level
(name, parser) table iterated into `Renamed(parser, newname=name)` instead of
four `"name" / parser` lines, and (b) in `_decode` drops the `loop_data = obj`
alias, renames the locals, names the literal 9999 (LOOP_DURATION_FOREVER) and
builds the LoopEntry with keywords and without the `result` temporary.

Inline copies of the ORIGINAL declarations are compared with the live ones:
  1. LoopDataConstruct: parse of edge and random 12-byte slots (values, key
     order, stream position), truncated input, build, sizeof, generated source;
  2. LoopEntryAdapter._decode called directly with objects that log attribute
     reads and arithmetic, lack attributes, or carry non-int values;
  3. the adapter around the struct and a whole SampleHeaderConstruct that uses
     the original pieces vs the live one on random 140-byte headers, down to
     the text `ls` prints for the sample.
Exit 0 = all agree, 1 = a difference was found.
"""
import io
import random
import re
import struct
import sys
from dataclasses import dataclass
from dataclasses import fields

from construct.core import Adapter
from construct.core import Int16ul
from construct.core import Int32ul
from construct.core import Int8sl
from construct.core import Int8ul
from construct.core import Padding
from construct.core import Struct
from construct.core import Tell
from construct.expr import this
from construct.lib.containers import Container

from smpl_extract.akai.akai_string import AkaiPaddedString
from smpl_extract.akai.data_types import AKAI_SAMPLE_WORDLENGTH
from smpl_extract.akai.data_types import AkaiLoopType
from smpl_extract.akai.data_types import AkaiMidiNote
from smpl_extract.akai.data_types import AkaiTuneCents
from smpl_extract.akai.data_types import SampleType
from smpl_extract.akai.sample import LoopDataConstruct
from smpl_extract.akai.sample import LoopEntry
from smpl_extract.akai.sample import LoopEntryAdapter
from smpl_extract.akai.sample import SampleAdapter
from smpl_extract.akai.sample import SampleHeaderConstruct
from smpl_extract.util.constructs import EnumWrapper
from smpl_extract.util.stream import StreamOffset
from smpl_extract.util.stream import SubStreamConstruct


# --------------------------------------------------------------------------
# inline copy of the ORIGINAL implementation
# --------------------------------------------------------------------------
OrigLoopDataConstruct = Struct(
    "loop_start" / Int32ul,
    "loop_length_fine" / Int16ul,
    "loop_length_coarse" / Int32ul,
    "loop_duration" / Int16ul
).compile()


class OrigLoopEntryAdapter(Adapter):
    def _decode(self, obj, context, path)->LoopEntry:
        del context, path  # Unused

        loop_data = obj

        loop_at = loop_data.loop_start
        loop_length = loop_data.loop_length_coarse

        loop_duration = loop_data.loop_duration
        repeat_forever = (loop_duration >= 9999)

        loop_start = (loop_at - 1) - loop_length
        if loop_start < 0:
            loop_start = 0
        loop_end = loop_at

        result = LoopEntry(
            loop_start,
            loop_end,
            loop_duration,
            repeat_forever
        )
        return result


    def _encode(self, obj, context, path)->bytes:
        raise NotImplementedError


OrigSampleHeaderConstruct = Struct(
    "id"                    / EnumWrapper(Int8ul, SampleType),
    Padding(1),
    "note_pitch"            / AkaiMidiNote(Int8ul),
    "sample_name"           / AkaiPaddedString(12),
    Padding(4),
    "loop_type"             / EnumWrapper(Int8ul, AkaiLoopType),
    "pitch_offset_cents"    / AkaiTuneCents(Int8sl),
    "pitch_offset_semi"     / Int8sl,
    Padding(4),
    "samples_cnt"           / Int32ul,
    "play_start"            / Int32ul,
    "play_end"              / Int32ul,
    "loop_data_table"       / OrigLoopEntryAdapter(OrigLoopDataConstruct)[8],
    Padding(4),
    "sampling_rate"         / Int16ul,
    "data_address"          / Tell,
    "data_stream"           / SubStreamConstruct(
                                StreamOffset,
                                size=(AKAI_SAMPLE_WORDLENGTH * \
                                    (this.play_end - this.play_start)
                                ),
                                offset=(
                                    this.data_address + (AKAI_SAMPLE_WORDLENGTH * \
                                        this.play_start)
                                )
                            )
).compile()


failures = 0
checked = 0


def fail(*msg):
    global failures
    failures += 1
    if failures <= 5:
        print("MISMATCH", *[repr(m)[:300] for m in msg])


def outcome(fn, *args, **kwargs):
    try:
        res = fn(*args, **kwargs)
    except Exception as e:  # noqa
        return ("exc", type(e).__name__, str(e))
    return ("ok", type(res).__name__, repr(res))


rng = random.Random(21)
EDGE32 = [0, 1, 2, 3, 9998, 9999, 10000, 0x7FFFFFFF, 0x80000000, 0xFFFFFFFE,
          0xFFFFFFFF]
EDGE16 = [0, 1, 2, 9998, 9999, 10000, 0x7FFF, 0x8000, 0xFFFE, 0xFFFF]


def random_slot():
    return struct.pack(
        "<IHIH",
        rng.choice(EDGE32) if rng.random() < 0.4 else rng.choice(
            [rng.randrange(1 << 32), rng.randrange(200)]),
        rng.choice(EDGE16) if rng.random() < 0.3 else rng.randrange(1 << 16),
        rng.choice(EDGE32) if rng.random() < 0.4 else rng.choice(
            [rng.randrange(1 << 32), rng.randrange(200)]),
        rng.choice(EDGE16) if rng.random() < 0.5 else rng.randrange(1 << 16),
    )


slots = [struct.pack("<IHIH", a, 7, b, d)
         for a in EDGE32 for b in EDGE32 for d in EDGE16]
slots += [random_slot() for _ in range(6000)]


# --------------------------------------------------------------------------
# 1. the struct of one loop slot
# --------------------------------------------------------------------------
def describe_parse(parser, blob, lead=0, **ctx):
    stream = io.BytesIO(b"\xAA" * lead + blob)
    stream.seek(lead)
    try:
        con = parser.parse_stream(stream, **ctx)
    except Exception as e:  # noqa
        return ("exc", type(e).__name__, str(e), stream.tell())
    items = [(k, type(v).__name__, repr(v)) for k, v in con.items()
             if k != "_io"]
    return ("ok", type(con).__name__, items, list(con.keys()), stream.tell())


for n, blob in enumerate(slots):
    checked += 1
    a = describe_parse(LoopDataConstruct, blob, lead=(n % 5))
    b = describe_parse(OrigLoopDataConstruct, blob, lead=(n % 5))
    if a != b:
        fail("slot parse", blob, a, b)

for blob in [b""] + [slots[17][:k] for k in range(1, 12)] + [slots[17] + b"zz"]:
    checked += 1
    a = describe_parse(LoopDataConstruct, blob)
    b = describe_parse(OrigLoopDataConstruct, blob)
    if a != b:
        fail("slot truncated", blob, a, b)

build_objs = [
    dict(loop_start=1, loop_length_fine=2, loop_length_coarse=3, loop_duration=4),
    dict(loop_start=0xFFFFFFFF, loop_length_fine=0xFFFF,
         loop_length_coarse=0xFFFFFFFF, loop_duration=0xFFFF),
    dict(loop_start=1 << 32, loop_length_fine=2, loop_length_coarse=3,
         loop_duration=4),
    dict(loop_start=1, loop_length_fine=-1, loop_length_coarse=3, loop_duration=4),
    dict(loop_start=1, loop_length_fine=2, loop_length_coarse=3),
    dict(loop_length_fine=2, loop_length_coarse=3, loop_duration=4),
    dict(loop_start="x", loop_length_fine=2, loop_length_coarse=3,
         loop_duration=4),
    dict(), None, 5, [1, 2, 3, 4],
    Container(loop_duration=4, loop_length_coarse=3, loop_length_fine=2,
              loop_start=1, extra=9),
]
for obj in build_objs:
    checked += 1
    a = outcome(LoopDataConstruct.build, obj)
    b = outcome(OrigLoopDataConstruct.build, obj)
    if a != b:
        fail("slot build", obj, a, b)
for blob in slots[:400]:
    checked += 1
    a = LoopDataConstruct.build(LoopDataConstruct.parse(blob))
    b = OrigLoopDataConstruct.build(OrigLoopDataConstruct.parse(blob))
    if not (a == b == blob):
        fail("slot roundtrip", blob, a, b)

checked += 1
if outcome(LoopDataConstruct.sizeof) != outcome(OrigLoopDataConstruct.sizeof):
    fail("sizeof", outcome(LoopDataConstruct.sizeof),
         outcome(OrigLoopDataConstruct.sizeof))


def normal_source(con):
    src = getattr(con, "source", None)
    if src is None:
        return None
    # numbering of the generated helpers depends on a global counter only
    return re.sub(r"_\d+\b", "_N", src)


checked += 1
if normal_source(LoopDataConstruct) != normal_source(OrigLoopDataConstruct):
    fail("generated source differs")


# --------------------------------------------------------------------------
# 2. LoopEntryAdapter._decode on hand-made objects
# --------------------------------------------------------------------------
LOG = []


class Num:
    """operand that logs every comparison / arithmetic applied to it"""
    def __init__(self, tag, value):
        self.tag = tag
        self.value = value

    def __repr__(self):
        return "Num(%r,%r)" % (self.tag, self.value)

    def __eq__(self, other):
        return isinstance(other, Num) and (self.tag, self.value) == \
            (other.tag, other.value)

    __hash__ = None

    def _v(self, o):
        return o.value if isinstance(o, Num) else o

    def __sub__(self, o):
        LOG.append(("sub", self.tag, repr(o)))
        return Num(self.tag + "-", self.value - self._v(o))

    def __rsub__(self, o):
        LOG.append(("rsub", self.tag, repr(o)))
        return Num("-" + self.tag, self._v(o) - self.value)

    def __lt__(self, o):
        LOG.append(("lt", self.tag, repr(o)))
        return self.value < self._v(o)

    def __ge__(self, o):
        LOG.append(("ge", self.tag, repr(o)))
        return self.value >= self._v(o)

    def __le__(self, o):
        LOG.append(("le", self.tag, repr(o)))
        return self.value <= self._v(o)

    def __gt__(self, o):
        LOG.append(("gt", self.tag, repr(o)))
        return self.value > self._v(o)


class Slot:
    """loop slot that logs the order of attribute reads"""
    def __init__(self, **kv):
        object.__setattr__(self, "_kv", kv)

    def __getattr__(self, name):
        LOG.append(("get", name))
        kv = object.__getattribute__(self, "_kv")
        if name not in kv:
            raise AttributeError(name)
        value = kv[name]
        if isinstance(value, Exception):
            raise value
        return value


def describe_entry(entry):
    if not isinstance(entry, LoopEntry):
        return ("other", type(entry).__name__, repr(entry))
    return tuple(
        (f.name, type(getattr(entry, f.name)).__name__,
         repr(getattr(entry, f.name)))
        for f in fields(entry)
    )


def call_decode(adapter, make_obj, context, path):
    del LOG[:]
    obj = make_obj()
    try:
        res = adapter._decode(obj, context, path)
        out = ("ok", describe_entry(res))
    except Exception as e:  # noqa
        out = ("exc", type(e).__name__, str(e))
    return out, list(LOG)


live_adapter = LoopEntryAdapter(LoopDataConstruct)
orig_adapter = OrigLoopEntryAdapter(OrigLoopDataConstruct)

odd_values = [0, 1, 2, 9998, 9999, 10000, -1, -9999, 2**32, 2**70, 0.0, 0.5,
              9999.0, 9998.999, -0.0, float("inf"), float("-inf"),
              float("nan"), True, False, None, "9999", b"1", [1], (2,),
              3 + 4j, ValueError("boom"), KeyError("k")]
makers = []
for _ in range(4000):
    kv = dict(
        loop_start=rng.choice(odd_values),
        loop_length_fine=rng.choice(odd_values),
        loop_length_coarse=rng.choice(odd_values),
        loop_duration=rng.choice(odd_values),
    )
    for key in list(kv):
        r = rng.random()
        if r < 0.08:
            del kv[key]
        elif r < 0.4 and isinstance(kv[key], (int, float)) \
                and not isinstance(kv[key], bool):
            kv[key] = Num(key[5:8], kv[key])
    makers.append(lambda kv=kv: Slot(**kv))
    makers.append(lambda kv=kv: Container(
        {k: v for k, v in kv.items() if not isinstance(v, Exception)}))
for a in range(0, 14):
    for b in range(0, 14):
        for d in (0, 1, 9998, 9999, 10000):
            makers.append(lambda a=a, b=b, d=d: Slot(
                loop_start=a, loop_length_fine=99, loop_length_coarse=b,
                loop_duration=d))
makers += [lambda: None, lambda: 5, lambda: "slot", lambda: {}, lambda: object(),
           lambda: dict(loop_start=1, loop_length_coarse=1, loop_duration=1)]

for mk in makers:
    for context, path in ((None, None), (Container(), "(parsing)")):
        checked += 1
        a = call_decode(live_adapter, mk, context, path)
        b = call_decode(orig_adapter, mk, context, path)
        if a != b:
            fail("_decode", mk(), a, b)

checked += 1
a = outcome(live_adapter._encode, LoopEntry(0, 1, 2, False), None, None)
b = outcome(orig_adapter._encode, LoopEntry(0, 1, 2, False), None, None)
if a != b:
    fail("_encode", a, b)
checked += 1
a = outcome(live_adapter.build, LoopEntry(0, 1, 2, False))
b = outcome(orig_adapter.build, LoopEntry(0, 1, 2, False))
if a != b:
    fail("build", a, b)


# --------------------------------------------------------------------------
# 3. adapter + struct, the table of 8 and the whole sample header / `ls`
# --------------------------------------------------------------------------
for n, blob in enumerate(slots):
    checked += 1
    a = outcome(live_adapter.parse, blob)
    b = outcome(orig_adapter.parse, blob)
    if a != b:
        fail("entry parse", blob, a, b)
    if a[0] == "ok":
        # independent expectation, straight from the bytes
        at, _fine, coarse, dur = struct.unpack("<IHIH", blob)
        expect = LoopEntry(max(at - 1 - coarse, 0), at, dur, dur >= 9999)
        if a[2] != repr(expect):
            fail("entry value", blob, a, expect)

for k in range(0, 97, 5):
    blob = b"".join(slots[40:48])[:k]
    checked += 1
    a = outcome(live_adapter[8].parse, blob)
    b = outcome(orig_adapter[8].parse, blob)
    if a != b:
        fail("table truncated", k, a, b)


def make_header(data_len=None):
    sid = rng.choice([1, 3] * 10 + [0, 2, 7])
    note = rng.randrange(0, 128) if rng.random() < 0.9 else rng.randrange(256)
    name = bytes(rng.randrange(0, 0x29) for _ in range(12))
    if rng.random() < 0.03:
        name = bytes(rng.randrange(256) for _ in range(12))
    loop_type = rng.choice([0, 1, 2, 3, 4] * 6 + [9, 255])
    play_start = rng.choice([0, 0, 1, rng.randrange(0, 60)])
    play_end = rng.choice([play_start, play_start + rng.randrange(0, 60),
                           rng.randrange(0, 60), rng.randrange(1 << 32)])
    head = (
        struct.pack("<BBB", sid, rng.randrange(256), note) + name
        + bytes(rng.randrange(256) for _ in range(4))
        + struct.pack("<Bbb", loop_type, rng.randrange(-128, 128),
                      rng.randrange(-128, 128))
        + bytes(rng.randrange(256) for _ in range(4))
        + struct.pack("<III", rng.randrange(1 << 32), play_start, play_end)
        + b"".join(random_slot() for _ in range(8))
        + bytes(rng.randrange(256) for _ in range(4))
        + struct.pack("<H", rng.choice([0, 44100, 22050, rng.randrange(65536)]))
    )
    assert len(head) == 140
    if data_len is None:
        data_len = rng.choice([0, 1, 10, 77, 200])
    return head + bytes(rng.randrange(256) for _ in range(data_len))


def describe_header(parser, blob, lead):
    stream = io.BytesIO(b"\x55" * lead + blob)
    stream.seek(lead)
    try:
        con = parser.parse_stream(stream)
    except Exception as e:  # noqa
        return ("exc", type(e).__name__, str(e), stream.tell())
    out = {}
    for key, value in con.items():
        if key == "_io":
            continue
        if key == "data_stream":
            out[key] = (type(value).__name__, value.offset, value.end_of_file)
        else:
            out[key] = (type(value).__name__, repr(value))
    out["__keys__"] = list(con.keys())
    out["__tell__"] = stream.tell()
    return ("ok", out)


def describe_ls(adapter, blob):
    try:
        sample = adapter.parse(blob, _elem_name="SMP")
    except Exception as e:  # noqa
        return ("exc", type(e).__name__, str(e))
    out = {}
    for f in fields(sample):
        v = getattr(sample, f.name)
        if f.name == "_data_stream":
            v = ("stream", v.offset, v.end_of_file)
        out[f.name] = repr(v)
    out["itemize"] = repr(sample.itemize())
    out["info"] = sample.get_info().to_string()
    return ("ok", out)


cases = [make_header() for _ in range(1500)]
cases += [b"", bytes(40), bytes(139), bytes(140), b"\x01" * 140, b"\xff" * 300]
cases += [cases[3][:k] for k in range(30, 140, 7)]
live_sample = SampleAdapter(SampleHeaderConstruct)
orig_sample = SampleAdapter(OrigSampleHeaderConstruct)
for n, blob in enumerate(cases):
    checked += 1
    a = describe_header(SampleHeaderConstruct, blob, n % 3)
    b = describe_header(OrigSampleHeaderConstruct, blob, n % 3)
    if a != b:
        fail("header", n, a, b)
    checked += 1
    a = describe_ls(live_sample, blob)
    b = describe_ls(orig_sample, blob)
    if a != b:
        fail("ls", n, a, b)

print("checked %d comparisons, %d mismatches" % (checked, failures))
sys.exit(1 if failures else 0)
