"""r14 evidence: MidiNote.to_string / itemize / __str__ / __repr__
(smpl_extract/midi.py) give exactly the text the original implementation gave,
for every note reachable from a byte, every note name for octaves 0-9, and for
unusual field values; and the text still parses back to the same note.
The original classes are pasted below.  Exit 0 = all agree, 1 = difference.
"""
from dataclasses import dataclass
import enum
import re
import sys
from typing import Dict
from typing import Tuple

import smpl_extract.midi as live


# ---------------------------------------------------------------- ORIGINAL --
NOTES_IN_OCTAVE = 12
AKAI_SAMPLE_A0 = 21
MIDI_A0 = 21
MIDI_NOTE_STR_REGEX = re.compile(r"([A-Ga-g])(#?)(\d)")


class OrigScaleDegree(enum.IntEnum):
    A = 0
    B = 1
    C = 2
    D = 3
    E = 4
    F = 5
    G = 6
    def __str__(self):
        return chr(self.value + ord('A'))
    @classmethod
    def from_string(cls, input: str):
        input = input.upper().strip()
        return cls(ord(input) - ord('A'))


@dataclass(frozen=True, repr=False)
class OrigMidiNote:
    scale_degree:   OrigScaleDegree = OrigScaleDegree.A
    is_sharp:       bool        = False
    octave:         int         = 0

    def to_string(self) -> str:
        scale_degree_string = str(self.scale_degree)
        is_sharp_string = "#" if self.is_sharp else ""
        octave_string = str(self.octave)
        return "".join([
            scale_degree_string,
            is_sharp_string,
            octave_string
        ])

    def itemize(self):
        result = self.to_string()
        return result

    def __str__(self)->str:
        return self.to_string()

    def __repr__(self)->str:
        result = f"MidiNote({self.to_string()})"
        return result

    @classmethod
    def from_string(cls, input: str):
        input = input.upper().strip()
        matches = MIDI_NOTE_STR_REGEX.match(input)
        if matches is None:
            raise re.error("Could not parse note")
        scale_degree = OrigScaleDegree.from_string(matches.groups()[0])
        is_sharp = len(matches.groups()[1]) > 0
        octave = int(matches.groups()[2])
        result = cls(scale_degree, is_sharp, octave)
        return result

    @classmethod
    def from_int_a0(cls, byte_in: int):
        scale_table: Dict[int, Tuple[OrigScaleDegree, bool]] = {
            0x00:   (OrigScaleDegree.A, False),
            0x01:   (OrigScaleDegree.A, True),
            0x02:   (OrigScaleDegree.B, False),
            0x03:   (OrigScaleDegree.C, False),
            0x04:   (OrigScaleDegree.C, True),
            0x05:   (OrigScaleDegree.D, False),
            0x06:   (OrigScaleDegree.D, True),
            0x07:   (OrigScaleDegree.E, False),
            0x08:   (OrigScaleDegree.F, False),
            0x09:   (OrigScaleDegree.F, True),
            0x0A:   (OrigScaleDegree.G, False),
            0x0B:   (OrigScaleDegree.G, True),
        }
        octave = byte_in // NOTES_IN_OCTAVE
        scale_degree_raw = byte_in % NOTES_IN_OCTAVE
        scale_degree, is_sharp = scale_table[scale_degree_raw]
        return cls(scale_degree, is_sharp, octave)

    @classmethod
    def from_midi_byte(cls, byte_in: int):
        byte_normalized = byte_in - MIDI_A0
        return cls.from_int_a0(byte_normalized)
# ------------------------------------------------------------ END ORIGINAL --


LOG = []


class Loud:
    """Field value that records when it is converted, to compare the ORDER
    in which the fields are looked at."""
    def __init__(self, name, text="?", truth=True):
        self.name, self.text, self.truth = name, text, truth
    def __str__(self):
        LOG.append(("str", self.name))
        return self.text
    def __bool__(self):
        LOG.append(("bool", self.name))
        return self.truth
    def __format__(self, spec):
        LOG.append(("format", self.name, spec))
        return "F" + self.text


class Bad:
    def __str__(self):
        raise KeyError("no text")
    def __bool__(self):
        raise OverflowError("no truth")


def outcome(fn, *args):
    del LOG[:]
    try:
        value = fn(*args)
    except BaseException as exc:  # noqa: B902
        return ("exc", type(exc), str(exc), tuple(LOG))
    return ("ok", type(value), value, tuple(LOG))


VIEWS = [
    ("to_string", lambda n: n.to_string()),
    ("itemize", lambda n: n.itemize()),
    ("str", lambda n: str(n)),
    ("repr", lambda n: repr(n)),
    ("format", lambda n: format(n)),
    ("fstring", lambda n: f"<{n}|{n!r}|{n!s}>"),
    ("percent", lambda n: "%s %r" % (n, n)),
    ("in list", lambda n: repr([n, (n,)])),
]

failures = []
checked = 0


def compare_notes(label, new_note, old_note):
    global checked
    for view_name, view in VIEWS:
        checked += 1
        got = outcome(view, new_note)
        want = outcome(view, old_note)
        if got != want:
            failures.append((label, view_name, got, want))


def main():
    # 1. every note reachable from a byte (and from out-of-range integers)
    for byte in range(-300, 600):
        compare_notes(("byte", byte), live.MidiNote.from_midi_byte(byte),
                      OrigMidiNote.from_midi_byte(byte))
        compare_notes(("akai byte", byte), live.MidiNote.from_akai_byte(byte),
                      OrigMidiNote.from_midi_byte(byte))

    # 2. every (degree, sharp, octave) incl. B# / E#, octaves -2..12, and the
    #    text parses back to the same note for octaves 0-9
    for degree in range(7):
        for sharp in (False, True):
            for octave in range(-2, 13):
                new_note = live.MidiNote(live.ScaleDegree(degree), sharp, octave)
                old_note = OrigMidiNote(OrigScaleDegree(degree), sharp, octave)
                compare_notes(("note", degree, sharp, octave), new_note, old_note)
                if 0 <= octave <= 9:
                    text = new_note.to_string()
                    if live.MidiNote.from_string(text) != new_note:
                        failures.append(("roundtrip", text, None, None))
                    if text != old_note.to_string():
                        failures.append(("text", text, old_note.to_string(), None))

    # 3. default construction and keyword construction
    compare_notes("default", live.MidiNote(), OrigMidiNote())
    compare_notes("kw", live.MidiNote(octave=3, is_sharp=True),
                  OrigMidiNote(octave=3, is_sharp=True))

    # 4. unusual field values (the dataclass does not validate its fields)
    odd_degrees = [0, 6, 7, -1, None, "C", ("A", "B"), (1, 2, 3), [], 2.5, b"x",
                   {"a": 1}, "{}", "%s"]
    odd_sharps = [False, True, 0, 1, "", "x", None, [], [0], 0.0, "{}", (), (0,)]
    odd_octaves = [0, 9, 10, -1, "4", None, 1.5, (4,), (1, 2, 3), "{0}", "%d", True]
    for d in odd_degrees:
        for s in odd_sharps:
            for o in odd_octaves:
                compare_notes(("odd", repr(d), repr(s), repr(o)),
                              live.MidiNote(d, s, o), OrigMidiNote(d, s, o))

    # 5. order in which the fields are converted, and failures inside them
    for truth in (True, False):
        args = lambda: (Loud("degree", "D"), Loud("sharp", "s", truth),  # noqa: E731
                        Loud("octave", "5"))
        compare_notes(("loud", truth), live.MidiNote(*args()), OrigMidiNote(*args()))
    for position in range(3):
        fields = [Loud("degree", "D"), Loud("sharp", "s"), Loud("octave", "5")]
        fields[position] = Bad()
        compare_notes(("bad", position), live.MidiNote(*fields), OrigMidiNote(*fields))
        fields = [Bad(), Bad(), Bad()]
        fields[position] = Loud("field%d" % position, "x")
        compare_notes(("bad others", position), live.MidiNote(*fields),
                      OrigMidiNote(*fields))

    # 6. a subclass that overrides to_string is still honoured by the others
    class NewSub(live.MidiNote):
        def to_string(self):
            return "sub:" + super().to_string()

    class OldSub(OrigMidiNote):
        def to_string(self):
            return "sub:" + super().to_string()

    compare_notes("subclass", NewSub(live.ScaleDegree.F, True, 2),
                  OldSub(OrigScaleDegree.F, True, 2))

    class NewTuple(live.MidiNote):
        def to_string(self):
            return ("a", "b")

    class OldTuple(OrigMidiNote):
        def to_string(self):
            return ("a", "b")

    compare_notes("subclass tuple", NewTuple(), OldTuple())

    print(f"r14: {checked} comparisons, {len(failures)} differences")
    for failure in failures[:10]:
        print("DIFF", failure)
    return 1 if failures else 0


if __name__ == "__main__":
    sys.exit(main())
