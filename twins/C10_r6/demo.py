"""Equivalence demo for r6 (per-image token normalisation).

Compares AkaiImageParser._sanitize_string and Traversable._sanitize_string
(as currently in the tree) with inline copies of the ORIGINAL code on
 - every single unicode code point, alone and decorated with blanks/colons,
 - hand-picked edge cases (empty, only blanks, only colons, several colons),
 - many random strings,
 - non-string arguments (same exception type and text),
and then resolves paths through Traversable.parse_path on a small tree using
the current and the original normaliser.  Exit 0 when all agree, else 1.
"""
import io
import random
import sys

from smpl_extract.akai.image import AkaiImageParser
from smpl_extract.structural import ErrorInvalidPath
from smpl_extract.structural import Image
from smpl_extract.structural import Traversable


# ---- ORIGINAL implementations (verbatim) ---------------------------------
def orig_akai_sanitize_string(
        self,
        input_str: str
):
    result = input_str.upper().strip()
    if len(result) > 0 and result[-1] == ":":
        result = result[:-1]
    return result


def orig_base_sanitize_string(self, input_str: str):
    result = input_str.strip()
    return result
# ---------------------------------------------------------------------------


def outcome(func, *args):
    try:
        value = func(*args)
        return ("ok", type(value).__name__, value)
    except BaseException as exc:
        return ("raise", type(exc).__name__, str(exc))


class StrSubclass(str):
    pass


def inputs():
    yield from ["", " ", "  ", ":", "::", ":::", " : ", ": :", " :: ", "a:",
                "a::", ":a", "a:b", "a :", "a: ", " a : ", "A:", "b:\n",
                "\t:\t", "\x1c:", ":\x1f", "\u2003:\u2003", "\ufeffA:",
                "A:\ufeff", "ß:", "ŉ:", "ǰ", "ﬁ:", "ΐ", "İ:", "ı:", "ς",
                "\u1e9e", "\u0345", "\u0345:", ":\u0345", "straße :",
                "VOLUME 001", "volume 001:", "  Strings -L  ",
                StrSubclass(" x: "), StrSubclass(":")]
    for cp in range(sys.maxunicode + 1):
        ch = chr(cp)
        yield ch
        if cp < 0x3000 or cp % 17 == 0:
            yield ch + ":"
            yield ":" + ch
            yield " " + ch + ": "
            yield ch + " :"
            yield ch + "::"
    rnd = random.Random(6)
    alphabet = " \t\n:::aAbBzZ09-_./\\äßİıﬁ\u00a0\u2003\u3000\x1c\x85"
    for _ in range(60000):
        yield "".join(rnd.choice(alphabet) for _ in range(rnd.randint(0, 8)))


# ---- a small tree for the end-to-end check --------------------------------
class Item(Traversable):
    def __init__(self, name, kids=()):
        self.name = name
        Traversable.__init__(self, lambda ctx: list(kids), type_name="Volume")


class FakeImage(Image):
    name = "img"
    type_name = "img"
    sanitizer = None

    def __init__(self):
        kids = [
            Item("A", [Item("VOL 1", [Item("Strings -L"), Item("x:")]),
                       Item("vol 1:"), Item(""), Item(":")]),
            Item("B:", [Item("äß")]),
            Item("b"),
        ]
        Traversable.__init__(self, lambda ctx: kids)

    def _sanitize_string(self, input_str):
        return type(self).sanitizer(self, input_str)


def resolve(sanitizer, path):
    FakeImage.sanitizer = sanitizer
    try:
        node = FakeImage().parse_path(path)
        return ("ok", node.name)
    except ErrorInvalidPath as exc:
        return ("not found", str(exc))


def main():
    failures = 0
    checked = 0
    akai = AkaiImageParser(io.BytesIO(b""))
    plain = FakeImage()

    pairs = (
        (AkaiImageParser._sanitize_string, orig_akai_sanitize_string, akai),
        (Traversable._sanitize_string, orig_base_sanitize_string, plain),
    )
    for text in inputs():
        for current, original, receiver in pairs:
            checked += 1
            got = outcome(current, receiver, text)
            want = outcome(original, receiver, text)
            if got != want:
                failures += 1
                if failures < 20:
                    print("MISMATCH", current.__qualname__, repr(text), got, want)

    for bad in (None, 0, 1.5, b"a:", bytearray(b"a:"), ["a:"], ("a", ":")):
        for current, original, receiver in pairs:
            checked += 1
            if outcome(current, receiver, bad) != outcome(original, receiver, bad):
                failures += 1
                print("MISMATCH (type)", current.__qualname__, repr(bad))

    # the method is also reached through the bound instance
    for text in ("a:", " b ", ":", ""):
        checked += 1
        if akai._sanitize_string(text) != orig_akai_sanitize_string(akai, text):
            failures += 1
            print("MISMATCH bound", repr(text))

    # end to end through parse_path
    names = ["A", "a", "a:", "A::", "B", "b", "B:", "b:", "b::", "VOL 1",
             "vol 1", "vol 1:", "", " ", ":", "::", "x", "x:", "X::",
             "strings -l", "ÄSS", "äß", "nope"]
    for first in names:
        for second in names:
            for sep in ("/", "\\", " / "):
                for tail in ("", sep):
                    path = first + sep + second + tail
                    for current, original in (
                        (AkaiImageParser._sanitize_string, orig_akai_sanitize_string),
                        (Traversable._sanitize_string, orig_base_sanitize_string),
                    ):
                        checked += 1
                        if resolve(current, path) != resolve(original, path):
                            failures += 1
                            if failures < 20:
                                print("MISMATCH path", repr(path))

    print(f"checked {checked} cases, {failures} mismatches")
    return 0 if failures == 0 else 1


if __name__ == "__main__":
    sys.exit(main())
