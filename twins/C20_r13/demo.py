"""Equivalence evidence for r13: LeafElement.itemize (smpl_extract/elements.py).

The refactoring hoists the local DEFAULT_EXCLUDE list to a module-level tuple
(copied into a fresh list per call), and moves the dict comprehension into a
private helper `_public_field_values` written as a for-loop with an early
`continue`.

The live itemize / get_info are compared against inline copies of the ORIGINAL
on hand-made LeafElement dataclasses (private fields, excluded names, nested
values, data descriptors that log or raise on read, a subclass overriding
is_public_field that logs its calls and the list it is handed, a subclass whose
override MUTATES the list it is handed - the next call must see a fresh list)
and on real AkaiSample / Program objects parsed from random images; the item
trees, their key order, the order of field reads, exceptions and the text `ls`
prints are compared.
Exit 0 = all agree, 1 = a difference was found.
"""
import random
import struct
import sys
from dataclasses import dataclass
from dataclasses import field
from dataclasses import fields
from typing import ClassVar
from typing import List
from typing import Optional

from smpl_extract.akai.program import ProgramParser
from smpl_extract.akai.sample import SampleAdapter
from smpl_extract.akai.sample import SampleHeaderConstruct
from smpl_extract.base import ElementTypes
from smpl_extract.elements import LeafElement
from smpl_extract.info import InfoTree
from smpl_extract.midi import MidiNote
from smpl_extract.util.dataclass import itemize_general


# --------------------------------------------------------------------------
# inline copy of the ORIGINAL implementation
# --------------------------------------------------------------------------
def orig_itemize(self):
    DEFAULT_EXCLUDE = [
        "name",
        "path",
        "type_id",
        "type_name",
        "safe_name",
        "export_name"
    ]
    items_dict = {
        k.name: getattr(self, k.name)
        for k in fields(self)
        if self.is_public_field(k.name, DEFAULT_EXCLUDE)
    }
    result = itemize_general(items_dict)
    return result


def orig_get_info(self):
    header = (self.safe_name, " "*2, self.type_name)
    items = self.itemize()
    result = InfoTree(header, items)
    return result


LIVE = {k: LeafElement.__dict__[k]
        for k in ("itemize", "get_info")}
ORIG = dict(itemize=orig_itemize, get_info=orig_get_info)


def use(table):
    for k, v in table.items():
        setattr(LeafElement, k, v)


failures = 0
checked = 0


def fail(*msg):
    global failures
    failures += 1
    if failures <= 5:
        print("MISMATCH", *[repr(m)[:400] for m in msg])


LOG = []


# --------------------------------------------------------------------------
# 2. itemize / get_info
# --------------------------------------------------------------------------
@dataclass
class Inner:
    a: int = 1
    _b: int = 2
    name: str = "inner name is not excluded here"


@dataclass
class Plain(LeafElement):
    file_name: str = "F"
    name: str = "excluded"
    path: str = "excluded"
    type_id: str = "excluded"
    type_name: str = "T"
    safe_name: str = "excluded"          # shadows the property
    export_name: str = "excluded"
    _private: int = 1
    __mangled: int = 2
    visible: int = 3
    x_: float = 2.5
    note: MidiNote = MidiNote.from_string("C4")
    inner: Inner = field(default_factory=Inner)
    seq: tuple = (1, "two", (3, ), [])
    mapping: dict = field(default_factory=lambda: {"k": 1, "_still": 2, "": 3})
    empty: tuple = ()
    text: str = "a string stays a string"
    none: Optional[int] = None
    cls_var: ClassVar[int] = 9


@dataclass
class OnlyHidden(LeafElement):
    name: str = "n"
    type_name: str = "t"
    _a: int = 0
    _b: int = 1


@dataclass
class Overriding(LeafElement):
    name: str = "n"
    type_name: str = "t"
    alpha: int = 1
    _beta: int = 2
    gamma: int = 3
    delta: int = 4

    def is_public_field(self, item_name, excluded_keys=None):
        LOG.append(("override", item_name, type(excluded_keys).__name__,
                    list(excluded_keys)))
        # non-bool results: truthiness must decide
        return {"alpha": 1, "gamma": "", "delta": [0], "_beta": "yes"}.get(item_name, 0)


@dataclass
class Mutating(LeafElement):
    """the override edits the list it is handed; every itemize() call must
    start again from the six default keys"""
    name: str = "n"
    type_name: str = "t"
    alpha: int = 1
    beta: int = 2
    path: str = "p"
    gamma: int = 3
    export_name: str = "e"

    def is_public_field(self, item_name, excluded_keys=None):
        LOG.append(("mutating", item_name, type(excluded_keys).__name__,
                    list(excluded_keys)))
        if item_name == "alpha":
            excluded_keys.append("gamma")
            excluded_keys.remove("path")
        if item_name == "beta":
            excluded_keys.insert(0, "beta")
            del excluded_keys[-2:]
        return LeafElement.is_public_field(self, item_name, excluded_keys)


class Loud:
    def __init__(self, tag, boom=False):
        self.tag = tag
        self.boom = boom

    def __set__(self, obj, value):
        pass        # data descriptor: reads always come through __get__

    def __get__(self, obj, objtype=None):
        if obj is None:
            return 0
        LOG.append(("get", self.tag))
        if self.boom:
            raise ZeroDivisionError(self.tag)
        return self.tag


@dataclass
class Descriptors(LeafElement):
    name: str = "n"
    type_name: str = "t"
    first: int = 0
    _skipped: int = 0
    second: int = 0
    third: int = 0


Descriptors.first = Loud("first")
Descriptors._skipped = Loud("_skipped")
Descriptors.second = Loud("second")
Descriptors.third = Loud("third")


@dataclass
class Exploding(LeafElement):
    name: str = "n"
    type_name: str = "t"
    first: int = 0
    second: int = 0
    third: int = 0


Exploding.first = Loud("first")
Exploding.second = Loud("second", boom=True)
Exploding.third = Loud("third")


def freeze(tree):
    """item tree with key order preserved"""
    if isinstance(tree, dict):
        return ("dict", [(k, freeze(v)) for k, v in tree.items()])
    if isinstance(tree, tuple):
        return ("tuple", [freeze(v) for v in tree])
    return (type(tree).__name__, tree)


def observe(make):
    del LOG[:]
    out = []
    try:
        obj = make()
    except Exception as e:  # noqa
        return [("make-exc", type(e).__name__, str(e))]
    for what in ("itemize", "info"):
        try:
            if what == "itemize":
                out.append(("ok", freeze(obj.itemize())))
            else:
                info = obj.get_info()
                out.append(("ok", type(info).__name__, info.header,
                            freeze(info.items), info.to_string()))
        except Exception as e:  # noqa
            out.append(("exc", type(e).__name__, str(e)))
    out.append(list(LOG))
    return out


def compare(tag, make):
    global checked
    checked += 1
    use(LIVE)
    a = observe(make)
    use(ORIG)
    try:
        b = observe(make)
    finally:
        use(LIVE)
    if a != b:
        fail(tag, a, b)
    return a


rng = random.Random(12)
compare("plain", Plain)
compare("plain2", lambda: Plain(visible=-1, seq=(), mapping={}, text="",
                                inner=Inner(5, 6, "z")))
compare("hidden", OnlyHidden)
compare("override", Overriding)
compare("mutating", Mutating)
compare("mutating again", Mutating)
compare("mutating 3", lambda: Mutating(alpha=9, path="q"))
compare("descriptors", Descriptors)
compare("exploding", Exploding)
for _ in range(200):
    kwargs = dict(
        file_name=rng.choice(["", "A", "x" * 100]),
        visible=rng.randrange(-5, 5),
        seq=tuple(rng.choice([1, "s", (), (1, 2), {"a": 1}])
                  for _ in range(rng.randrange(0, 5))),
        mapping={rng.choice(["", "_k", "k", "name", "path"]): rng.randrange(9)
                 for _ in range(rng.randrange(0, 4))},
        none=rng.choice([None, 0, 1]),
    )
    compare("plain rnd", lambda: Plain(**kwargs))

# ---- real elements: AKAI samples
def make_sample_blob(rng):
    name = bytes(rng.randrange(0, 0x29) for _ in range(12))
    loops = b"".join(
        struct.pack("<IHIH", rng.randrange(1 << 32), rng.randrange(65536),
                    rng.randrange(1 << 32),
                    rng.choice([0, 1, 9999, rng.randrange(65536)]))
        for _ in range(8))
    start = rng.randrange(0, 30)
    head = (struct.pack("<BBB", rng.choice([1, 3]), 0, rng.randrange(0x18, 0x80))
            + name + bytes(4)
            + struct.pack("<Bbb", rng.randrange(0, 4), rng.randrange(-128, 128),
                          rng.randrange(-128, 128))
            + bytes(4)
            + struct.pack("<III", rng.randrange(1 << 32), start,
                          start + rng.randrange(0, 30))
            + loops + bytes(4)
            + struct.pack("<H", rng.choice([0, 44100, rng.randrange(65536)])))
    return head + bytes(rng.randrange(256) for _ in range(120))


sample_parser = SampleAdapter(SampleHeaderConstruct)
good = 0
for n in range(300):
    blob = make_sample_blob(rng)
    res = compare("akai sample", lambda: sample_parser.parse(blob, _elem_name="S%d" % n))
    good += res[0][0] == "ok"

# ---- real elements: AKAI programs
DEFAULT_KEYGROUP = bytes.fromhex(
    "029600187f0000630c000000001e632d000000000032632d0000000000000104ffff"
    + "0a0a0a0a0a0a0a0a0a0a0a0a007f000000000000ffff2c01" * 4
    + "0000010100000000000000000000000000000000"
)


def akai_name(rng):
    if rng.random() < 0.3:
        return bytes([0x0A] * 12)
    n = rng.randrange(1, 13)
    return bytes(rng.randrange(0, 0x29) for _ in range(n)) + bytes([0x0A] * (12 - n))


def make_program_blob(rng):
    num = rng.randrange(1, 6)
    hdr = bytearray(rng.randrange(256) for _ in range(72))
    hdr[1:3] = struct.pack("<H", 72)
    hdr[3:15] = akai_name(rng)
    hdr[18] = rng.randrange(0, 4)
    hdr[19] = rng.randrange(0x18, 0x80)
    hdr[20] = rng.randrange(0x18, 0x80)
    hdr[61] = rng.randrange(0, 2)
    hdr[42] = num
    out = bytes(hdr)
    for i in range(num):
        kg = bytearray(DEFAULT_KEYGROUP)
        kg[1:3] = struct.pack("<H", 72 + 150 * (i + 1))
        for off in range(5, 30):
            kg[off] = rng.randrange(256)
        for z in range(4):
            base = 34 + 24 * z
            kg[base:base + 12] = akai_name(rng)
            kg[base + 12] = rng.randrange(128)
            kg[base + 13] = rng.randrange(128)
        out += bytes(kg)
    return out


for n in range(200):
    blob = make_program_blob(rng)
    res = compare("akai program", lambda: ProgramParser.parse(blob, _elem_name="P%d" % n))
    good += res[0][0] == "ok"
if good < 450:
    fail("too few real elements itemized", good)

assert all(LeafElement.__dict__[k] is v for k, v in LIVE.items())
print("r13 demo: %d comparisons (%d real elements), %d failures"
      % (checked, good, failures))
sys.exit(1 if failures else 0)
