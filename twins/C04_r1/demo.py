"""Equivalence demo for r1 (extract `_size_prefixed` helper for the nested
length-prefixed RIFF layout in smpl_extract/formats/wav.py).

An inline copy of the ORIGINAL WavRiffChunkStruct / WavRiffBodyStruct /
RiffStruct definitions is compared against the ones exported by the module:
identical bytes on build, identical containers on parse, identical exceptions.
Exit status 0 = all agree, 1 = a difference was found.
"""
import io
import itertools
import random
import sys

from construct.core import Const
from construct.core import GreedyRange
from construct.core import Int32ul
from construct.core import Prefixed
from construct.core import Struct
from construct.core import Switch
from construct.expr import this
from construct.lib.containers import Container
from construct.lib.containers import ListContainer

from smpl_extract.formats import wav as W
from smpl_extract.midi import MidiNote


# --------------------------------------------------------------------------
# ORIGINAL implementation (verbatim), built on the module's leaf structs
# --------------------------------------------------------------------------
OrigWavRiffChunkStruct = Struct(
    "riff_id"   / W.WavRiffChunkType,
    "data"      / Prefixed(Int32ul,
        Switch(this.riff_id, {
            W.WavRiffChunkType.FMT:  W.WavFormatChunkStruct,
            W.WavRiffChunkType.SMPL: W.WavSampleChunkStruct,
            W.WavRiffChunkType.DATA: W.WavDataChunkStruct
        })
    )
)

OrigWavRiffBodyStruct = Struct(
    "fourcc"    / Const(b"WAVE"),
    "chunks"    / GreedyRange(OrigWavRiffChunkStruct)
)

OrigRiffStruct = Struct(
    "fourcc"    / Const(b"RIFF"),
    "data"      / Prefixed(Int32ul, OrigWavRiffBodyStruct),
)


failures = []
checks = 0


def outcome(f):
    try:
        return ("ok", f())
    except BaseException as e:  # noqa
        return ("exc", type(e).__name__, str(e))


def plain(x):
    """Containers -> plain python, lazies evaluated, private keys dropped."""
    if callable(x) and not isinstance(x, type):
        return ("lazy", plain(x()))
    if isinstance(x, MidiNote):
        return ("note", x.to_midi_byte())
    if isinstance(x, dict):
        return {k: plain(v) for k, v in x.items() if not str(k).startswith("_io")}
    if isinstance(x, (list, tuple, ListContainer)):
        return [plain(v) for v in x]
    if isinstance(x, (bytes, bytearray)):
        return bytes(x)
    if isinstance(x, (int, float, str)) or x is None:
        return x if not hasattr(x, "intvalue") else (str(x), int(x))
    return repr(x)


def check(label, f_new, f_old):
    global checks
    checks += 1
    a = outcome(f_new)
    b = outcome(f_old)
    if a != b:
        failures.append((label, a, b))


def fmt_chunk(ch, rate, bits):
    return Container({
        "riff_id": W.WavRiffChunkType.FMT,
        "data": W.WavFormatChunkContainer(
            audio_format=1, channel_cnt=ch, sample_rate=rate,
            bits_per_sample=bits)
    })


def smpl_chunk(n_loops, note, frac, sampler_data=b""):
    loops = [
        W.WavLoopContainer(
            cue_id=i, loop_type=W.WavLoopType(i % 3), start_byte=i * 7,
            end_byte=i * 7 + 100, fraction=0, play_cnt=i)
        for i in range(n_loops)
    ]
    return Container({
        "riff_id": W.WavRiffChunkType.SMPL,
        "data": W.WavSampleChunkContainer(
            sample_period=22675, midi_note=MidiNote.from_midi_byte(note),
            pitch_fraction=frac, sample_loops=loops,
            sampler_data=sampler_data)
    })


def data_chunk(blocks, as_generator):
    if as_generator:
        payload = (bytes(b) for b in blocks)
    else:
        payload = [bytes(b) for b in blocks]
    return Container({"riff_id": W.WavRiffChunkType.DATA, "data": payload})


def riff(chunks):
    return Container({"data": Container({"chunks": chunks})})


rnd = random.Random(4)

block_sets = [
    [],
    [b""],
    [b"\x01\x02"],
    [b"\x01\x02", b"\x03\x04"],
    [bytes(range(256)) * 16] * 3 + [b"\xff" * 10],
    [bytes(rnd.getrandbits(8) for _ in range(rnd.randrange(0, 64)))
     for _ in range(9)],
]

# 1. whole files, built to bytes and to a stream, then parsed back with both
for (ch, rate, bits), n_loops, blocks, gen in itertools.product(
        [(1, 44100, 16), (2, 48000, 16), (1, 0, 8), (2, 22050, 32),
         (0, 1, 0), (65535, 0xFFFFFFFF // 65535 // 2, 8)],
        [None, 0, 1, 2, 8],
        block_sets,
        [False, True]):

    def make():
        chunks = [fmt_chunk(ch, rate, bits)]
        if n_loops is not None:
            chunks.append(smpl_chunk(n_loops, 60 + n_loops, n_loops * 1000))
        chunks.append(data_chunk(blocks, gen))
        return riff(chunks)

    label = ("file", ch, rate, bits, n_loops, len(blocks), gen)
    check(label + ("build",),
          lambda: W.RiffStruct.build(make()),
          lambda: OrigRiffStruct.build(make()))

    def via_stream(struct):
        s = io.BytesIO()
        struct.build_stream(make(), s)
        return s.getvalue()
    check(label + ("build_stream",),
          lambda: via_stream(W.RiffStruct),
          lambda: via_stream(OrigRiffStruct))

    raw = outcome(lambda: OrigRiffStruct.build(make()))
    if raw[0] == "ok":
        raw = raw[1]
        check(label + ("parse",),
              lambda: plain(W.RiffStruct.parse(raw)),
              lambda: plain(OrigRiffStruct.parse(raw)))
        # truncated / corrupted images
        for cut in sorted({0, 3, 4, 7, 8, 11, 12, 19, 20, len(raw) // 2,
                           max(0, len(raw) - 1)}):
            check(label + ("parse-cut", cut),
                  lambda: plain(W.RiffStruct.parse(raw[:cut])),
                  lambda: plain(OrigRiffStruct.parse(raw[:cut])))
        if len(raw) > 24:
            bad = bytearray(raw)
            bad[4] ^= 0x10          # RIFF size wrong
            bad[16] ^= 0x01         # fmt size wrong
            check(label + ("parse-badsize",),
                  lambda: plain(W.RiffStruct.parse(bytes(bad))),
                  lambda: plain(OrigRiffStruct.parse(bytes(bad))))

# 2. single chunks through WavRiffChunkStruct and WavRiffBodyStruct
single = [
    fmt_chunk(1, 44100, 16),
    fmt_chunk(2, 96000, 24),
    smpl_chunk(0, 60, 0),
    smpl_chunk(3, 127, 0x7FFFFFFF, sampler_data=b"\x01\x02\x03"),
    data_chunk([b"abcd", b"ef"], False),
    data_chunk([], False),
    # error paths: wrong payload for id, unknown ids, missing keys
    Container({"riff_id": W.WavRiffChunkType.FMT, "data": [b"xx"]}),
    Container({"riff_id": W.WavRiffChunkType.DATA,
               "data": W.WavFormatChunkContainer()}),
    Container({"riff_id": 0x12345678, "data": None}),
    Container({"riff_id": "FMT", "data": W.WavFormatChunkContainer(1, 1, 8000, 16)}),
    Container({"riff_id": "BOGUS", "data": None}),
    Container({"riff_id": W.WavRiffChunkType.SMPL, "data": None}),
    Container({"riff_id": W.WavRiffChunkType.FMT}),
    Container({"data": W.WavFormatChunkContainer()}),
    Container({}),
]
for i, c in enumerate(single):
    check(("chunk-build", i),
          lambda: W.WavRiffChunkStruct.build(c),
          lambda: OrigWavRiffChunkStruct.build(c))
    check(("body-build", i),
          lambda: W.WavRiffBodyStruct.build(Container({"chunks": [c, c]})),
          lambda: OrigWavRiffBodyStruct.build(Container({"chunks": [c, c]})))
    r = outcome(lambda: OrigWavRiffChunkStruct.build(c))
    if r[0] == "ok":
        check(("chunk-parse", i),
              lambda: plain(W.WavRiffChunkStruct.parse(r[1])),
              lambda: plain(OrigWavRiffChunkStruct.parse(r[1])))
        check(("chunk-sizeof", i),
              lambda: W.WavRiffChunkStruct.sizeof(),
              lambda: OrigWavRiffChunkStruct.sizeof())

# 3. random byte strings fed to all three parsers
for n in range(400):
    blob = bytes(rnd.getrandbits(8) for _ in range(rnd.randrange(0, 80)))
    if n % 2:
        blob = b"RIFF" + len(blob).to_bytes(4, "little") + b"WAVE" + blob
    if n % 4 == 3:
        blob = blob[:12] + rnd.choice([b"fmt ", b"smpl", b"data"]) + blob[12:]
    check(("rnd-riff", n),
          lambda: plain(W.RiffStruct.parse(blob)),
          lambda: plain(OrigRiffStruct.parse(blob)))
    check(("rnd-body", n),
          lambda: plain(W.WavRiffBodyStruct.parse(blob[8:])),
          lambda: plain(OrigWavRiffBodyStruct.parse(blob[8:])))
    check(("rnd-chunk", n),
          lambda: plain(W.WavRiffChunkStruct.parse(blob[12:])),
          lambda: plain(OrigWavRiffChunkStruct.parse(blob[12:])))

# 4. structure of the public objects is as before
check(("shape",),
      lambda: (
          [sc.name for sc in W.WavRiffChunkStruct.subcons],
          type(W.WavRiffChunkStruct.subcons[1].subcon).__name__,
          W.WavRiffChunkStruct.subcons[1].subcon.lengthfield is Int32ul,
          W.WavRiffChunkStruct.subcons[1].subcon.includelength,
          type(W.WavRiffChunkStruct.subcons[1].subcon.subcon).__name__,
          sorted(k.intvalue for k in W.WavRiffChunkStruct.subcons[1].subcon.subcon.cases),
          [sc.name for sc in W.RiffStruct.subcons],
          type(W.RiffStruct.subcons[1].subcon).__name__,
          W.RiffStruct.subcons[1].subcon.lengthfield is Int32ul,
          W.RiffStruct.subcons[1].subcon.subcon is W.WavRiffBodyStruct,
      ),
      lambda: (
          [sc.name for sc in OrigWavRiffChunkStruct.subcons],
          type(OrigWavRiffChunkStruct.subcons[1].subcon).__name__,
          OrigWavRiffChunkStruct.subcons[1].subcon.lengthfield is Int32ul,
          OrigWavRiffChunkStruct.subcons[1].subcon.includelength,
          type(OrigWavRiffChunkStruct.subcons[1].subcon.subcon).__name__,
          sorted(k.intvalue for k in OrigWavRiffChunkStruct.subcons[1].subcon.subcon.cases),
          [sc.name for sc in OrigRiffStruct.subcons],
          type(OrigRiffStruct.subcons[1].subcon).__name__,
          OrigRiffStruct.subcons[1].subcon.lengthfield is Int32ul,
          OrigRiffStruct.subcons[1].subcon.subcon is OrigWavRiffBodyStruct,
      ))

print(f"{checks} checks, {len(failures)} differences")
for f in failures[:10]:
    print("DIFF", f)
sys.exit(1 if failures else 0)
