"""Equivalence evidence for r23: InfoTree.print_tree (smpl_extract/info.py), the
rendering loop that turns the collected rows into the text `ls` prints.

The refactoring extracts the per-row formatting into the new inner function
`render_row` (early returns instead of `continue` / the re-used `result`
variable, the slice `[0:n]` spelled `[:n]`, the indent and the joined line in
named locals), merges the two writes of the "exceeded" notice into one, renames
the loop counter and returns the buffer value without a temporary.

The live InfoTree.print_tree is compared with an inline copy of the ORIGINAL
implementation on
  1. hand-written item trees under many combinations of total_width / delimiter
     / max_rows (incl. 0, negative, float, nan, None, str and objects that log
     every comparison / arithmetic applied to them), odd headers;
  2. 3000 random item trees with random rendering parameters;
  3. the items of real AKAI samples and programs, as `ls` prints them, incl.
     programs large enough to hit the 300-line cap exactly at / around it.
Exit 0 = all agree, 1 = a difference was found.
"""
import random
import sys
from collections import OrderedDict
from dataclasses import dataclass
from io import StringIO
from typing import Mapping
from typing import Sequence
from typing import Tuple

from smpl_extract.info import InfoTree


# --------------------------------------------------------------------------
# inline copy of the ORIGINAL implementation
# --------------------------------------------------------------------------
def original_print_tree(self):

    @dataclass
    class RowEntry:
        content: Tuple[str, ...] = ("", )
        depth: int = 0
        is_divider: bool = False

    row_entries: Sequence[RowEntry] = []

    def build_inner(item, depth=0, prev_key="", row_entries=row_entries):

        if isinstance(item, Sequence) or isinstance(item, Mapping):

            if isinstance(item, Sequence):
                kv_pair = (
                    ("".join((prev_key, f"[{str(i)}]")), value)
                    for i,value in enumerate(item)
                )
            else:
                kv_pair = item.items()

            for key, value in kv_pair:
                    content = [f"{key}:"]
                    if isinstance(value, str):
                        content.append(str(value))
                    elif len(value) == 0:
                        content.append("None")
                    row_entries.append(RowEntry(tuple(content), depth))
                    # expand value
                    if not isinstance(value, str):
                        build_inner(
                            value,
                            depth=(depth + 1),
                            prev_key=key,
                            row_entries=row_entries
                        )

    row_entries.append(RowEntry(tuple(self.header)))
    row_entries.append(RowEntry(is_divider=True))  # divider
    build_inner(self.items)  # fill row_entries

    str_buffer = StringIO(newline="\n")
    # print tree
    for i, row in enumerate(row_entries):
        if i > self.max_rows:
            str_buffer.write("\n")
            str_buffer.write(f"(...) exceeded {self.max_rows} lines\n")
            break
        if row.is_divider:
            result = "-" * self.total_width
            str_buffer.write(result + "\n")
            continue

        column_values = ((" ", ) * row.depth) + row.content
        result = self.delimiter.join(column_values)
        if len(result) > self.total_width:
            result = result[0:self.total_width-3] + "..."
        str_buffer.write(result + "\n")

    result = str_buffer.getvalue()
    return result


# --------------------------------------------------------------------------
# helpers
# --------------------------------------------------------------------------
class StrSub(str):
    """str subclass with its own __str__ (exercises the str(value) call)."""
    def __str__(self):
        return "<<" + str.__str__(self) + ">>"


class TraceSeq(Sequence):
    """Sequence that records every access (order of reads must not change)."""
    def __init__(self, data, log):
        self.data = data
        self.log = log
    def __len__(self):
        self.log.append(("len", id(self.data)))
        return len(self.data)
    def __getitem__(self, i):
        self.log.append(("get", id(self.data), i))
        return self.data[i]


def outcome(fn, tree):
    try:
        return ("ok", fn(tree))
    except Exception as e:  # noqa
        return ("exc", type(e).__name__, str(e))


failures = 0
checked = 0


def check(header, items, **kwargs):
    global failures, checked
    checked += 1
    tree = InfoTree(header, items, **kwargs)
    got = outcome(lambda t: t.print_tree(), tree)
    want = outcome(original_print_tree, tree)
    if got != want:
        failures += 1
        if failures <= 5:
            print("MISMATCH for items=%r kwargs=%r" % (items, kwargs))
            print(" got :", repr(got)[:400])
            print(" want:", repr(want)[:400])
    # to_string goes through the same code
    got2 = outcome(lambda t: t.to_string(), tree)
    if got2 != want:
        failures += 1


def random_key(rng):
    return rng.choice([
        "a", "loop_end", "sample_name", "k%d" % rng.randrange(100), "",
        "x" * rng.randrange(1, 40), "velocity_zones", "tune_cents"
    ])


def random_item(rng, depth=0):
    r = rng.random()
    if depth > 4 or r < 0.45:
        return rng.choice([
            "", "0", "44100", "-12", "True", "SNARE 01    ", "C#4",
            "y" * rng.randrange(0, 120), StrSub("sub"),
        ])
    if r < 0.60:
        return tuple(random_item(rng, depth + 1)
                     for _ in range(rng.randrange(0, 5)))
    if r < 0.70:
        return [random_item(rng, depth + 1) for _ in range(rng.randrange(0, 4))]
    if r < 0.95:
        d = OrderedDict() if rng.random() < 0.3 else {}
        for _ in range(rng.randrange(0, 6)):
            d[random_key(rng)] = random_item(rng, depth + 1)
        return d
    return rng.choice([(), {}, []])


# --------------------------------------------------------------------------
# hand-written edge cases
# --------------------------------------------------------------------------
HEADER = ("NAME", "  ", "S1000 Sample")
edge_items = [
    {}, (), [], "", "abc", None, 5, 3.5, object(), b"bytes", bytearray(b"ab"),
    {"a": "1"}, {"a": ""}, {"a": ()}, {"a": {}}, {"a": []},
    {"a": ("1", "2")}, {"a": ("1", ("2", "3"), {"b": "4"})},
    {"a": {"b": {"c": {"d": {"e": "deep"}}}}},
    ("x", "y"), (("x", ), ("y", ())), [{"k": "v"}, {"k": ("v", "w")}],
    {"loops": ({"loop_end": "10", "loop_duration": "5"},) * 8},
    {"k": "v" * 200}, {"k" * 100: "v"}, {"k": {"j" * 90: "v"}},
    {1: "int key"}, {1: ("nested under int key", )}, {None: {"a": "b"}},
    {"a": 5}, {"a": None}, {"a": 1.5}, {"a": b"bytes"}, {"a": b""},
    {"a": ("ok", 5)}, {"a": range(3)}, {"a": range(0)},
    {"a": StrSub("z")}, (StrSub("z"), ), {StrSub("key"): (StrSub("z"), )},
    {"a": {"b": "c"}.keys()}, {"a": set()}, {"a": {"s"}},
    {"many": tuple(str(i) for i in range(400))},
    {"k%d" % i: "v%d" % i for i in range(298)},
    {"k%d" % i: "v%d" % i for i in range(299)},
    {"k%d" % i: "v%d" % i for i in range(300)},
    {"k%d" % i: ("v%d" % i, ) for i in range(200)},
]
for items in edge_items:
    check(HEADER, items)
    check(HEADER, items, total_width=20, delimiter="|", max_rows=3)
    check(HEADER, items, total_width=3, delimiter="", max_rows=0)
    check(["list", "header"], items, total_width=40, delimiter="  ")
check((), {"a": "b"})
check(("only", ), {"a": "b"}, max_rows=1)
check(("bad", 5), {"a": "b"})  # non-str header cell -> same exception

# order of accesses on a traced sequence
for data in [("a", "b", ("c", "d"), ()), (), (("x", ), ), ({"m": ("n", )}, "t")]:
    log_new, log_old = [], []
    def wrap(d, log):
        if isinstance(d, tuple):
            return TraceSeq(tuple(wrap(x, log) for x in d), log)
        if isinstance(d, dict):
            return {k: wrap(v, log) for k, v in d.items()}
        return d
    # ids differ between the two wrapped copies, so log positions/kinds only
    t_new = InfoTree(HEADER, {"root": wrap(data, log_new)})
    t_old = InfoTree(HEADER, {"root": wrap(data, log_old)})
    a = outcome(lambda t: t.print_tree(), t_new)
    b = outcome(original_print_tree, t_old)
    checked += 1
    strip = lambda log: [(e[0], ) + tuple(e[2:]) for e in log]
    if a != b or strip(log_new) != strip(log_old):
        failures += 1
        print("TRACE MISMATCH", data, strip(log_new), strip(log_old))

# --------------------------------------------------------------------------
# random trees
# --------------------------------------------------------------------------
rng = random.Random(20_05)
for n in range(3000):
    items = random_item(rng, 0)
    if n % 3 == 0:
        check(HEADER, items)
    elif n % 3 == 1:
        check(HEADER, items, total_width=rng.randrange(0, 60),
              delimiter=rng.choice([" ", "", "--", "\t"]),
              max_rows=rng.randrange(0, 30))
    else:
        check(HEADER, {"top": items, "more": (items, items)})

# --------------------------------------------------------------------------
# real elements: items of AKAI samples / programs as `ls` would print them
# --------------------------------------------------------------------------
from smpl_extract.akai.data_types import AkaiLoopType
from smpl_extract.akai.data_types import SampleType
from smpl_extract.akai.keygroup import Keygroup
from smpl_extract.akai.keygroup import VelocityZone
from smpl_extract.akai.program import Program
from smpl_extract.akai.sample import AkaiSample
from smpl_extract.akai.sample import LoopEntry

for st in list(SampleType):
    for lt in list(AkaiLoopType):
        loops = tuple(
            LoopEntry(rng.randrange(1000), rng.randrange(100000) + 0.5,
                      rng.randrange(10000), bool(rng.randrange(2)))
            for _ in range(rng.randrange(0, 9))
        )
        smp = AkaiSample(
            "FILE %d" % rng.randrange(100), "SAMPLE NAME", st,
            rng.choice([44100, 22050, 8000]), 2, rng.randrange(1 << 24),
            rng.randrange(1 << 20), rng.randrange(1 << 24),
            pitch_cents=rng.randrange(-50, 50), pitch_semi=rng.randrange(-50, 50),
            loop_type=lt, loop_entries=loops, _path=["img", "vol", "FILE"]
        )
        info = smp.get_info()
        assert isinstance(info, InfoTree)
        check(info.header, info.items)
        checked += 1
        if info.to_string() != original_print_tree(info):
            failures += 1

for nkg in range(0, 12):
    kgs = [
        Keygroup(
            tune_semitones=rng.randrange(-50, 50),
            velocity_zones=[
                VelocityZone(sample_name="S%d" % rng.randrange(1000),
                             low_velocity=rng.randrange(64),
                             high_velocity=64 + rng.randrange(64))
                for _ in range(rng.randrange(0, 5))
            ]
        )
        for _ in range(nkg)
    ]
    prog = Program(
        program_name="PROGRAM %d" % nkg, number_of_keygroups=nkg,
        polyphony=rng.randrange(32), keygroups=kgs, file_name="PRG",
        type_name="S1000 Program", _path=["img", "vol", "PRG"]
    )
    info = prog.get_info()
    check(info.header, info.items)
    checked += 1
    if info.to_string() != original_print_tree(info):
        failures += 1


# --------------------------------------------------------------------------
# rendering parameters: width / delimiter / row cap of every kind
# --------------------------------------------------------------------------
PLOG = []


class Cmp:
    """number-like parameter that logs how it is used"""
    def __init__(self, tag, value):
        self.tag = tag
        self.value = value
    def __repr__(self):
        return "Cmp(%r)" % (self.value, )
    def __format__(self, spec):
        PLOG.append(("format", self.tag, spec))
        return format(self.value, spec)
    def __lt__(self, o):
        PLOG.append(("lt", self.tag, o))
        return self.value < o
    def __gt__(self, o):
        PLOG.append(("gt", self.tag, o))
        return self.value > o
    def __le__(self, o):
        PLOG.append(("le", self.tag, o))
        return self.value <= o
    def __ge__(self, o):
        PLOG.append(("ge", self.tag, o))
        return self.value >= o
    def __sub__(self, o):
        PLOG.append(("sub", self.tag, o))
        return self.value - o
    def __rmul__(self, o):
        PLOG.append(("rmul", self.tag, o))
        return o * self.value
    def __index__(self):
        PLOG.append(("index", self.tag))
        return self.value


def check_logged(header, items, **kwargs):
    global failures, checked
    checked += 1
    tree = InfoTree(header, items, **kwargs)
    del PLOG[:]
    got = outcome(lambda t: t.print_tree(), tree)
    log_got = list(PLOG)
    del PLOG[:]
    want = outcome(original_print_tree, tree)
    log_want = list(PLOG)
    if got != want or log_got != log_want:
        failures += 1
        if failures <= 5:
            print("PARAM MISMATCH items=%r kwargs=%r" % (items, kwargs))
            print(" got :", repr(got)[:300], log_got[:12])
            print(" want:", repr(want)[:300], log_want[:12])


param_items = [
    {}, {"a": "1"}, {"a": ("1", "2", ("3", {"b": "4"}))},
    {"k%d" % i: "v" * i for i in range(12)},
    {"deep": {"er": {"and": {"deeper": {"still": "x" * 90}}}}},
    {"u": "\u00e4\u00f6\u00fc\u2603" * 30, "tab": "a\tb", "nl": "a\nb"},
]
widths = [80, 0, 1, 2, 3, 4, 5, 17, 1000, -1, -10, 2.5, 80.0, float("nan"),
          float("inf"), None, "80", True, Cmp("w", 30), Cmp("w", 2)]
caps = [300, 0, 1, 2, 3, 5, 13, -1, -2, -300, 2.5, 1e9, float("nan"),
        float("inf"), float("-inf"), None, "3", True, False, Cmp("m", 4),
        Cmp("m", 0)]
delims = [" ", "", " | ", "\n", "\u2502", None, 5, b" "]
for items in param_items:
    for w in widths:
        for m in caps:
            check_logged(HEADER, items, total_width=w, max_rows=m)
    for d in delims:
        for w in (80, 6, 0):
            check_logged(HEADER, items, total_width=w, delimiter=d, max_rows=4)
for header in [(), ("one", ), ["a", "b"], ("x" * 100, "y"), "string", None, 7,
               ("bad", 5), (StrSub("h"), ), iter(("it", "er"))]:
    for items in param_items[:3]:
        # an iterator header can be consumed once only: build one per side
        if not isinstance(header, (tuple, list, str)) and header is not None \
                and not isinstance(header, int):
            checked += 1
            a = outcome(lambda t: t.print_tree(), InfoTree(iter(("it", "er")), items))
            b = outcome(original_print_tree, InfoTree(iter(("it", "er")), items))
            if a != b:
                failures += 1
                print("HEADER MISMATCH", a, b)
            continue
        check_logged(header, items)
        check_logged(header, items, total_width=5, max_rows=1)

# the row cap, exactly at and around it
for n in range(290, 310):
    flat = {"k%d" % i: "v%d" % i for i in range(n)}
    check_logged(HEADER, flat)
    check_logged(HEADER, {"kg": tuple({"a": str(i)} for i in range(n // 2))})
for cap in range(0, 12):
    for n in range(0, 12):
        check_logged(HEADER, {"k%d" % i: "v" for i in range(n)}, max_rows=cap)

# whole programs as `ls` prints them, large enough to be capped
for nkg in (1, 5, 6, 7, 8, 20, 99):
    kgs = [
        Keygroup(velocity_zones=[
            VelocityZone(sample_name="S%d" % rng.randrange(1000))
            for _ in range(rng.randrange(0, 5))
        ])
        for _ in range(nkg)
    ]
    prog = Program(program_name="BIG %d" % nkg, number_of_keygroups=nkg,
                   keygroups=kgs, file_name="BIG", type_name="S3000 Program",
                   _path=["img", "vol", "BIG"])
    info = prog.get_info()
    check_logged(info.header, info.items)
    checked += 1
    if info.to_string() != original_print_tree(info):
        failures += 1

print("r23 demo: %d comparisons, %d failures" % (checked, failures))
sys.exit(1 if failures else 0)
