"""Equivalence demo for r22: smpl_extract.data_streams declarations used by the
byte-order steps - the Endianess enum (members written with explicit values
instead of enum.auto(), @enum.unique added), the StreamEncoding dataclass
decorator (redundant repr=True dropped) and StreamEncoding.is_interleaved
(result temporary inlined).

The live module is compared with the ORIGINAL data_streams.py, pasted below
as ORIGINAL_SOURCE and executed as a separate module:

  1. Endianess: member names, order, values, int behaviour, lookups by value
     and by name, str / repr / format, hashing, comparisons with ints and
     with each other, pickling, failure texts for bad lookups; the values are
     also compared with precomputed literals (LITTLE == 1, BIG == 2);
  2. StreamEncoding: dataclass parameters and fields, defaults, repr, hash,
     frozen-ness, is_interleaved / dtype / == over a grid of field values;
     DataStream.frame_size; system_byte_order;
  3. complete transcodings: the live transcoder.py source is loaded a second
     time against the ORIGINAL data_streams module and both copies transcode
     the same inputs (1..3 streams x 0..3 interleaved channels x widths
     1/2/4 x byte order per stream x destination byte order x patched host
     byte order x equal / unequal lengths with partial trailing frames);
     transcoder class, byte-order step names and all bytes must agree.

Exit 0 when everything agrees, 1 otherwise.
"""
import dataclasses
from io import BytesIO
import itertools
import pickle
import random
import sys
import types
from unittest.mock import patch

import smpl_extract.data_streams as LIVE
import smpl_extract.transcoder as T_LIVE


ORIGINAL_SOURCE = r'''
from dataclasses import dataclass
import enum
from io import IOBase
import numpy as np
import sys
from typing import cast
from typing import Dict


class IncompatibleNumberOfChannels(Exception): ...
class NoDataStream(Exception): ...


class Endianess(enum.IntEnum):
    LITTLE  = enum.auto()
    BIG     = enum.auto()


system_byte_order = Endianess.BIG if sys.byteorder == "big" \
    else Endianess.LITTLE


@dataclass(repr=True, frozen=True)
class StreamEncoding:
    endianess:                  Endianess = Endianess.LITTLE
    sample_width:               int = 1
    num_interleaved_channels:   int = 1
    is_signed:                  bool = True


    @property
    def is_interleaved(self):
        result = self.num_interleaved_channels > 1
        return result


    @property
    def dtype(self) -> np.dtype:
        if self.is_signed:
            default = np.dtype("int16")
            mapping: Dict[int, np.dtype] = {
                1:  np.dtype("int8"),
                2:  np.dtype("int16"),
                4:  np.dtype("int32"),
                8:  np.dtype("int64")
            }
        else:
            default = np.dtype("uint8")
            mapping: Dict[int, np.dtype] = {
                1:  np.dtype("uint8"),
                2:  np.dtype("uint16"),
                4:  np.dtype("uint32"),
                8:  np.dtype("uint64")
            }
        result = mapping.get(self.sample_width, default)
        return result


    def __eq__(self, other: object) -> bool:
        if not isinstance(other, StreamEncoding):
            return False
        other = cast(StreamEncoding, other)
        common_checks = (
            self.endianess == other.endianess,
            self.sample_width == other.sample_width,
            self.is_signed == other.is_signed,
            self.is_interleaved == other.is_interleaved
        )
        if not all(common_checks):
            return False
        
        if self.is_interleaved:
            if self.num_interleaved_channels != other.num_interleaved_channels:
                return False

        return True


@dataclass
class DataStream:
    stream:     IOBase
    encoding:   StreamEncoding = StreamEncoding()


    def __post_init__(self):
        enc = self.encoding
        self.frame_size = enc.num_interleaved_channels * enc.sample_width

'''


def load_original():
    module = types.ModuleType("smpl_extract_data_streams_ORIG")
    sys.modules[module.__name__] = module   # needed by dataclasses / pickle
    exec(compile(ORIGINAL_SOURCE, "data_streams_ORIG.py", "exec"),
         module.__dict__)
    return module


ORIG = load_original()


def load_transcoder_against(data_streams_module):
    # a second copy of the (live, unmodified by this refactoring)
    # transcoder.py that imports its names from the given data_streams module
    with open(T_LIVE.__file__) as f:
        source = f.read()
    module = types.ModuleType("smpl_extract_transcoder_ORIG")
    sys.modules[module.__name__] = module
    with patch.dict(sys.modules,
                    {"smpl_extract.data_streams": data_streams_module}):
        exec(compile(source, "transcoder_copy.py", "exec"), module.__dict__)
    return module


T_ORIG = load_transcoder_against(ORIG)
assert T_ORIG.StreamEncoding is ORIG.StreamEncoding
assert T_LIVE.StreamEncoding is LIVE.StreamEncoding

failures = []


def check(label, a, b):
    if a != b:
        failures.append(label)
        if len(failures) <= 10:
            print("MISMATCH", label, repr(a)[:200], repr(b)[:200])


def outcome(f, *args, **kwargs):
    try:
        return ("ok", f(*args, **kwargs))
    except Exception as e:  # noqa
        return ("exc", type(e).__name__, str(e))


def plain(x):
    # make values of the two modules comparable: enum members -> (name, int)
    if isinstance(x, (LIVE.Endianess, ORIG.Endianess)):
        return ("Endianess", x.name, int(x))
    if isinstance(x, tuple):
        return tuple(plain(y) for y in x)
    if isinstance(x, list):
        return [plain(y) for y in x]
    return x


# ------------------------------------------------------------ 1. Endianess
def enum_facts(m):
    E = m.Endianess
    facts = {}
    facts["members"] = [(x.name, x.value, int(x)) for x in E]
    facts["__members__"] = [(k, v.value) for k, v in E.__members__.items()]
    facts["len"] = len(E)
    facts["mro"] = [c.__name__ for c in E.__mro__]
    facts["is_int"] = [isinstance(x, int) for x in E]
    facts["str"] = [str(x) for x in E]
    facts["repr"] = [repr(x) for x in E]
    facts["format"] = [f"{x}|{x:d}|{x:>4}|{x!r}" for x in E]
    facts["hash"] = [hash(x) == hash(int(x)) for x in E]
    facts["bool"] = [bool(x) for x in E]
    facts["sorted"] = [x.name for x in sorted(E, reverse=True)]
    facts["arith"] = [(x + 1, x * 2, -x, x & 1, x | 4) for x in E]
    for v in (-1, 0, 1, 2, 3, True, 1.0, "1", None, "LITTLE"):
        facts["by_value %r" % (v,)] = plain(outcome(E, v))
    for name in ("LITTLE", "BIG", "little", "MIDDLE", ""):
        facts["by_name %r" % name] = plain(outcome(lambda: E[name]))
        facts["getattr %r" % name] = plain(outcome(getattr, E, name))
    for x in E:
        for other in (0, 1, 2, 3, True, 1.0, "1", None):
            facts["cmp %s %r" % (x.name, other)] = (
                x == other, x != other,
                outcome(lambda: x < other), outcome(lambda: x >= other))
        for y in E:
            facts["cmp %s %s" % (x.name, y.name)] = (
                x == y, x != y, x is y, x < y, x <= y)
        facts["pickle %s" % x.name] = plain(pickle.loads(pickle.dumps(x)))
        facts["pickle is %s" % x.name] = pickle.loads(pickle.dumps(x)) is x
        facts["dict key %s" % x.name] = {1: "one", 2: "two"}.get(x)
    facts["assign"] = outcome(setattr, E.LITTLE, "value", 5)[:2]
    facts["new member"] = outcome(setattr, E, "LITTLE", 5)[:2]
    facts["sbo"] = plain(m.system_byte_order)
    facts["sbo is member"] = m.system_byte_order is E[m.system_byte_order.name]
    return facts


def run_enum():
    live, orig = enum_facts(LIVE), enum_facts(ORIG)
    check("enum fact keys", sorted(live), sorted(orig))
    for key in orig:
        check("Endianess " + key, live.get(key), orig[key])
    # precomputed expectations
    check("LITTLE literal", (LIVE.Endianess.LITTLE.value,
                             LIVE.Endianess.BIG.value), (1, 2))
    check("member order", [x.name for x in LIVE.Endianess], ["LITTLE", "BIG"])
    check("sbo literal", LIVE.system_byte_order.name,
          "BIG" if sys.byteorder == "big" else "LITTLE")
    return len(orig) + 3


# -------------------------------------------------------- 2. StreamEncoding
def encoding_facts(m):
    S = m.StreamEncoding
    facts = {}
    params = S.__dataclass_params__
    facts["params"] = {k: getattr(params, k) for k in (
        "init", "repr", "eq", "order", "unsafe_hash", "frozen")}
    facts["fields"] = [
        (f.name, getattr(f.type, "__name__", str(f.type)), plain(f.default),
         f.init, f.repr, f.compare, f.hash)
        for f in dataclasses.fields(S)]
    facts["default repr"] = repr(S())
    facts["default astuple"] = plain(dataclasses.astuple(S()))
    facts["has __repr__"] = "__repr__" in S.__dict__
    facts["has __hash__"] = S.__dict__.get("__hash__") is not None
    facts["is_interleaved is property"] = isinstance(
        S.__dict__["is_interleaved"], property)
    facts["frozen set"] = outcome(setattr, S(), "sample_width", 3)
    facts["frozen del"] = outcome(delattr, S(), "sample_width")
    facts["frozen prop"] = outcome(setattr, S(), "is_interleaved", True)[:2]
    grid = list(itertools.product(
        list(m.Endianess), (0, 1, 2, 3, 4, 8), (-1, 0, 1, 2, 3), (True, False)))
    encs = [S(endianess=e, sample_width=w, num_interleaved_channels=c,
              is_signed=s) for e, w, c, s in grid]
    facts["repr grid"] = [repr(x) for x in encs]
    facts["interleaved grid"] = [
        (x.is_interleaved, type(x.is_interleaved).__name__) for x in encs]
    facts["dtype grid"] = [str(x.dtype) for x in encs]
    facts["hash grid"] = [
        hash(x) == hash(S(x.endianess, x.sample_width,
                          x.num_interleaved_channels, x.is_signed))
        for x in encs]
    rng = random.Random(2201)
    pairs = [(rng.randrange(len(encs)), rng.randrange(len(encs)))
             for _ in range(4000)] + [(i, i) for i in range(len(encs))]
    facts["eq pairs"] = [(encs[i] == encs[j], encs[i] != encs[j])
                         for i, j in pairs]
    facts["eq other"] = [S() == 1, S() == "x", S() != None,  # noqa
                         S() == (m.Endianess.LITTLE, 1, 1, True)]
    facts["odd interleaved"] = [
        outcome(lambda v=v: S(num_interleaved_channels=v).is_interleaved)
        for v in (1.5, 1.0, True, None, "2")]
    facts["frame_size"] = [m.DataStream(BytesIO(), x).frame_size for x in encs]
    facts["DataStream default"] = repr(m.DataStream(None).encoding)
    return facts


def run_encoding():
    live, orig = encoding_facts(LIVE), encoding_facts(ORIG)
    check("encoding fact keys", sorted(live), sorted(orig))
    for key in orig:
        check("StreamEncoding " + key, live.get(key), orig[key])
    check("repr literal", repr(LIVE.StreamEncoding()),
          "StreamEncoding(endianess=<Endianess.LITTLE: 1>, sample_width=1, "
          "num_interleaved_channels=1, is_signed=True)")
    return len(orig) + 1


# -------------------------------------------------- 3. complete transcodings
def run_transcodings():
    rng = random.Random(2202)
    n = 0
    for case in range(600):
        width = rng.choice([1, 2, 4])
        num_streams = rng.choice([0] + [1, 1, 2, 2, 3] * 5)
        base_frames = rng.choice([0, 1, 5, 100, 1500])
        specs = []
        for _ in range(num_streams):
            nch = 0 if rng.random() < 0.03 else rng.choice([1, 1, 2, 3])
            endian = rng.choice(["LITTLE", "BIG"])
            frames = base_frames if rng.random() < 0.5 \
                else rng.choice([0, 1, 3, 77, 1100])
            length = frames * max(1, nch) * width + rng.choice([0, 0, 1])
            data = bytes(rng.randrange(256) for _ in range(length))
            specs.append((nch, endian, data))
        total = sum(max(1, s[0]) for s in specs)
        dest_endian = rng.choice(["LITTLE", "LITTLE", "BIG"])
        dest_channels = total if rng.random() < 0.95 else total + 1
        host = rng.choice(["LITTLE", "BIG"])

        def transcode(m, t):
            streams = [
                m.DataStream(BytesIO(data), m.StreamEncoding(
                    endianess=m.Endianess[endian], sample_width=width,
                    num_interleaved_channels=nch))
                for nch, endian, data in specs]
            dest = m.StreamEncoding(
                endianess=m.Endianess[dest_endian], sample_width=width,
                num_interleaved_channels=dest_channels)
            with patch.object(t, "system_byte_order", m.Endianess[host]):
                transcoder = t.make_transcoder(streams, dest)
                names = [p[0] for p in transcoder.pipeline.processes] \
                    if hasattr(transcoder, "pipeline") else None
                blocks = list(transcoder)
            return type(transcoder).__name__, names, blocks

        a = outcome(transcode, LIVE, T_LIVE)
        b = outcome(transcode, ORIG, T_ORIG)
        check(f"transcoding {case}", a, b)
        n += 1
    return n


if __name__ == "__main__":
    n1 = run_enum()
    n2 = run_encoding()
    n3 = run_transcodings()
    print(f"{n1} enum facts, {n2} encoding facts, {n3} transcodings compared; "
          f"{len(failures)} mismatches")
    sys.exit(1 if failures else 0)
