"""Equivalence demo for r2: _has_next_keygroup / _has_valid_first_keygroup
(smpl_extract/akai/program.py), the predicates steering the keygroup chain.

1. the two predicates are compared with inline copies of the ORIGINAL ones on
   many contexts (including missing keys -> same exception);
2. ProgramParser from the tree is compared with a reference parser assembled
   here from the ORIGINAL predicates, on random program images with linked
   keygroup chains; parsed result, exception and the exact sequence of stream
   operations must agree.
"""
import io
import random
import struct
import sys

from construct.core import Computed, FocusedSeq, If, Seek, Struct
from construct.expr import this
from construct.lib.containers import Container

from smpl_extract.akai import program as P
from smpl_extract.akai.keygroup import KeygroupAdapter, KeygroupConstruct


# ---- verbatim copies of the ORIGINAL predicates -------------------------
def orig_has_next_keygroup(this)->bool:
    result = this.keygroup_raw.next_keygroup_address > 0 \
                and this._index < this._.header.number_of_keygroups - 1
    return result


def orig_has_valid_first_keygroup(this)->bool:
    result = (this.header.first_keygroup_address > 0 
        and this.header.number_of_keygroups > 0)
    return result


RefKeygroupLink = FocusedSeq(
    "keygroup",
    "keygroup_raw"  / KeygroupConstruct,
    "keygroup"      / KeygroupAdapter(Computed(this.keygroup_raw)),
    If(orig_has_next_keygroup,
        Seek(this.keygroup_raw.next_keygroup_address)
    )
)
RefProgramParser = P.ProgramAdapter(Struct(
    "header" / P.ProgramHeaderConstruct,
    If(orig_has_valid_first_keygroup,
        Seek(this.header.first_keygroup_address)
    ),
    "keygroups" / RefKeygroupLink[this.header.number_of_keygroups]
))

failures = 0


def fail(*a):
    global failures
    failures += 1
    if failures < 20:
        print("MISMATCH", *a)


def outcome(f, *a):
    try:
        r = f(*a)
        return ("ok", type(r), r)
    except Exception as e:
        return ("exc", type(e), str(e))


# ---- 1. predicates ---------------------------------------------------------
VALS = [-2, -1, 0, 1, 2, 3, 149, 150, 255, 65535]
n_pred = 0
for addr in VALS:
    for idx in [0, 1, 2, 3, 254, 255]:
        for nk in [0, 1, 2, 3, 4, 255]:
            ctx = Container(
                keygroup_raw=Container(next_keygroup_address=addr),
                _index=idx,
                _=Container(header=Container(number_of_keygroups=nk)),
            )
            if outcome(P._has_next_keygroup, ctx) != outcome(orig_has_next_keygroup, ctx):
                fail("has_next", addr, idx, nk)
            n_pred += 1
for addr in VALS:
    for nk in VALS:
        ctx = Container(header=Container(first_keygroup_address=addr, number_of_keygroups=nk))
        if outcome(P._has_valid_first_keygroup, ctx) != outcome(orig_has_valid_first_keygroup, ctx):
            fail("has_first", addr, nk)
        n_pred += 1
# contexts with missing members: the same exception must surface
broken = [
    Container(),
    Container(keygroup_raw=Container()),
    Container(keygroup_raw=Container(next_keygroup_address=5)),
    Container(keygroup_raw=Container(next_keygroup_address=5), _index=0),
    Container(keygroup_raw=Container(next_keygroup_address=5), _=Container()),
    Container(keygroup_raw=Container(next_keygroup_address=5), _index=0, _=Container(header=Container())),
    Container(keygroup_raw=Container(next_keygroup_address=0)),
    Container(header=Container()),
    Container(header=Container(first_keygroup_address=1)),
    Container(header=Container(first_keygroup_address=0)),
    Container(header=Container(number_of_keygroups=1)),
]
for ctx in broken:
    if outcome(P._has_next_keygroup, ctx) != outcome(orig_has_next_keygroup, ctx):
        fail("has_next broken", ctx)
    if outcome(P._has_valid_first_keygroup, ctx) != outcome(orig_has_valid_first_keygroup, ctx):
        fail("has_first broken", ctx)
    n_pred += 2


# ---- 2. whole program images ---------------------------------------------
class LoggingStream(io.BytesIO):
    def __init__(self, data):
        super().__init__(data)
        self.log = []

    def read(self, *a):
        r = super().read(*a)
        self.log.append(("read", a, len(r)))
        return r

    def seek(self, *a):
        r = super().seek(*a)
        self.log.append(("seek", a, r))
        return r

    def tell(self):
        r = super().tell()
        self.log.append(("tell", r))
        return r


rng = random.Random(2020)


def akai_name(empty=False):
    if empty:
        return bytes([0x0A]) * 12
    n = rng.randrange(1, 13)
    return bytes(rng.randrange(0, 0x29) for _ in range(n - 1)) + bytes([rng.randrange(0, 0x0A)]) \
        + bytes([0x0A]) * (12 - n)


def make_header(first_addr, num_kg):
    b = bytes([rng.randrange(256)])
    b += struct.pack("<H", first_addr)
    b += akai_name()
    b += bytes([rng.randrange(256), rng.randrange(256), rng.randrange(256), rng.randrange(4)])
    b += bytes(rng.randrange(256) for _ in range(23))     # low_key .. keygroup_crossfade
    b += bytes([num_kg])
    b += bytes(rng.randrange(256) for _ in range(1 + 12 + 5))
    b += bytes([rng.randrange(2)])                        # voice_reassign
    b += bytes(rng.randrange(256) for _ in range(10))
    assert len(b) == 72, len(b)
    return b


def make_keygroup(next_addr, active):
    b = bytes([rng.randrange(256)]) + struct.pack("<H", next_addr)
    b += bytes(rng.randrange(256) for _ in range(28))
    b += bytes([4]) + bytes(rng.randrange(256) for _ in range(2))
    flags = [True] * active + [False] * (4 - active)
    rng.shuffle(flags)
    for fl in flags:
        b += akai_name(empty=not fl)
        b += bytes(rng.randrange(256) for _ in range(12))
    b += bytes(rng.randrange(256) for _ in range(2 + 4 + 4 + 8 + 2))
    assert len(b) == 150, len(b)
    return b


def make_image():
    num_kg = rng.choice([0, 1, 1, 2, 3, 4, 6])
    size = 72 + 150 * (num_kg + 3) + rng.randrange(0, 64)
    img = bytearray(rng.randrange(256) for _ in range(size))
    addrs = []
    # non-overlapping keygroup addresses at arbitrary places
    for _ in range(num_kg):
        for _try in range(200):
            a = rng.randrange(72, size - 150)
            if all(abs(a - o) >= 150 for o in addrs):
                addrs.append(a)
                break
    mode = rng.randrange(10)
    first = addrs[0] if addrs else rng.choice([0, 72, 150])
    if mode == 0:
        first = 0                      # no seek: keygroups follow the header
    declared = len(addrs)
    if mode == 1:
        declared = len(addrs) + 1      # header promises one more than linked
    img[0:72] = make_header(first, declared)
    for i, a in enumerate(addrs):
        nxt = addrs[i + 1] if i + 1 < len(addrs) else rng.choice([0, 0, 150, 9, size + 500])
        if mode == 2 and i == 0:
            nxt = 0                    # early chain terminator
        if mode == 3 and i == 0:
            nxt = size + 1000          # link beyond the end of the image
        img[a:a + 150] = make_keygroup(nxt, rng.randrange(0, 5))
    if mode == 0 and addrs:
        img[72:72 + 150] = make_keygroup(addrs[1] if len(addrs) > 1 else 0, rng.randrange(0, 5))
    if mode == 4:
        img = img[:rng.randrange(0, len(img))]   # truncated image
    return bytes(img)


def run(parser, data):
    s = LoggingStream(data)
    try:
        r = parser.parse_stream(s)
        return ("ok", r, s.log)
    except Exception as e:
        return ("exc", type(e), str(e), s.log)


n_img = 0
n_ok = 0
for _ in range(1500):
    data = make_image()
    got = run(P.ProgramParser, data)
    want = run(RefProgramParser, data)
    n_img += 1
    n_ok += got[0] == "ok"
    if got != want:
        fail("image", n_img, got[:2], want[:2])

print("predicate cases:", n_pred, "images:", n_img, "parsed ok:", n_ok, "failures:", failures)
sys.exit(1 if failures else 0)
