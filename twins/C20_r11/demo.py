"""Equivalence evidence for r11: PaddedGeneral._parse
(smpl_extract/util/constructs.py), which no longer wraps the array of slots in
construct's Filter adapter but parses the array and filters the slots itself.

1. unit level: many PaddedGeneral instances (different subcons, int / callable /
   negative / non-int counts, default and custom predicates incl. ones that
   log their calls, return non-bool values or raise, short streams) are parsed
   by the live _parse and by an inline copy of the ORIGINAL _parse; results,
   result types, exceptions (type + message incl. path), stream position, the
   read() calls on the stream and the predicate call log are compared;
2. system level: random AKAI keygroups and whole program files (0..4 active
   velocity zones, arbitrary next-keygroup links) are parsed with the live
   class and again with the ORIGINAL _parse patched into the class; the parsed
   objects and the text `ls` prints are compared.
Exit 0 = all agree, 1 = a difference was found.
"""
import io
import random
import struct
import sys
from dataclasses import fields

from construct.core import Array
from construct.core import Byte
from construct.core import Bytes
from construct.core import Computed
from construct.core import evaluate
from construct.core import Filter
from construct.core import Int16ul
from construct.core import Int8sl
from construct.core import PaddedString
from construct.core import Struct
from construct.expr import this
from construct.lib.containers import Container

from smpl_extract.akai.keygroup import KeygroupAdapter
from smpl_extract.akai.keygroup import KeygroupConstruct
from smpl_extract.akai.keygroup import VelocityZoneConstruct
from smpl_extract.akai.keygroup import VelocityZoneContainer
from smpl_extract.akai.program import ProgramParser
from smpl_extract.util.constructs import PaddedGeneral


# --------------------------------------------------------------------------
# inline copy of the ORIGINAL implementation
# --------------------------------------------------------------------------
def original_parse(self, stream, context, path):
    desired_count = evaluate(self.count, context)
    filtered_construct = Filter(
        self.predicate,
        Array(desired_count, self.subcon)
    )
    contents = filtered_construct._parse(stream, context, path)  # type: ignore
    result = contents
    return result


class OriginalPaddedGeneral(PaddedGeneral):
    _parse = original_parse


LIVE_PARSE = PaddedGeneral.__dict__["_parse"]

failures = 0
checked = 0


def fail(*msg):
    global failures
    failures += 1
    if failures <= 5:
        print("MISMATCH", *[repr(m)[:400] for m in msg])


class TracingStream(io.BytesIO):
    def __init__(self, data):
        super().__init__(data)
        self.trace = []

    def read(self, *a):
        r = super().read(*a)
        self.trace.append(("read", a, len(r)))
        return r

    def seek(self, *a):
        r = super().seek(*a)
        self.trace.append(("seek", a, r))
        return r


def strip(obj):
    if isinstance(obj, dict):
        return ("dict:" + type(obj).__name__,
                [(k, strip(v)) for k, v in obj.items() if k != "_io"])
    if isinstance(obj, (list, tuple)):
        return ("seq:" + type(obj).__name__, [strip(v) for v in obj])
    return (type(obj).__name__, repr(obj))


# --------------------------------------------------------------------------
# 1. unit level
# --------------------------------------------------------------------------
LOG = []


def pred_nonzero(obj, ctx):
    LOG.append(("nonzero", strip(obj), sorted(k for k in ctx.keys() if k != "_io")))
    return obj != 0


def pred_name(obj, ctx):
    LOG.append(("name", strip(obj)))
    return len(obj.name) > 0


def pred_truthy_values(obj, ctx):
    LOG.append(("truthy", strip(obj)))
    return [None, 0, "", "x", [], [0], 2.5, object()][obj % 8]


def pred_raises(obj, ctx):
    LOG.append(("raises", strip(obj)))
    if obj == 7:
        raise KeyError("seven")
    return True


def pred_uses_context(obj, ctx):
    LOG.append(("ctx", strip(obj), ctx.get("limit"), ctx.get("_index")))
    return obj < ctx.get("limit", 100)


Slot = Struct("name" / PaddedString(4, "ascii"), "value" / Int16ul,
              "_hidden" / Computed(this.value * 2))
SlotPattern = Container(name="", value=0)

subcon_specs = [
    ("Byte", Byte, 0, [None, pred_nonzero, pred_truthy_values, pred_raises,
                       pred_uses_context]),
    ("Int8sl", Int8sl, -1, [None, pred_nonzero, pred_uses_context]),
    ("Bytes2", Bytes(2), b"\0\0", [None, pred_nonzero]),
    ("Slot", Slot, SlotPattern, [None, pred_name]),
    ("Zone", VelocityZoneConstruct, VelocityZoneContainer(),
     [None, lambda x, y: len(x.sample_name) > 0]),
]
counts = [0, 1, 2, 3, 4, 7, -1, -3, 2.0, "3", None, True,
          lambda ctx: ctx["n"], lambda ctx: ctx.missing, this.n, this.n - 1]

rng = random.Random(11)


def make_data(name, rng):
    n = rng.choice([0, 1, 3, 8, 24, 96, 200])
    if name == "Slot":
        out = b""
        for _ in range(n // 6 + 1):
            nm = rng.choice([b"\0\0\0\0", b"AB\0\0", b"WXYZ", b"\xff\0\0\0"])
            out += nm + struct.pack("<H", rng.choice([0, 1, 65535]))
        return out[:n] if rng.random() < 0.3 else out
    if name == "Zone":
        out = b""
        for _ in range(rng.randrange(0, 5)):
            nm = rng.choice([bytes([0x0A] * 12),
                             bytes(rng.randrange(0, 0x29) for _ in range(12))])
            out += nm + bytes(rng.randrange(256) for _ in range(12))
        return out + bytes(rng.randrange(0, 30))
    return bytes(rng.choice([0, 0, 7, 255, rng.randrange(256)]) for _ in range(n))


def unit_run(cls, spec, count, pred, data, ctx_kw):
    del LOG[:]
    name, subcon, pattern, _ = spec
    try:
        con = cls(count, subcon, pattern, pred)
    except Exception as e:  # noqa
        return ("init-exc", type(e).__name__, str(e))
    stream = TracingStream(data)
    try:
        res = con.parse_stream(stream, **ctx_kw)
        out = ("ok", type(res).__name__, strip(res))
    except Exception as e:  # noqa
        out = ("exc", type(e).__name__, str(e))
    return out, stream.tell(), stream.trace, list(LOG)


unit_ok = 0
for spec in subcon_specs:
    for count in counts:
        for pred in spec[3]:
            for rep in range(12):
                data = make_data(spec[0], rng)
                ctx_kw = dict(n=rng.choice([0, 1, 2, 4, 5, -2]),
                              limit=rng.choice([0, 5, 200]))
                if rep == 0:
                    ctx_kw = {}
                checked += 1
                a = unit_run(PaddedGeneral, spec, count, pred, data, ctx_kw)
                b = unit_run(OriginalPaddedGeneral, spec, count, pred, data, ctx_kw)
                if a != b:
                    fail("unit", spec[0], count, pred, data, a, b)
                unit_ok += a[0][0] == "ok"

# embedded in a Struct, as in the keygroup (count from a sibling, nested path)
Outer_live = Struct("n" / Byte,
                    "slots" / PaddedGeneral(this.n, Slot, SlotPattern,
                                            lambda x, y: len(x.name) > 0),
                    "kept" / Computed(lambda ctx: len(ctx.slots)),
                    "after" / Byte)
Outer_orig = Struct("n" / Byte,
                    "slots" / OriginalPaddedGeneral(this.n, Slot, SlotPattern,
                                                    lambda x, y: len(x.name) > 0),
                    "kept" / Computed(lambda ctx: len(ctx.slots)),
                    "after" / Byte)
for _ in range(600):
    n = rng.randrange(0, 6)
    data = bytes([n]) + make_data("Slot", rng) + bytes(rng.randrange(0, 3))
    res = []
    for con in (Outer_live, Outer_orig):
        stream = TracingStream(data)
        try:
            out = ("ok", strip(con.parse_stream(stream)))
        except Exception as e:  # noqa
            out = ("exc", type(e).__name__, str(e))
        res.append((out, stream.tell(), stream.trace))
    checked += 1
    unit_ok += res[0][0][0] == "ok"
    if res[0] != res[1]:
        fail("outer", data, res[0], res[1])

if unit_ok < 1000:
    fail("too few successful unit parses", unit_ok)


# --------------------------------------------------------------------------
# 2. system level: keygroups and programs, live vs ORIGINAL patched in
# --------------------------------------------------------------------------
DEFAULT_KEYGROUP = bytes.fromhex(
    "029600187f0000630c000000001e632d000000000032632d0000000000000104ffff"
    + "0a0a0a0a0a0a0a0a0a0a0a0a007f000000000000ffff2c01" * 4
    + "0000010100000000000000000000000000000000"
)
assert len(DEFAULT_KEYGROUP) == 150


def akai_name(rng, allow_empty=True):
    if allow_empty and rng.random() < 0.3:
        return bytes([0x0A] * 12)
    n = rng.randrange(1, 13)
    return bytes(rng.randrange(0, 0x29) for _ in range(n)) + bytes([0x0A] * (12 - n))


def make_keygroup(rng, next_address):
    kg = bytearray(DEFAULT_KEYGROUP)
    kg[0] = rng.randrange(256)
    kg[1:3] = struct.pack("<H", next_address)
    lo = rng.randrange(0x18, 0x80)
    kg[3] = lo
    kg[4] = rng.randrange(0x18, 0x80)
    for off in range(5, 30):
        kg[off] = rng.randrange(256)
    kg[30] = rng.randrange(2)
    if rng.random() < 0.03:
        kg[31] = rng.randrange(0, 6)  # unusual zone count
    for z in range(4):
        base = 34 + 24 * z
        kg[base:base + 12] = akai_name(rng)
        kg[base + 12] = rng.randrange(128)
        kg[base + 13] = rng.randrange(128)
        for off in range(14, 19):
            kg[base + off] = rng.randrange(256)
        kg[base + 19] = rng.choice([0, 1, 2, 3, 4, 4, 0, 7])
    kg[130] = rng.randrange(256)
    kg[131] = rng.randrange(2)
    for off in range(132, 136):
        kg[off] = rng.randrange(2)
    for off in range(136, 149):
        kg[off] = rng.randrange(256)
    return bytes(kg)


def make_program(rng):
    num = rng.choice([0, 1, 1, 2, 3, 5, 8, rng.randrange(0, 12)])
    # place the keygroups at arbitrary, non-overlapping addresses
    slots = list(range(rng.randrange(4, 8) + num))
    rng.shuffle(slots)
    gap = rng.randrange(0, 30)
    addresses = [72 + gap + 150 * s for s in slots[:max(num, 1)]]
    first = addresses[0]
    if rng.random() < 0.05:
        first = 0  # "no valid first keygroup": parsing continues at offset 72
    declared = num
    if rng.random() < 0.05:
        declared = num + rng.randrange(1, 3)  # more declared than linked

    hdr = bytearray(72)
    hdr[0] = rng.randrange(256)
    hdr[1:3] = struct.pack("<H", first)
    hdr[3:15] = akai_name(rng)
    for off in range(15, 72):
        hdr[off] = rng.randrange(256)
    hdr[18] = rng.choice([0, 1, 2, 3, 1, 2, 9])        # priority enum
    hdr[19] = rng.randrange(0x18, 0x80)
    hdr[20] = rng.randrange(0x18, 0x80)
    hdr[61] = rng.choice([0, 1, 0, 1, 0, 1, 5])        # voice reassign enum
    hdr[42] = declared

    size = 72 + gap + 150 * (len(slots) + 1)
    image = bytearray(rng.randrange(256) for _ in range(size))
    image[0:72] = hdr
    for i in range(num):
        if i + 1 < num:
            nxt = addresses[i + 1]
        else:
            nxt = rng.choice([0, addresses[0], rng.randrange(65536)])
        if rng.random() < 0.02:
            nxt = 0  # chain broken early
        image[addresses[i]:addresses[i] + 150] = make_keygroup(rng, nxt)
    return bytes(image)




def describe_program(program):
    out = {}
    for f in fields(program):
        out[f.name] = strip(getattr(program, f.name))
    out["items"] = program.itemize()
    out["info"] = program.get_info().to_string()
    return out


def describe_keygroup(kg):
    return {f.name: strip(getattr(kg, f.name)) for f in fields(kg)}


def sys_run(parser, blob, describe, **ctx):
    stream = TracingStream(blob)
    try:
        out = ("ok", describe(parser.parse_stream(stream, **ctx)))
    except Exception as e:  # noqa
        out = ("exc", type(e).__name__, str(e))
    return out, stream.tell(), stream.trace


def with_original(fn):
    PaddedGeneral._parse = original_parse
    try:
        return fn()
    finally:
        PaddedGeneral._parse = LIVE_PARSE


KeygroupParser = KeygroupAdapter(KeygroupConstruct)
sys_ok = 0
for n in range(700):
    blob = make_keygroup(rng, rng.randrange(65536))
    if n % 20 == 5:
        blob = blob[:rng.randrange(0, 150)]
    for parser, describe in ((KeygroupConstruct, strip),
                             (KeygroupParser, describe_keygroup)):
        checked += 1
        a = sys_run(parser, blob, describe)
        b = with_original(lambda: sys_run(parser, blob, describe))
        if a != b:
            fail("keygroup", n, a, b)
        sys_ok += a[0][0] == "ok"
for n in range(500):
    blob = make_program(rng)
    checked += 1
    a = sys_run(ProgramParser, blob, describe_program, _elem_name="PRG")
    b = with_original(lambda: sys_run(ProgramParser, blob, describe_program,
                                      _elem_name="PRG"))
    if a != b:
        fail("program", n, a, b)
    sys_ok += a[0][0] == "ok"
if sys_ok < 1000:
    fail("too few successful system parses", sys_ok)

assert PaddedGeneral.__dict__["_parse"] is LIVE_PARSE
print("r11 demo: %d comparisons (%d unit / %d system parses ok), %d failures"
      % (checked, unit_ok, sys_ok, failures))
sys.exit(1 if failures else 0)
