"""Equivalence demo for the ElementTypes declaration (C06, r19).

ElementTypes.DirectoryEntry is the discriminator the sibling de-duplication
(Image.sanitize_names_general: `is_file = element.type_id !=
ElementTypes.DirectoryEntry`) uses to decide how a name is sanitised, and
ElementTypes.SampleEntry the one Traversable.export_samples dispatches on.

 1. The live enum is compared member by member against an inline copy of the
    ORIGINAL declaration (enum.auto()) and against precomputed values: names,
    order, values, int/str/repr/format/hash, look-up by value and by name,
    comparisons across the two enums and with plain ints, invalid look-ups,
    pickle round trip, JSON, use as dict key / list index.
 2. Image.make_safe_names_routine / make_export_names_routine (live) are run
    on random sibling lists with hostile names and mixed type ids and
    compared against an inline copy of the ORIGINAL sanitize_names_general
    whose `is_file` test uses the ORIGINAL enum.
 3. Traversable.export_samples (live) is compared against an inline copy
    using the ORIGINAL enum on random trees, with a logging export manager.
 4. The type_id declared by the concrete element classes has the
    precomputed integer value.
Exit status 0 when everything agrees, 1 otherwise.
"""
import enum
import json
import pickle
import random
import sys

from smpl_extract.base import Element
from smpl_extract.base import ElementTypes
from smpl_extract.structural import CouldNotDetermineName
from smpl_extract.structural import Image
from smpl_extract.structural import Traversable


# --------------------------------------------------------------------------
# ORIGINAL declaration (verbatim)
# --------------------------------------------------------------------------
def _original():
    class ElementTypes(enum.IntEnum):
        DirectoryEntry = enum.auto()
        SampleEntry = enum.auto()
        ProgramEntry = enum.auto()
        SampleGeneralized = enum.auto()
        ProgramGeneralized = enum.auto()
    return ElementTypes


OriginalElementTypes = _original()

EXPECTED = [
    ("DirectoryEntry", 1), ("SampleEntry", 2), ("ProgramEntry", 3),
    ("SampleGeneralized", 4), ("ProgramGeneralized", 5),
]

FAILURES = []
COUNT = [0]


def check(label, left, right):
    COUNT[0] += 1
    if left != right:
        FAILURES.append(label)
        print("MISMATCH", label)
        print("   original:", repr(left)[:400])
        print("   live    :", repr(right)[:400])


def outcome(func, *args):
    try:
        return ("ok", func(*args))
    except BaseException as error:  # noqa
        return ("exc", type(error).__name__, str(error))


# --------------------------------------------------------------------------
# part one: the enum itself
# --------------------------------------------------------------------------
def surface(cls):
    members = list(cls)
    out = {
        "names": [m.name for m in members],
        "values": [m.value for m in members],
        "ints": [int(m) for m in members],
        "str": [str(m) for m in members],
        "repr": [repr(m) for m in members],
        "format": [format(m) + "|" + f"{m:03d}" + "|" + "%d" % m for m in members],
        "hash": [hash(m) for m in members],
        "len": len(cls),
        "members": list(cls.__members__.keys()),
        "aliases": [k for k, v in cls.__members__.items() if v.name != k],
        "by_value": [cls(v).name for v in range(1, 6)],
        "by_name": [cls[n].value for n, _ in EXPECTED],
        "bad_value": [outcome(cls, v)[:2] for v in (0, 6, -1, "1", None, 1.5)],
        "bad_name": [outcome(cls.__getitem__, n)[:2] for n in ("", "directoryentry", "X")],
        "float_lookup": outcome(lambda: cls(2.0).name),
        "bool_lookup": outcome(lambda: cls(True).name),
        "isint": [isinstance(m, int) for m in members],
        "mro": [c.__name__ for c in cls.__mro__],
        "json": json.dumps(members),
        "sorted": [m.name for m in sorted(members, reverse=True)],
        "index": [["a", "b", "c", "d", "e", "f"][m] for m in members],
        "arith": [(m + 1, m * 2, -m, m & 1, m | 8) for m in members],
        "bool": [bool(m) for m in members],
        "dictkey": {m: m.name for m in members} == {v: n for n, v in EXPECTED},
        "contains": [v in cls for v in (0, 1, 5, 6)],
        "unique": outcome(lambda: enum.unique(cls) is cls),
    }
    return out


def part_one():
    left = surface(OriginalElementTypes)
    right = surface(ElementTypes)
    for key in left:
        check(f"p1 surface {key}", left[key], right[key])
    check("p1 expected names/values", EXPECTED, [(m.name, m.value) for m in ElementTypes])
    check("p1 class name", "ElementTypes", ElementTypes.__name__)
    check("p1 module", "smpl_extract.base", ElementTypes.__module__)
    for name, value in EXPECTED:
        original = OriginalElementTypes[name]
        live = ElementTypes[name]
        for other_name, other_value in EXPECTED:
            other_original = OriginalElementTypes[other_name]
            other_live = ElementTypes[other_name]
            for op in ("__eq__", "__ne__", "__lt__", "__le__", "__gt__", "__ge__"):
                expected = getattr(original, op)(other_original)
                check(f"p1 {name} {op} {other_name} live/live", expected, getattr(live, op)(other_live))
                check(f"p1 {name} {op} {other_name} live/orig", expected, getattr(live, op)(other_original))
                check(f"p1 {name} {op} {other_name} orig/live", expected, getattr(original, op)(other_live))
                check(f"p1 {name} {op} {other_value} live/int", expected, getattr(live, op)(other_value))
        check(f"p1 pickle {name}", True, pickle.loads(pickle.dumps(live)) is live)
        check(f"p1 pickle value {name}", value, pickle.loads(pickle.dumps(live)).value)
        check(f"p1 identity {name}", True, ElementTypes(value) is live)


# --------------------------------------------------------------------------
# part two: sibling de-duplication
# --------------------------------------------------------------------------
def original_sanitize_names_general(self, elements, f_sanitize, f_set):
    candidate_names = {}
    for element in elements:
        is_file = element.type_id != OriginalElementTypes.DirectoryEntry
        candidate_name = f_sanitize(element.name, is_file)

        if candidate_name not in candidate_names.keys():
            candidate_names[candidate_name] = []
        candidate_names[candidate_name].append(element)

    assigned_names = set()  # as in the tree after the numbering fix
    for name, subelements in candidate_names.items():
        if len(subelements) == 1:
            element = subelements[0]
            f_set(element, name)
            continue

        i = 0
        for element in subelements:
            i += 1
            if i > 1:
                next_name = self._add_count_to_name(name, i)
                j = 0
                while (next_name in candidate_names.keys() or next_name in assigned_names):
                    i += 1
                    j += 1
                    next_name = self._add_count_to_name(name, i)
                    if j > len(candidate_names.keys()):
                        # This should never(?) happen
                        raise CouldNotDetermineName(
                            "Unable to determine proper (sanitized) "
                            f"name for {element.name}. Too many name "
                            "collisions."
                        )
            else:
                next_name = name
            f_set(element, next_name)
            assigned_names.add(next_name)

    result = elements
    return result


class Node(Element):
    type_name = "node"

    def __init__(self, name, type_id, path=None, parent=None):
        super().__init__(path, parent)
        self.name = name
        self.type_id = type_id

    def get_info(self):
        raise NotImplementedError


NAMES = [
    "KICK", "KICK", "KICK (2)", "KICK (3)", "kick", "a/b", "a\\b", "a b", "..",
    ".", "-", "x-", "x.", "x. ", "", " ", "'q'", "SN -L", "SN -R", "SN",
    "SN (2) L", "x:y", "x?y", "\x00", "träck", "-lead", "dir.", "dir-", "#1",
]

TYPE_CHOICES = [
    lambda: ElementTypes.DirectoryEntry,
    lambda: ElementTypes.SampleEntry,
    lambda: ElementTypes.ProgramEntry,
    lambda: ElementTypes.SampleGeneralized,
    lambda: ElementTypes.ProgramGeneralized,
    lambda: 1,      # plain ints behave like the members
    lambda: 2,
    lambda: OriginalElementTypes.DirectoryEntry,
    lambda: OriginalElementTypes.SampleEntry,
]


def make_siblings(spec):
    return [Node(name, TYPE_CHOICES[t](), ["A", name]) for name, t in spec]


def names_of(elements):
    return [(e.name, e.safe_name, e.export_name, e.export_path()) for e in elements]


def part_two():
    rng = random.Random(1906)
    image = Image(lambda context: [])
    for trial in range(2500):
        spec = [
            (rng.choice(NAMES), rng.randrange(len(TYPE_CHOICES)))
            for _ in range(rng.randint(0, 10))
        ]
        # live
        live_elements = make_siblings(spec)
        live = outcome(
            lambda: names_of(image.make_export_names_routine(
                image.make_safe_names_routine(live_elements)
            ))
        )
        # original
        original_elements = make_siblings(spec)

        def run_original():
            step = original_sanitize_names_general(
                image, original_elements, image.make_safe_name,
                lambda element, name: setattr(element, "_safe_name", name)
            )
            step = original_sanitize_names_general(
                image, step, image.make_export_name,
                lambda element, name: setattr(element, "_export_name", name)
            )
            return names_of(step)

        check(f"p2 {trial}", outcome(run_original), live)


# --------------------------------------------------------------------------
# part three: export dispatch
# --------------------------------------------------------------------------
class LoggingManager:
    def __init__(self):
        self.log = []

    def set_level(self, level):
        self.log.append(("set_level", level))

    def add_sample(self, sample):
        self.log.append(("add_sample", sample))

    def finish_level(self):
        self.log.append(("finish_level",))


class Leaf(Node):
    def to_generalized(self):
        return "generalized:" + self.name


def original_export_samples(self, export_manager):
    export_manager.set_level(tuple(self.path))
    children = self.children

    for child in children:
        if child.type_id == OriginalElementTypes.SampleEntry:
            sample = child.to_generalized()
            export_manager.add_sample(sample)
        elif isinstance(child, Traversable):
            original_export_samples(child, export_manager)

    export_manager.finish_level()
    return


def build_tree(rng, depth, path):
    children = []
    for index in range(rng.randint(0, 4)):
        name = "%s%d" % (rng.choice("abc"), index)
        kind = rng.randrange(len(TYPE_CHOICES) + 2)
        if kind >= len(TYPE_CHOICES) and depth < 3:
            children.append(build_tree(rng, depth + 1, path + [name]))
        else:
            type_id = TYPE_CHOICES[kind % len(TYPE_CHOICES)]()
            children.append(Leaf(name, type_id, path + [name]))
    node = Traversable(lambda context, children=children: children, path=path)
    node.name = path[-1] if path else "root"
    return node


def part_three():
    rng = random.Random(2006)
    for trial in range(400):
        tree = build_tree(rng, 0, [])
        manager_a = LoggingManager()
        manager_b = LoggingManager()
        left = outcome(original_export_samples, tree, manager_a)
        right = outcome(tree.export_samples, manager_b)
        check(f"p3 {trial}", (left, manager_a.log), (right, manager_b.log))


# --------------------------------------------------------------------------
# part four: declared type ids
# --------------------------------------------------------------------------
def part_four():
    from smpl_extract.akai.image import AkaiImageParser as AkaiImage
    from smpl_extract.akai.sample import AkaiSample
    from smpl_extract.akai.volume import Volume
    from smpl_extract.cdda.image import AudioTrack
    from smpl_extract.cdda.image import CompactDiskAudioImage
    from smpl_extract.generalized.sample import Sample
    from smpl_extract.roland.s7xx.partial_entry import PartialEntry
    from smpl_extract.roland.s7xx.performance_entry import PerformanceEntry
    from smpl_extract.structural import ProgramElement
    from smpl_extract.structural import SampleElement

    expected = [
        (AkaiImage, 1), (Volume, 1), (CompactDiskAudioImage, 1),
        (PartialEntry, 1), (PerformanceEntry, 1), (Traversable, 1), (Image, 1),
        (AkaiSample, 2), (AudioTrack, 2), (SampleElement, 2),
        (ProgramElement, 3), (Sample, 4),
    ]
    for cls, value in expected:
        check(f"p4 {cls.__name__}", (value, "ElementTypes"),
              (int(cls.type_id), type(cls.type_id).__name__))
        check(f"p4 {cls.__name__} is_file", value != 1,
              cls.type_id != OriginalElementTypes.DirectoryEntry)


def main():
    part_one()
    part_two()
    part_three()
    part_four()
    if FAILURES:
        print(f"{len(FAILURES)} of {COUNT[0]} checks differ")
        return 1
    print(f"all {COUNT[0]} checks agree")
    return 0


if __name__ == "__main__":
    sys.exit(main())
