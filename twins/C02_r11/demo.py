"""Equivalence demo for r11: smpl_extract/util/stream.py StreamReversed._read
(the stream class that implements the time reversal of mechanism 'loop mode ->
data window, reversal'; built by _get_reverse_oneshot_params and
_get_reverse_loop_params).  The chain of rebinding temporaries
(frombuffer / reshape / flip / flatten / tobytes) was collapsed into a chained
expression using equivalent numpy spellings.

A subclass carrying an inline copy of the ORIGINAL _read is compared with the
working-tree class on
  (1) direct _read calls: random buffers, sample widths 1..6, sizes that are /
      are not multiples of the width, short reads from the substream, zero
      sizes, odd sample_width values (0, negative, float, None) and odd raw
      values (None, str, bytearray, memoryview) - results and exception
      type+message are compared,
  (2) public seek()/read()/readall() sequences over StreamOffset windows as the
      Roland reverse loop modes build them (position bookkeeping included),
  (3) SampleFile.to_generalized() for the two reverse loop modes over a real
      RolandFile cluster chain, with the original _read patched in vs not,
  (4) precomputed expectations.
Exit 0 when everything agrees, 1 otherwise.
"""
import io
import random
import sys

import numpy as np

from smpl_extract.util import stream as ustream
from smpl_extract.util.stream import StreamOffset
from smpl_extract.util.stream import StreamReversed
from smpl_extract.util.stream import StreamWrapper


# ---------------------------------------------------------------- original --
def original_read(self, size: int) -> bytes:
    raw = StreamWrapper._read(self, size)      # == super()._read(size)

    arr = np.frombuffer(raw, np.dtype("int8"))
    num_cols = self.sample_width
    num_rows = size // self.sample_width

    arr = np.reshape(arr, [num_rows, num_cols])
    arr = np.flip(arr, 0)
    arr = arr.flatten(order="C")

    result = arr.tobytes()
    return result


class OriginalStreamReversed(StreamReversed):
    _read = original_read


failures = 0
checks = 0


def run(f):
    try:
        r = f()
        return ("ok", type(r).__name__, r)
    except BaseException as e:  # noqa
        return ("exc", type(e).__name__, str(e))


def check(label, a, b):
    global failures, checks
    checks += 1
    if a != b:
        failures += 1
        print("MISMATCH", label, str(a)[:120], str(b)[:120])


class FakeSub(io.IOBase):
    """substream whose read() returns a prepared object"""
    def __init__(self, value):
        self.value = value

    def read(self, size=-1):
        return self.value

    def tell(self):
        return 0

    def seek(self, *a):
        return 0


rng = random.Random(11)

# (1) direct _read calls
for trial in range(1500):
    width = rng.choice((1, 1, 2, 2, 2, 3, 4, 5, 6))
    n_frames = rng.randint(0, 50)
    buf = bytes(rng.getrandbits(8) for _ in range(n_frames * width
                                                   + rng.choice((0, 0, 1, 2))))
    size = rng.choice((n_frames * width, n_frames * width, len(buf),
                       rng.randint(0, len(buf) + 4), 0))
    start = rng.choice((0, 0, rng.randint(0, max(0, len(buf)))))
    outs = []
    for cls in (OriginalStreamReversed, StreamReversed):
        sub = io.BytesIO(buf)
        sub.seek(start)
        s = cls(sub, len(buf), sample_width=width)
        outs.append((run(lambda: s._read(size)), sub.tell(), s.position,
                     s.true_size))
    check(f"direct w={width} size={size}", *outs)

for width in (0, -1, -2, 2.0, 0.5, None, "2", True, 10 ** 20, np.int64(2)):
    for size in (0, 4, 5, 8):
        outs = []
        for cls in (OriginalStreamReversed, StreamReversed):
            s = cls(io.BytesIO(bytes(range(16))), 16, sample_width=2)
            s.sample_width = width
            outs.append(run(lambda: s._read(size)))
        check(f"odd width {width!r} size={size}", *outs)

for raw in (None, "abcd", bytearray(b"abcdefgh"), memoryview(b"abcdefgh"),
            b"", b"abc", [1, 2, 3, 4], 7, np.arange(4, dtype=np.int16)):
    for size in (0, 4, 8):
        outs = []
        for cls in (OriginalStreamReversed, StreamReversed):
            s = cls(FakeSub(raw), 8, sample_width=2)
            outs.append(run(lambda: s._read(size)))
        check(f"odd raw {type(raw).__name__} size={size}", *outs)
for size in (-2, -1, 2.0, None, "4"):
    outs = []
    for cls in (OriginalStreamReversed, StreamReversed):
        s = cls(io.BytesIO(bytes(range(16))), 16, sample_width=2)
        outs.append(run(lambda: s._read(size)))
    check(f"odd size {size!r}", *outs)

# (2) public API sequences over StreamOffset windows
for trial in range(300):
    width = rng.choice((1, 2, 2, 2, 4))
    total = rng.randint(1, 400) * width
    base = bytes(rng.getrandbits(8) for _ in range(total + 64))
    off = rng.randint(0, 32) * width
    win = rng.randint(1, max(1, (total - off) // width)) * width  # (a 0-byte window never reports EOF, in either version)
    plan = []
    for _ in range(rng.randint(1, 12)):
        op = rng.choice(("read", "read", "seek0", "seek1", "seek2", "readall",
                         "readodd"))
        if op == "read":
            plan.append(("read", rng.randint(0, 40) * width))
        elif op == "readodd":
            plan.append(("read", rng.randint(0, 40) * width + 1))
        elif op == "readall":
            plan.append(("read", rng.choice((None, -1))))
        elif op == "seek0":
            plan.append(("seek", rng.randint(-2, win // width + 2) * width, 0))
        elif op == "seek1":
            plan.append(("seek", rng.randint(-5, 5) * width, 1))
        else:
            plan.append(("seek", -rng.randint(0, 10) * width, 2))
    buflen = rng.choice((0x1000, width * 7, 64 * width))
    outs = []
    for cls in (OriginalStreamReversed, StreamReversed):
        sub = io.BytesIO(base)
        s = cls(StreamOffset(sub, win, off), win, sample_width=width,
                buffer_length=buflen)
        log = []
        for step in plan:
            if step[0] == "read":
                log.append(run(lambda: s.read(step[1])))
            else:
                log.append(run(lambda: s.seek(step[1], step[2])))
            log.append((s.position, s.true_size, sub.tell()))
        outs.append(log)
    check(f"sequence trial {trial}", *outs)

# (3) through SampleFile.to_generalized for the reverse loop modes
from smpl_extract.roland.s7xx.data_types import RolandLoopMode
from smpl_extract.roland.s7xx.fat import RolandFile
from smpl_extract.roland.s7xx.fat import ROLAND_CLUSTER_SIZE as CL
from smpl_extract.roland.s7xx.sample_entry import SampleParamLoopPointContainer
from smpl_extract.roland.s7xx.sample_file import SampleFile


def lp(addr):
    return SampleParamLoopPointContainer(raw_value=addr << 8, fine=0,
                                         address=addr)


def sample_bytes(mode, chain, start, s_start, s_end, patched):
    part = bytes(rng2.getrandbits(8) for _ in range(997)) * (8 * CL // 997 + 1)
    part = part[:8 * CL]
    sf = SampleFile(
        name="x", _data_stream=RolandFile(io.BytesIO(part), list(chain)),
        loop_mode=mode, start_sample=lp(start), sustain_loop_start=lp(s_start),
        sustain_loop_end=lp(s_end), release_loop_start=lp(s_end),
        release_loop_end=lp(s_end))
    saved = StreamReversed._read
    if patched:
        StreamReversed._read = original_read
    try:
        def go():
            g = sf.to_generalized()
            st = g.data_streams[0].stream
            st.seek(0, 0)
            data = st.read(-1)
            loops = [(l.start_sample, l.end_sample, l.repeat_forever)
                     for l in g.loop_regions]
            return (type(st).__name__, data, loops)
        return run(go)
    finally:
        StreamReversed._read = saved


try:
    for trial in range(40):
        chain = random.Random(trial).sample(range(8), random.Random(trial).randint(1, 5))
        words = len(chain) * CL // 2
        r = random.Random(1000 + trial)
        start = r.choice((0, 1, r.randint(0, words - 1)))
        s_end = r.choice((words - 1, r.randint(start, words - 1)))
        s_start = r.randint(start, s_end)
        for mode in (RolandLoopMode.REVERSE_ONESHOT, RolandLoopMode.REVERSE_LOOP):
            rng2 = random.Random(trial)
            a = sample_bytes(mode, chain, start, s_start, s_end, True)
            rng2 = random.Random(trial)
            b = sample_bytes(mode, chain, start, s_start, s_end, False)
            check(f"to_generalized {mode} trial {trial}", a, b)
            if a[0] != "ok" or len(a[2][1]) != 2 * (s_end - start + 1):
                failures += 1
                print("unexpected result in to_generalized run", a[:2])
except Exception as e:  # noqa - keep sections (1),(2),(4) decisive
    failures += 1
    print("section (3) could not run:", type(e).__name__, e)

# (4) precomputed expectations
s = StreamReversed(io.BytesIO(bytes(range(12))), 12, sample_width=2)
check("pre w2", s.read(12), bytes([10, 11, 8, 9, 6, 7, 4, 5, 2, 3, 0, 1]))
s = StreamReversed(io.BytesIO(bytes(range(12))), 12, sample_width=3)
s.seek(0, 0)
check("pre w3 first", s.read(6), bytes([9, 10, 11, 6, 7, 8]))
check("pre w3 second", s.read(6), bytes([3, 4, 5, 0, 1, 2]))
check("pre w3 eof", s.read(6), b"")
s = StreamReversed(io.BytesIO(bytes(range(12))), 12, sample_width=1)
check("pre w1", s.read(-1), bytes(range(11, -1, -1)))

print(f"{checks} checks, {failures} failures")
sys.exit(1 if failures else 0)
