"""Equivalence demo for r10 (smpl_extract/akai/volume.py:
VolumesAdapter._decode_element, the loop that turns the volume table of a
partition into Volume objects and reads each volume's file table).

An inline copy of the ORIGINAL VolumesAdapter is compared with the live one.

 A. direct: _decode_element with hand-made volume entries / fake SAT /
    patched VolumeBodyConstruct (returning a body, returning None, raising),
    volume_entries and sat given as values or as callables; compared:
    returned volumes (name, type, path, parent, routines, file_entries
    identity), the log of every call made on the fakes (order and arguments,
    keyword names included), exceptions.
 B. end to end: synthetic AKAI partitions (several volumes with sample files,
    inactive slots, empty volumes, per-entry damage in the volume table and in
    the file tables as in property C14, SAT damage, truncation) parsed through
    a partition struct that embeds the original or the live adapter;
    compared: error type/text, volumes, file entry names, file names, decoded
    sample bytes and the trace of every seek/read/tell on the shared image.

Exit 0 when everything agrees, 1 otherwise.
"""
import io
import random
import struct
import sys
from typing import Any
from typing import Dict
from typing import List

from construct.core import Bytes
from construct.core import ConstructError
from construct.core import Int16ul
from construct.core import Lazy
from construct.core import Pass
from construct.core import Struct
from construct.expr import this
from construct.lib.containers import Container

import smpl_extract.akai.volume as vm
from smpl_extract.akai.akai_string import char_ascii_to_akai
from smpl_extract.akai.data_types import AKAI_PARTITION_MAGIC
from smpl_extract.akai.data_types import AKAI_SAT_ENTRY_CNT
from smpl_extract.akai.data_types import AKAI_VOLUME_ENTRY_CNT
from smpl_extract.akai.data_types import VolumeType
from smpl_extract.akai.partition import PartitionHeaderConstruct
from smpl_extract.akai.sat import SegmentAllocationTableAdapter
from smpl_extract.akai.volume import Volume
from smpl_extract.akai.volume import VolumeEntryConstruct
from smpl_extract.util.constructs import ChildInfo
from smpl_extract.util.constructs import ElementAdapter


# ---------------------------------------------------------------- original
class OrigVolumesAdapter(ElementAdapter):

    def __init__(
            self,
            volume_entries,
            sat,
            subcon
    ):
        super().__init__(subcon)
        self.volume_entries = volume_entries
        self.sat = sat

    def _decode_element(
            self,
            obj,
            child_info: ChildInfo,
            context: Dict[str, Any],
            path: str
    ) -> List[Volume]:

        del obj, path  # Unused

        if callable(self.volume_entries):
            volume_entries = self.volume_entries(context)
        else:
            volume_entries = self.volume_entries
        sat = self.sat(context) if callable(self.sat) else self.sat

        parent = child_info.parent
        parent_path = child_info.parent_path

        volumes: List[Volume] = list()
        for volume_entry in volume_entries:
            volume_type = volume_entry.type

            if volume_type != VolumeType.INACTIVE:
                name            = volume_entry.name
                volume_sector   = volume_entry.start
                volume_stream = sat.get_segment(volume_sector)
                volume_path = parent_path + [name]

                volume = Volume(
                    name=name,
                    volume_type=volume_type,
                    parent=parent,
                    path=volume_path,
                    routines=child_info.routines
                )

                # module global of volume.py, looked up at call time
                volume_body = vm.VolumeBodyConstruct.parse_stream(
                    volume_stream,
                    _=context,
                    sat=sat,
                    _elem_parent=volume,
                    _elem_routines=child_info.routines
                )

                if volume_body is None:
                    raise ConstructError

                file_entries = volume_body.file_entries
                volume.file_entries = file_entries

                volumes.append(volume)

        return volumes

    def _encode(self, obj, context, path):
        raise NotImplementedError


failures = []
checked = 0


def check(cond, msg):
    global checked
    checked += 1
    if not cond:
        failures.append(msg)


# ---------------------------------------------------------------- part A
class FakeSat:
    def __init__(self, log, bad_sectors=()):
        self.log = log
        self.bad = set(bad_sectors)

    def get_segment(self, sector):
        self.log.append(("get_segment", sector))
        if sector in self.bad:
            raise LookupError("bad sector %r" % (sector,))
        return ("stream", sector)


class FakeEntry:
    """attribute reads are logged"""
    def __init__(self, log, idx, type_, name, start):
        object.__setattr__(self, "_d", dict(type=type_, name=name, start=start))
        object.__setattr__(self, "_log", log)
        object.__setattr__(self, "_idx", idx)

    def __getattr__(self, key):
        self._log.append(("entry", self._idx, key))
        try:
            return self._d[key]
        except KeyError:
            raise AttributeError(key)


class FakeBodyConstruct:
    def __init__(self, log, mode):
        self.log = log
        self.mode = mode

    def parse_stream(self, *args, **kwargs):
        volume = kwargs.get("_elem_parent")
        self.log.append((
            "parse_stream", args, list(kwargs.keys()),
            getattr(volume, "name", None),
            list(getattr(volume, "file_entries", [])),
            kwargs.get("_") is self.log.context,
            kwargs.get("sat") is self.log.sat,
            kwargs.get("_elem_routines") is self.log.routines,
        ))
        sector = args[0][1]
        mode = self.mode
        if mode == "none-on-2" and sector == 2:
            return None
        if mode == "raise-on-2" and sector == 2:
            raise ConstructError("damaged table")
        if mode == "nofield-on-2" and sector == 2:
            return Container()
        return Container(file_entries=["fe%d" % sector, "x"])


class Log(list):
    pass


class FakeParent:
    path = ["IMG", "A:"]


def run_direct(cls, entries_spec, mode, as_callable, bad_sectors, parent_path,
               routines):
    log = Log()
    sat = FakeSat(log, bad_sectors)
    entries = [FakeEntry(log, i, *spec) for i, spec in enumerate(entries_spec)]
    context = Container(marker=1)
    log.context, log.sat, log.routines = context, sat, routines
    parent = FakeParent()
    child_info = ChildInfo(
        parent=parent, parent_path=parent_path, next_path=["unused"],
        routines=routines, name="ignored"
    )
    if as_callable:
        def f_entries(ctx):
            log.append(("entries-called", ctx is context))
            return entries

        def f_sat(ctx):
            log.append(("sat-called", ctx is context))
            return sat
        adapter = cls(f_entries, f_sat, Pass)
    else:
        adapter = cls(entries, sat, Pass)
    saved = vm.VolumeBodyConstruct
    vm.VolumeBodyConstruct = FakeBodyConstruct(log, mode)
    try:
        try:
            vols = adapter._decode_element(object(), child_info, context, "p")
        except BaseException as e:  # noqa: B902
            return ("raise", type(e), str(e), list(log))
    finally:
        vm.VolumeBodyConstruct = saved
    desc = [
        (
            type(v).__name__, v.name, v.volume_type, v.path,
            v.parent is parent, v._routines, v.file_entries, v.type_name,
            v._is_files_realized, v._files,
        )
        for v in vols
    ]
    return ("ok", type(vols), desc, list(log), dict(context))


def part_a():
    T = VolumeType
    types = list(VolumeType)
    specs = [
        [],
        [(T.INACTIVE, "NOPE", 9)],
        [(types[1], "ONE", 1)],
        [(types[1], "ONE", 1), (T.INACTIVE, "DEAD", 2), (types[-1], "THREE", 3)],
        [(types[1], "ONE", 1), (types[2 % len(types)], "TWO", 2), (types[-1], "THREE", 3)],
        [(T.INACTIVE, "DEAD", 2), (types[1], "TWO", 2)],
        [(0, "RAWZERO", 2), (1, "RAWONE", 2), (3, "RAWTHREE", 1)],   # plain ints
        [(types[1], "", 0), (types[1], "DUP", 1), (types[1], "DUP", 1)],
        [(types[1], None, 1)],
        [(types[1], "ONE", None)],
        [(None, "NONETYPE", 2)],
    ]
    modes = ["ok", "none-on-2", "raise-on-2", "nofield-on-2"]
    for spec in specs:
        for mode in modes:
            for as_callable in (False, True):
                for bad in ((), (2,), (1,)):
                    for parent_path in (["IMG", "A:"], [], None, ("t",)):
                        for routines in ({}, {"r": len}, None):
                            a = run_direct(OrigVolumesAdapter, spec, mode,
                                           as_callable, bad, parent_path, routines)
                            b = run_direct(vm.VolumesAdapter, spec, mode,
                                           as_callable, bad, parent_path, routines)
                            check(a == b, f"direct mismatch {spec} {mode} "
                                          f"{as_callable} {bad} {parent_path}: "
                                          f"{str(a)[:400]} != {str(b)[:400]}")
    # a missing attribute on the entry
    class Bare:
        type = types[1]
    for cls_pair in ((OrigVolumesAdapter, vm.VolumesAdapter),):
        outs = []
        for cls in cls_pair:
            ci = ChildInfo(None, [], [], {}, None)
            try:
                outs.append(cls([Bare()], FakeSat(Log()), Pass)._decode_element(
                    None, ci, {}, ""))
            except Exception as e:
                outs.append((type(e), str(e)))
        check(outs[0] == outs[1], f"bare entry: {outs}")
    # expected values independent of the copy
    res = run_direct(vm.VolumesAdapter, specs[3], "ok", False, (), ["P"], {})
    check(res[0] == "ok" and [d[1] for d in res[2]] == ["ONE", "THREE"],
          "inactive slot skipped")
    check(res[0] == "ok" and [d[3] for d in res[2]] == [["P", "ONE"], ["P", "THREE"]],
          "paths")
    check(res[0] == "ok" and [d[6] for d in res[2]] == [["fe1", "x"], ["fe3", "x"]],
          "file entries attached")
    res = run_direct(vm.VolumesAdapter, specs[4], "none-on-2", False, (), ["P"], {})
    check(res[0] == "raise" and res[1] is ConstructError, "None body -> ConstructError")


# ---------------------------------------------------------------- part B
SECT = 0x2000
PREAMBLE_HDR_LEN = 2 + 2 + len(AKAI_PARTITION_MAGIC) + 4


def volume_area_size(this):
    return this.header.total_size \
        - PartitionHeaderConstruct.sizeof() \
        - VolumeEntryConstruct[AKAI_VOLUME_ENTRY_CNT].sizeof() \
        - Int16ul[AKAI_SAT_ENTRY_CNT].sizeof()


def make_parser(adapter_cls):
    return Struct(
        "header" / PartitionHeaderConstruct,
        "volume_entries" / VolumeEntryConstruct[AKAI_VOLUME_ENTRY_CNT],
        "sat" / SegmentAllocationTableAdapter(
            this.header.partition_stream,
            Int16ul[AKAI_SAT_ENTRY_CNT]  # type: ignore
        ),
        "volumes" / Lazy(adapter_cls(
            this.volume_entries,
            this.sat,  # type: ignore
            Lazy(Bytes(volume_area_size)),  # type: ignore
        ))
    )


def akai_name(text):
    return bytes(char_ascii_to_akai(text.ljust(12)[:12]))


def make_partition(size, volumes):
    """volumes: list of (name, type, [(fname, ftype, data)])."""
    buf = bytearray(size * SECT)
    hdr = (
        struct.pack("<H", size)
        + b"\x00\x00" + AKAI_PARTITION_MAGIC + b"\x55\xba\x2f\x00"
    )
    buf[:len(hdr)] = hdr
    sat = [0] * AKAI_SAT_ENTRY_CNT
    sat[0] = sat[1] = sat[2] = 0x4000
    next_sector = 3
    vol_entries = b""
    for vname, vtype, files in volumes:
        vsect = next_sector
        next_sector += 1
        sat[vsect] = 0xC000
        vol_entries += akai_name(vname) + struct.pack("<HH", vtype, vsect)
        table = b""
        for fname, ftype, data in files:
            nsect = max(1, -(-len(data) // SECT))
            start = next_sector
            for k in range(nsect):
                sat[start + k] = start + k + 1 if k < nsect - 1 else 0xC000
            next_sector += nsect
            buf[start * SECT:start * SECT + len(data)] = data
            table += (
                akai_name(fname) + b"\x00" * 4 + bytes([ftype])
                + len(data).to_bytes(3, "little")
                + struct.pack("<H", start) + b"\x00\x00"
            )
        table += b"\x00" * 8 + struct.pack("<H", 0xD747) + b"\x00" * 14
        buf[vsect * SECT:vsect * SECT + len(table)] = table
    assert next_sector <= max(size, 3)
    off = len(hdr)
    buf[off:off + len(vol_entries)] = vol_entries
    off = len(hdr) + 16 * AKAI_VOLUME_ENTRY_CNT
    buf[off:off + 2 * AKAI_SAT_ENTRY_CNT] = struct.pack(
        f"<{AKAI_SAT_ENTRY_CNT}H", *sat
    )
    return bytes(buf)


class TracingFile(io.BytesIO):

    def __init__(self, data):
        super().__init__(data)
        self.trace = []

    def tell(self):
        pos = super().tell()
        self.trace.append(("tell", pos))
        return pos

    def seek(self, *args):
        pos = super().seek(*args)
        self.trace.append(("seek", args, pos))
        return pos

    def read(self, *args):
        data = super().read(*args)
        self.trace.append(("read", args, len(data)))
        return data


class ImgParent:
    path = ["IMG", "A:"]


def describe_volumes(vols, parent, routines):
    out = []
    for v in vols:
        files = []
        entry_names = [(fe.name, fe.file_type) for fe in v.file_entries]
        try:
            for f in v.files:
                item = [type(f).__name__, f.name, list(f.path)]
                stream = getattr(f, "_data_stream", None)
                if stream is not None:
                    try:
                        stream.seek(0)
                        item.append(stream.read(4096))
                    except Exception as e:
                        item.append(("data-raise", type(e), str(e)))
                files.append(item)
        except Exception as e:
            files.append(("files-raise", type(e), str(e)))
        out.append((
            type(v).__name__, v.name, str(v.volume_type), list(v.path),
            v.parent is parent, v._routines is routines, entry_names, files
        ))
    return out


def run_image(parser, data):
    f = TracingFile(data)
    parent = ImgParent()
    routines = {}
    try:
        container = parser.parse_stream(
            f, _elem_parent=parent, _elem_routines=routines
        )
    except BaseException as e:  # noqa: B902
        return ("parse-raise", type(e), str(e), list(f.trace))
    f.trace.append("---volumes---")
    try:
        vols = container.volumes()
    except BaseException as e:  # noqa: B902
        return ("volumes-raise", type(e), str(e), type(e.__context__),
                list(f.trace))
    pos = f.tell()
    trace = list(f.trace)
    desc = describe_volumes(vols, parent, routines)
    return ("ok", type(vols), desc, pos, trace, list(f.trace))


def sample(n, seed):
    rng = random.Random(seed)
    return b"\x03" + b"\x00" * 149 + bytes(rng.getrandbits(8) for _ in range(n))


def part_b():
    rng = random.Random(0xC14)
    s1, s2, s3 = sample(200, 1), sample(20000, 2), sample(64, 3)
    volumes = [
        ("VOL ONE", 1, [("SAMPLE A", 0x73, s1), ("SAMPLE B", 0xF3, s2),
                        ("THIRD", 0x73, s3)]),
        ("DEAD", 0, [("GHOST", 0x73, s3)]),
        ("SECOND", 3, [("X", 0x73, s3)]),
        ("EMPTY", 1, []),
    ]
    good = make_partition(14, volumes)
    images = [
        ("good", good),
        ("no-vols", make_partition(3, [])),
        ("all-inactive", make_partition(6, [("A", 0, []), ("B", 0, [])])),
        ("truncated-body", good[:5 * SECT]),
        ("truncated-table", good[:3 * SECT + 30]),
    ]
    # volume table damage (per entry): every byte value in the type byte of entry 0,
    # every 16th in the other type/start bytes of entries 0 and 2, a few in the name
    vt = PREAMBLE_HDR_LEN
    for entry in (0, 2):
        for field_off in (12, 14):
            for value in (range(256) if (entry, field_off) == (0, 12)
                          else range(0, 256, 16)):
                d = bytearray(good)
                d[vt + entry * 16 + field_off] = value
                images.append((f"vol[{entry}]+{field_off}={value:#x}", bytes(d)))
    for entry in (0, 1, 2, 3, 4):
        for field_off in (0, 5, 11, 13, 15):
            for value in (0x00, 0x03, 0x29, 0x7F, 0xFF):
                d = bytearray(good)
                d[vt + entry * 16 + field_off] = value
                images.append((f"vol[{entry}]+{field_off}={value:#x}", bytes(d)))
    # file table damage in volume one (sector 3): every 4th type byte of entry 1
    ft = 3 * SECT
    for value in list(range(0, 256, 4)) + [0x73, 0xF3, 0x70, 0xF0, 0x01, 0xFF]:
        d = bytearray(good)
        d[ft + 1 * 24 + 16] = value
        images.append((f"file[1].type={value:#x}", bytes(d)))
    for entry in (0, 1, 2, 3):
        for field_off in (0, 8, 9, 11, 17, 19, 20, 21):
            for value in (0x00, 0x29, 0xD7, 0xFF):
                d = bytearray(good)
                d[ft + entry * 24 + field_off] = value
                images.append((f"file[{entry}]+{field_off}={value:#x}", bytes(d)))
    # random multi-byte damage confined to one entry
    for _ in range(80):
        d = bytearray(good)
        if rng.random() < 0.5:
            base = vt + rng.randrange(0, 5) * 16
            width = 16
        else:
            base = ft + rng.randrange(0, 4) * 24
            width = 24
        for _ in range(rng.randrange(2, 8)):
            d[base + rng.randrange(width)] = rng.getrandbits(8)
        images.append(("random-entry-damage", bytes(d)))
    # SAT damage
    sat_off = PREAMBLE_HDR_LEN + 16 * AKAI_VOLUME_ENTRY_CNT
    for _ in range(40):
        d = bytearray(good)
        for _ in range(rng.randrange(1, 4)):
            idx = rng.randrange(0, 16)
            d[sat_off + 2 * idx:sat_off + 2 * idx + 2] = struct.pack(
                "<H", rng.choice([0, 3, 4, 5, 11, 12, 0x4000, 0x8000, 0xC000,
                                  0xFFFF, rng.randrange(0, 0x10000)])
            )
        images.append(("sat-damage", bytes(d)))

    orig_parser = make_parser(OrigVolumesAdapter)
    live_parser = make_parser(vm.VolumesAdapter)
    for label, data in images:
        a = run_image(orig_parser, data)
        b = run_image(live_parser, data)
        check(a == b, f"image mismatch {label}: {str(a)[:500]} != {str(b)[:500]}")

    # expected values, independent of the inline copy
    res = run_image(live_parser, good)
    check(res[0] == "ok", f"good image parses: {str(res)[:300]}")
    if res[0] == "ok":
        desc = res[2]
        check([v[1] for v in desc] == ["VOL ONE", "SECOND", "EMPTY"],
              f"volume names {[v[1] for v in desc]}")
        check([f[1] for f in desc[0][7]] == ["SAMPLE A", "SAMPLE B", "THIRD"],
              "file names")
        check(desc[0][3] == ["IMG", "A:", "VOL ONE"], "volume path")
        check(desc[0][7][0][3] == b"", "sample A bytes")
    d = bytearray(good)
    d[ft + 24 + 16] = 0x01          # unknown type byte in entry 1
    res = run_image(live_parser, bytes(d))
    check(res[0] == "ok" and [f[1] for f in res[2][0][7]] == ["SAMPLE A", "THIRD"],
          "damaged type byte drops only that entry")


def main():
    part_a()
    part_b()
    print(f"{checked} checks, {len(failures)} failures")
    for msg in failures[:15]:
        print("FAIL:", msg)
    return 1 if failures else 0


if __name__ == "__main__":
    sys.exit(main())
