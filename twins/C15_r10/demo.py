"""Equivalence demo for r10: smpl_extract.transcoder.make_transcoder.

An inline verbatim copy of the ORIGINAL make_transcoder is compared with the
live one over a grid of source stream lists (0..3 streams; little/big endian;
1/2/4 byte samples; 0/1/2 interleaved channels; signed/unsigned) and
destination encodings, with the sample data held in plain BytesIO streams and
in FAT-style FileStream chains over complete and truncated images (the short
read ends the output).  Compared: exception type and message, the kind of
transcoder returned, its buffer size / process names / data stream identity,
every chunk the transcoder yields, and the exact sequence of seek/tell/read
calls that reached the backing stream.
Exit 0 when everything agrees, 1 otherwise.
"""
from io import BytesIO
from io import SEEK_SET
import itertools
import random
import sys
from typing import Callable
from typing import List
from typing import Tuple

import numpy as np

from smpl_extract.data_streams import DataStream
from smpl_extract.data_streams import Endianess
from smpl_extract.data_streams import IncompatibleNumberOfChannels
from smpl_extract.data_streams import NoDataStream
from smpl_extract.data_streams import StreamEncoding
from smpl_extract.data_streams import system_byte_order
from smpl_extract.transcoder import PassthroughTranscoder
from smpl_extract.transcoder import PipelineTranscoder
from smpl_extract.transcoder import TranscodePipelineStruct
from smpl_extract.transcoder import decode_frame
from smpl_extract.transcoder import encode_frame
from smpl_extract.transcoder import get_buffer_sizes
from smpl_extract.transcoder import make_transcoder
from smpl_extract.transcoder import swap_endianess
from smpl_extract.transcoder import swap_endianess_multi
from smpl_extract.util.fat import FileStream


# --------------------------------------------------------------------------
# ORIGINAL implementation (verbatim copy)
# --------------------------------------------------------------------------
def make_transcoder_original(
        data_streams: List[DataStream],
        dest_encoding: StreamEncoding
    ):
    
    # check for bad args
    if len(data_streams) <= 0:
        raise NoDataStream("No data streams given")

    total_num_channels = 0
    for data_stream in data_streams:
        num_channels = max(1, data_stream.encoding.num_interleaved_channels)
        total_num_channels += num_channels
    expected_num_channels = dest_encoding.num_interleaved_channels
    if total_num_channels != expected_num_channels:
        raise IncompatibleNumberOfChannels(
            f"Expected {expected_num_channels} fourd {total_num_channels}."
        )
    
    # begin
    for data_stream in data_streams:
        data_stream.stream.seek(0, SEEK_SET)
    buffer_sizes = get_buffer_sizes(data_streams)

    if len(data_streams) == 1 \
            and data_streams[0].encoding == dest_encoding:
        result = PassthroughTranscoder(
            data_streams[0],
            buffer_size=buffer_sizes[0]
        )
        return result

    processes: List[Tuple[
        str,
        Callable[[List[np.ndarray]], List[np.ndarray]]
    ]]
    processes = []

    # is byteswap needed at input?
    swaps = list(
        x.encoding.endianess != system_byte_order 
        for x in data_streams
        for _ in range(max(1, x.encoding.num_interleaved_channels))
    )
    if any(swaps):
        if all(swaps):
            processes.append(("swap_input_endianess", swap_endianess))
        else:
            processes.append((
                "swap_input_endianess_multi", 
                lambda x: swap_endianess_multi(x, swaps)
            ))
    
    # is byte swap needed at output?
    if dest_encoding.endianess != system_byte_order:
        processes.append(("swap_output_endianess", swap_endianess))

    dest_dtype = dest_encoding.dtype

    f_decode_frame = lambda x: decode_frame(x, buffer_sizes=buffer_sizes)
    f_encode_frame = lambda x: encode_frame(x, dest_dtype=dest_dtype)
    pipeline = TranscodePipelineStruct(
        f_decode_frame, 
        processes, 
        f_encode_frame
    )

    result = PipelineTranscoder(data_streams, pipeline)
    return result


# --------------------------------------------------------------------------
# Instrumented backing stream
# --------------------------------------------------------------------------
class LoggedStream:
    def __init__(self, data, log, tag):
        self.inner = BytesIO(data)
        self.log = log
        self.tag = tag

    def seek(self, offset, whence=SEEK_SET):
        res = self.inner.seek(offset, whence)
        self.log.append((self.tag, "seek", offset, whence, res))
        return res

    def tell(self):
        res = self.inner.tell()
        self.log.append((self.tag, "tell", res))
        return res

    def read(self, size=-1):
        pos = self.inner.tell()
        res = self.inner.read(size)
        self.log.append((self.tag, "read", size, pos, len(res)))
        return res


rnd = random.Random(1010)
IMAGE = bytes(rnd.randrange(256) for _ in range(40000))

ENCODINGS = [
    StreamEncoding(endianess=e, sample_width=w, num_interleaved_channels=c,
                   is_signed=s)
    for e in (Endianess.LITTLE, Endianess.BIG)
    for w in (1, 2, 4)
    for c in (0, 1, 2)
    for s in (True, False)
]


def build_streams(spec, log):
    """spec: list of (encoding, kind, payload_len, cut, start_pos)."""
    streams = []
    for i, (encoding, kind, payload_len, cut, start_pos) in enumerate(spec):
        if kind == "bytes":
            backing = LoggedStream(IMAGE[1000 * i:1000 * i + min(
                payload_len, cut)], log, i)
            stream = backing
        else:
            sector_size = 512
            sector_cnt = -(-payload_len // sector_size)
            chain = [3 + 7 * i + 2 * k for k in range(sector_cnt)]
            backing = LoggedStream(IMAGE[:cut], log, i)
            stream = FileStream(backing, sector_size, chain)
        stream.seek(start_pos, SEEK_SET)
        streams.append(DataStream(stream, encoding))
    return streams


def run(f_make, spec, dest_encoding):
    log = []
    streams = build_streams(spec, log)
    del log[:]
    try:
        transcoder = f_make(streams, dest_encoding)
    except BaseException as e:  # noqa
        return ("exc", type(e), str(e)), log

    out = [type(transcoder).__name__]
    if isinstance(transcoder, PassthroughTranscoder):
        out.append(transcoder.buffer_size)
        out.append(transcoder.data_stream is streams[0])
    else:
        out.append(transcoder.data_streams is streams)
        out.append([name for name, _ in transcoder.pipeline.processes])
        out.append(type(transcoder.pipeline).__name__)
    chunks = []
    try:
        for n, chunk in enumerate(transcoder):
            chunks.append(chunk)
            if n > 200:
                chunks.append("runaway")
                break
        # a finished transcoder stays finished / behaves the same again
        chunks.append(("again", list(itertools.islice(transcoder, 3))))
    except BaseException as e:  # noqa
        chunks.append(("exc", type(e), str(e)))
    out.append(chunks)
    return tuple(map(repr, out)), log


def specs():
    # no streams at all
    yield []
    # single streams: every encoding, bytes and sector backed, cut or not
    for enc in ENCODINGS:
        yield [(enc, "bytes", 4099, 10 ** 9, 0)]
        yield [(enc, "bytes", 0, 10 ** 9, 0)]
        yield [(enc, "bytes", 9000, 4097, 5)]
        yield [(enc, "file", 6000, 10 ** 9, 0)]
        yield [(enc, "file", 6000, 3000, 3)]
        yield [(enc, "file", 6000, 1024 + 512 * 3 + 100, 0)]
    # pairs and triples with mixed endianess / widths / channel counts
    for _ in range(500):
        n = rnd.choice([2, 2, 2, 3])
        spec = []
        for _i in range(n):
            spec.append((
                rnd.choice(ENCODINGS),
                rnd.choice(["bytes", "file"]),
                rnd.choice([0, 1, 2, 3, 512, 1000, 4096, 5000, 9001]),
                rnd.choice([10 ** 9, 10 ** 9, 0, 700, 2048, 2600, 5000]),
                rnd.choice([0, 0, 0, 2, 7]),
            ))
        yield spec


def main():
    failures = 0
    checked = 0
    kinds = {}
    for spec in specs():
        src_channels = sum(
            max(1, s[0].num_interleaved_channels) for s in spec)
        dests = set()
        for e in (Endianess.LITTLE, Endianess.BIG):
            for w in (1, 2):
                dests.add((e, w, src_channels, True))
        dests.add((Endianess.LITTLE, 2, src_channels + 1, True))
        dests.add((Endianess.LITTLE, 2, 0, True))
        dests.add((Endianess.LITTLE, 1, src_channels, False))
        if spec:
            enc0 = spec[0][0]
            dests.add((enc0.endianess, enc0.sample_width,
                       enc0.num_interleaved_channels, enc0.is_signed))
        for e, w, c, s in sorted(dests):
            dest = StreamEncoding(endianess=e, sample_width=w,
                                  num_interleaved_channels=c, is_signed=s)
            new = run(make_transcoder, spec, dest)
            old = run(make_transcoder_original, spec, dest)
            checked += 1
            key = new[0][0] if new[0][0] != "exc" else new[0][1].__name__
            if key == "'PipelineTranscoder'":
                key += new[0][2]
            kinds[key] = kinds.get(key, 0) + 1
            if new != old:
                failures += 1
                if failures <= 10:
                    print("MISMATCH", spec, dest)
                    print("  new:", str(new[0])[:300])
                    print("  old:", str(old[0])[:300])
    for key in sorted(kinds):
        print(f"  {kinds[key]:6d}  {key}")
    print(f"{checked} cases compared, {failures} mismatches")
    return 1 if failures else 0


if __name__ == "__main__":
    sys.exit(main())
