"""Equivalence demo for attempt_parse_cue_sheet (smpl_extract/actions.py), the
function through which determine_image_type feeds the lines of a candidate cue
sheet to parse_cue_sheet (cue line consumption) and decides what to open next.

An inline copy of the ORIGINAL function - bound to the globals of
smpl_extract.actions, so that both versions see the same spies - is compared
with the function of the tree on cue sheets written into a fresh temporary
directory:
  * all-audio sheets, data-only sheets, mixed sheets in both orders, sheets
    without tracks, mode spellings (audio / Audio / AUDIO / AUDIOX / MODE1/2352
    / mode2/2336), several FILE entries, blank lines, junk lines;
  * bin files that exist, are empty, are missing, are a directory, are given
    by absolute path, by sub directory, or with an empty name; the default
    `directory` argument;
  * broken sheets (no FILE line, empty, only blanks, random lines);
  * a few hundred random sheets.
Compared: class of the image returned and what it holds (CDDA tracks: title,
sample count, path, window offset and size; sampler images: file size and the
name of the file underneath), the exception (type, text, filename), the list
of lines left after the call (the function consumes its argument), and the
ORDER and arguments of the calls to open(), determine_image_type() and
from_bin_cue() (spies).  Also through determine_image_type(path of the .cue).
Exit 0 when everything agrees, 1 otherwise.
"""
import builtins
import os
import random
import shutil
import sys
import tempfile
import types

import smpl_extract.actions as actions_module
from smpl_extract.cdda.image import CompactDiskAudioImage
from smpl_extract.cdda.image import CompactDiskAudioImageAdapter

ORIGINAL_SOURCE = '''
def attempt_parse_cue_sheet(lines: List[str], directory = ""):
    cue_sheet_file = parse_cue_sheet(lines)
    binary_track = next(
        (x for x in cue_sheet_file.tracks if x.mode.lower() != "audio"),
        None
    )
    if binary_track:
        bin_file_path = os.path.join(directory, cue_sheet_file.bin_file_name)
        bin_file_stream = open(bin_file_path, "rb")
        bin_image = determine_image_type(bin_file_stream)
        return bin_image

    if all((x.mode.lower() == "audio" for x in cue_sheet_file.tracks)):
        bin_file_path = os.path.join(directory, cue_sheet_file.bin_file_name)
        bin_file_stream = open(bin_file_path, "rb")
        image = CompactDiskAudioImageAdapter.from_bin_cue(
            bin_file_stream,
            cue_sheet_file
        )
        return image

    raise BadCueSheet
'''

_namespace = {"List": list}
exec(compile(ORIGINAL_SOURCE, "<original>", "exec"), _namespace)
# same code, but looking its globals up in smpl_extract.actions
original_attempt = types.FunctionType(
    _namespace["attempt_parse_cue_sheet"].__code__,
    actions_module.__dict__,
    "attempt_parse_cue_sheet",
    ("",),
)
TREE_ATTEMPT = actions_module.attempt_parse_cue_sheet

EVENTS = []
OPENED = []
REAL_DETERMINE = actions_module.determine_image_type
REAL_ADAPTER = actions_module.CompactDiskAudioImageAdapter

failures = 0
checked = 0


def report(label, new, old):
    global failures, checked
    checked += 1
    if new != old:
        failures += 1
        if failures < 10:
            print("MISMATCH", label)
            print("   new", str(new)[:600])
            print("   old", str(old)[:600])


def describe_exception(e):
    return ("raise", type(e), str(e), getattr(e, "filename", None),
            type(e.__cause__), type(e.__context__))


# -------------------------------------------------------------------- spies
def spy_open(file, mode="r", *args, **kwargs):
    EVENTS.append(("open", file, mode, args, tuple(kwargs.items())))
    stream = builtins.open(file, mode, *args, **kwargs)
    OPENED.append(stream)
    return stream


def spy_determine(file):
    EVENTS.append(("determine", type(file).__name__,
                   getattr(file, "name", file), getattr(file, "mode", None)))
    return REAL_DETERMINE(file)


class SpyAdapter:
    @classmethod
    def from_bin_cue(cls, bin_file_stream, cue_file):
        EVENTS.append(("from_bin_cue", bin_file_stream.name, bin_file_stream.mode,
                       cue_file.bin_file_name,
                       [(t.number, t.mode, t.title, len(t.indices), list(t.unparsed))
                        for t in cue_file.tracks]))
        return CompactDiskAudioImageAdapter.from_bin_cue(bin_file_stream, cue_file)


def with_spies(function, *args):
    EVENTS.clear()
    actions_module.open = spy_open
    actions_module.determine_image_type = spy_determine
    actions_module.CompactDiskAudioImageAdapter = SpyAdapter
    try:
        try:
            result = ("ok", summarize(function(*args)))
        except BaseException as e:  # noqa
            result = describe_exception(e)
    finally:
        del actions_module.open
        actions_module.determine_image_type = REAL_DETERMINE
        actions_module.CompactDiskAudioImageAdapter = REAL_ADAPTER
        while OPENED:
            OPENED.pop().close()
    return result, list(EVENTS)


def summarize(image):
    if isinstance(image, CompactDiskAudioImage):
        return (type(image), [
            (t.title, t.num_audio_samples, t._path, t._parent is image,
             type(t._data_stream), t._data_stream.offset,
             t._data_stream.end_of_file, t._data_stream.substream.name)
            for t in image.tracks])
    summary = [type(image)]
    for attribute in ("file_size",):
        summary.append(getattr(image, attribute, None))
    stream = getattr(image, "file", None)
    summary.append(getattr(stream, "name", None))
    return tuple(summary)


# -------------------------------------------------------------------- cases
def outcome(function, lines, directory):
    lines = list(lines)
    if directory is None:
        result = with_spies(function, lines)
    else:
        result = with_spies(function, lines, directory)
    return result, lines


def track_lines(number, mode, indices=("00:00:00",), title=None):
    lines = ["  TRACK %02d %s\n" % (number, mode)]
    if title is not None:
        lines.append('    TITLE "%s"\n' % title)
    for k, stamp in enumerate(indices):
        lines.append("    INDEX %02d %s\n" % (k + 1, stamp))
    return lines


def sheet(bin_name, tracks, header=()):
    lines = list(header) + ['FILE "%s" BINARY\n' % bin_name]
    for n, track in enumerate(tracks):
        mode = track[0]
        lines += track_lines(n + 1, mode, *track[1:])
    return lines


def fixed_cases(root):
    audio3 = [("AUDIO", ("00:00:00",), "One"), ("AUDIO", ("00:02:00",), None),
              ("AUDIO", ("00:04:10",), "Three")]
    yield "all audio", sheet("disc.bin", audio3), root
    yield "all audio lower", sheet("disc.bin", [("audio",), ("Audio", ("00:01:00",))]), root
    yield "data only", sheet("disc.bin", [("MODE1/2352",)]), root
    yield "data lower", sheet("disc.bin", [("mode2/2336",)]), root
    yield "data then audio", sheet("disc.bin", [("MODE1/2352",)] + audio3), root
    yield "audio then data", sheet("disc.bin", audio3 + [("MODE1/2352",)]), root
    yield "audio data audio", sheet("disc.bin", audio3[:1] + [("MODE1/2048",)] + audio3[1:]), root
    yield "audiox", sheet("disc.bin", [("AUDIOX",)]), root
    yield "audio slash", sheet("disc.bin", [("AUDIO/1",), ("AUDIO",)]), root
    yield "no tracks", sheet("disc.bin", []), root
    yield "no tracks missing bin", sheet("nothing.bin", []), root
    yield "track without index", sheet("disc.bin", [("AUDIO", ())]), root
    yield "tracks without index", sheet("disc.bin", [("AUDIO", ()), ("AUDIO", ())]), root
    yield "empty bin audio", sheet("empty.bin", audio3), root
    yield "empty bin data", sheet("empty.bin", [("MODE1/2352",)]), root
    yield "small bin data", sheet("small.bin", [("MODE1/2352",)]), root
    yield "missing bin audio", sheet("missing.bin", audio3), root
    yield "missing bin data", sheet("missing.bin", [("MODE1/2352",)]), root
    yield "bin is directory audio", sheet("sub", audio3), root
    yield "bin is directory data", sheet("sub", [("MODE1/2352",)]), root
    yield "bin in sub directory", sheet(os.path.join("sub", "inner.bin"), audio3), root
    yield "bin absolute", sheet(os.path.join(root, "disc.bin"), audio3), os.path.join(root, "sub")
    yield "bin absolute data", sheet(os.path.join(root, "disc.bin"), [("MODE2/2352",)]), "nowhere"
    yield "empty bin name audio", sheet("", audio3), root
    yield "empty bin name data", sheet("", [("MODE1/2352",)]), root
    yield "directory missing", sheet("disc.bin", audio3), os.path.join(root, "absent")
    yield "default directory", sheet("surely-not-here-r24.bin", audio3), None
    yield "default directory data", sheet("surely-not-here-r24.bin", [("MODE1/2352",)]), None
    yield "empty directory string", sheet(os.path.join(root, "disc.bin"), audio3), ""
    yield "header lines", sheet("disc.bin", audio3, header=["REM made by hand\n", "\n", 'TITLE "x"\n']), root
    yield "two files", sheet("disc.bin", audio3) + sheet("small.bin", [("MODE1/2352",)]), root
    yield "two files data first", sheet("small.bin", [("MODE1/2352",)]) + sheet("disc.bin", audio3), root
    yield "blank lines", ["\n", "   \n"] + sheet("disc.bin", audio3) + ["\n", "\t\n"], root
    yield "junk inside", sheet("disc.bin", audio3)[:3] + ["FLAGS DCP\n", "garbage\n"] + sheet("disc.bin", audio3)[3:], root
    yield "no file line", track_lines(1, "AUDIO"), root
    yield "empty", [], root
    yield "only blanks", ["\n", "  \n", "\t"], root
    yield "file not binary", ['FILE "disc.bin" WAVE\n'] + track_lines(1, "AUDIO"), root
    yield "file then junk", ['FILE "disc.bin" BINARY\n', "what is this\n"], root
    yield "lowercase keywords", [l.lower() for l in sheet("disc.bin", audio3)], root
    yield "file twice in a row", ['FILE "disc.bin" BINARY\n'] * 2, root
    yield "mdf like data", sheet("roland.bin", [("MODE1/2352",)]), root


def random_cases(rng, root):
    modes = ["AUDIO", "audio", "Audio", "MODE1/2352", "MODE2/2336", "AUDIOS", "A", "CDG"]
    bins = ["disc.bin", "empty.bin", "small.bin", "missing.bin", "sub", "",
            os.path.join("sub", "inner.bin"), "roland.bin"]
    extras = ["\n", "REM x\n", "FLAGS DCP\n", 'TITLE "t"\n', "INDEX 01 00:00:00\n",
              "TRACK\n", "TRACK 01\n", 'FILE "x"\n', "  \n", "PREGAP 00:02:00\n"]
    for n in range(400):
        weights = rng.choice(([6, 3, 3, 1, 1, 1, 1, 1], [1] * 8, [1, 0, 0, 5, 1, 0, 0, 0],
                              [1, 1, 1, 0, 0, 0, 0, 0]))
        tracks = []
        for k in range(rng.choice((0, 1, 1, 2, 3, 5))):
            stamps = tuple("%02d:%02d:%02d" % (rng.randrange(3), rng.randrange(60),
                                               rng.randrange(75))
                           for _ in range(rng.choice((0, 1, 1, 2))))
            title = rng.choice((None, "T%d" % k, ""))
            tracks.append((rng.choices(modes, weights)[0], stamps, title))
        lines = sheet(rng.choice(bins), tracks)
        for _ in range(rng.choice((0, 0, 1, 3))):
            lines.insert(rng.randrange(len(lines) + 1), rng.choice(extras))
        if rng.random() < 0.1:
            lines = lines[1:]
        if rng.random() < 0.15:
            lines += sheet(rng.choice(bins), [(rng.choice(modes),)])
        yield "random %d" % n, lines, rng.choice((root, root, root, os.path.join(root, "sub")))


def write_files(root):
    rng = random.Random(2400)
    os.mkdir(os.path.join(root, "sub"))
    with open(os.path.join(root, "disc.bin"), "wb") as f:
        f.write(bytes(rng.getrandbits(8) for _ in range(2352 * 40)))
    with open(os.path.join(root, "sub", "inner.bin"), "wb") as f:
        f.write(bytes(rng.getrandbits(8) for _ in range(2352 * 7 + 100)))
    with open(os.path.join(root, "small.bin"), "wb") as f:
        f.write(b"abc")
    with open(os.path.join(root, "empty.bin"), "wb"):
        pass
    with open(os.path.join(root, "roland.bin"), "wb") as f:
        f.write(b"S770 MR25A" + bytes(1000))


def via_determine(function, cue_path):
    """the public way in: determine_image_type(path of the cue sheet)"""
    saved = actions_module.attempt_parse_cue_sheet
    actions_module.attempt_parse_cue_sheet = function
    try:
        return with_spies(REAL_DETERMINE, cue_path)
    finally:
        actions_module.attempt_parse_cue_sheet = saved


def main():
    root = tempfile.mkdtemp(prefix="r24demo")
    try:
        write_files(root)
        rng = random.Random(24)
        cases = list(fixed_cases(root)) + list(random_cases(rng, root))
        for label, lines, directory in cases:
            report(label,
                   outcome(TREE_ATTEMPT, lines, directory),
                   outcome(original_attempt, lines, directory))
        for n, (label, lines, directory) in enumerate(cases[:120]):
            cue_path = os.path.join(root, "sheet%d.cue" % n)
            with open(cue_path, "w", encoding="ascii") as f:
                f.writelines(lines)
            report("via determine_image_type: " + label,
                   via_determine(TREE_ATTEMPT, cue_path),
                   via_determine(original_attempt, cue_path))
    finally:
        shutil.rmtree(root, ignore_errors=True)
    print("checked", checked, "failures", failures)
    return 1 if failures else 0


if __name__ == "__main__":
    sys.exit(main())
