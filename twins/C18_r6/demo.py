"""Equivalence demo for r6: loop-form changes in _char_format_convert
(map/lambda -> for/append) and _fast_akai_to_ascii (for/append -> list
comprehension).  Compares against inline copies of the ORIGINAL code, including
how many items of a one-shot iterator are consumed before an error."""
import itertools
import random
import sys

from smpl_extract.akai import akai_string as live
from smpl_extract.akai.data_types import CharFormat, InvalidCharacter

# the per-byte functions are not touched by this refactoring
_byte = live._char_format_convert_byte
_fast_byte = live._fast_akai_to_ascii_byte


def orig_char_format_convert(bytes_in, src_fmt, dst_fmt):
    result = list(map(
        lambda x: _byte(x, src_fmt, dst_fmt),
        bytes_in
    ))
    return result


def orig_fast_akai_to_ascii(bytes_in):
    out_str = list()
    for byte in bytes_in:
        out_str.append(chr(_fast_byte(byte)))
    return "".join(out_str)


def orig_char_ascii_to_akai(str_in):
    if isinstance(str_in, str):
        bytes_in = str_in.upper().encode("ascii")
    else:
        bytes_in = str_in
    result = orig_char_format_convert(
        bytes_in,
        CharFormat.ASCII,
        CharFormat.AKAI
    )
    return bytes(result)


class Counting:
    """One-shot iterator that records how many items were pulled."""
    def __init__(self, items):
        self._it = iter(items)
        self.pulled = 0

    def __iter__(self):
        return self

    def __next__(self):
        value = next(self._it)
        self.pulled += 1
        return value


def outcome(fn, *args):
    try:
        value = fn(*args)
        return ("ok", type(value).__name__, repr(value))
    except BaseException as exc:  # noqa: BLE001
        return ("exc", type(exc).__name__, repr(exc.args))


FAIL = 0
CHECKED = 0


def same(a, b, what):
    global FAIL, CHECKED
    CHECKED += 1
    if a != b:
        FAIL += 1
        if FAIL < 20:
            print("MISMATCH", what, a, b)


def main():
    rnd = random.Random(18)
    akai_alphabet = list(range(41))
    ascii_alphabet = "0123456789 ABCDEFGHIJKLMNOPQRSTUVWXYZ#+-."

    inputs_akai = [b"", [], (), bytes(range(41)), list(range(41)),
                   bytes(range(256)), [41], [0, 41, 1], [-1], [40, 39, 256],
                   None, 5, "abc", [None], [1.0, 2.0], [10.5], b"\x0a" * 12]
    for n in range(0, 13):
        for _ in range(60):
            inputs_akai.append(bytes(rnd.choice(akai_alphabet) for _ in range(n)))
        for _ in range(10):
            inputs_akai.append([rnd.randrange(0, 64) for _ in range(n)])
    # every string of length <= 2 over the AKAI alphabet
    for n in (1, 2):
        for tup in itertools.product(akai_alphabet, repeat=n):
            inputs_akai.append(bytes(tup))

    fmt_pairs = [(CharFormat.AKAI, CharFormat.ASCII),
                 (CharFormat.ASCII, CharFormat.AKAI),
                 (CharFormat.AKAI, CharFormat.AKAI),
                 (CharFormat.ASCII, CharFormat.ASCII),
                 (None, CharFormat.AKAI)]

    for x in inputs_akai:
        same(outcome(orig_fast_akai_to_ascii, x),
             outcome(live._fast_akai_to_ascii, x), ("fast", x))
        same(outcome(orig_fast_akai_to_ascii, x),
             outcome(live.char_akai_to_ascii, x), ("public", x))
        for src, dst in fmt_pairs:
            same(outcome(orig_char_format_convert, x, src, dst),
                 outcome(live._char_format_convert, x, src, dst),
                 ("conv", x, src, dst))
        # one-shot iterators: same result and same number of items consumed
        if isinstance(x, (bytes, list, tuple)):
            c1, c2 = Counting(x), Counting(x)
            same((outcome(orig_fast_akai_to_ascii, c1), c1.pulled),
                 (outcome(live._fast_akai_to_ascii, c2), c2.pulled),
                 ("fast-iter", x))
            c1, c2 = Counting(x), Counting(x)
            same((outcome(orig_char_format_convert, c1,
                          CharFormat.AKAI, CharFormat.ASCII), c1.pulled),
                 (outcome(live._char_format_convert, c2,
                          CharFormat.AKAI, CharFormat.ASCII), c2.pulled),
                 ("conv-iter", x))

    inputs_ascii = ["", ascii_alphabet, ascii_alphabet.lower(), "hello world",
                    "bad_char", "é", "A" * 12, b"HELLO", b"hello", b"", None, 7,
                    [65, 66], "  ", "a#+-.z"]
    for n in range(0, 13):
        for _ in range(60):
            inputs_ascii.append("".join(rnd.choice(ascii_alphabet)
                                        for _ in range(n)))
        for _ in range(10):
            inputs_ascii.append("".join(chr(rnd.randrange(32, 127))
                                        for _ in range(n)))
    for s in inputs_ascii:
        same(outcome(orig_char_ascii_to_akai, s),
             outcome(live.char_ascii_to_akai, s), ("a2k", s))
        if isinstance(s, str):
            try:
                enc = live.char_ascii_to_akai(s)
            except (InvalidCharacter, UnicodeEncodeError):
                continue
            same(s.upper(), live.char_akai_to_ascii(enc), ("roundtrip", s))

    print("checked", CHECKED, "failures", FAIL)
    return 1 if FAIL else 0


if __name__ == "__main__":
    sys.exit(main())
