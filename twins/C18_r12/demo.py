"""Equivalence demo for r12: MidiNote.from_akai_byte / from_midi_byte /
to_akai_byte / to_midi_byte now delegate to two shared private module-level
helpers parametrised by the A0 byte.  Compares against inline copies of the
ORIGINAL four method bodies (also on subclasses and duck-typed receivers) and
re-checks the note-number round trip of C18."""
import itertools
import sys

from smpl_extract.midi import AKAI_SAMPLE_A0, MIDI_A0
from smpl_extract.midi import MidiNote, ScaleDegree


def orig_from_akai_byte(cls, byte_in):
    byte_normalized = byte_in - AKAI_SAMPLE_A0
    return cls.from_int_a0(byte_normalized)


def orig_from_midi_byte(cls, byte_in):
    byte_normalized = byte_in - MIDI_A0
    return cls.from_int_a0(byte_normalized)


def orig_to_akai_byte(self):
    byte_offset = self.to_int_a0()
    byte_out = byte_offset + AKAI_SAMPLE_A0
    return byte_out


def orig_to_midi_byte(self):
    byte_offset = self.to_int_a0()
    byte_out = byte_offset + MIDI_A0
    return byte_out


def describe(value):
    if isinstance(value, MidiNote):
        return ("MidiNote", type(value).__name__,
                repr(value.scale_degree), type(value.scale_degree).__name__,
                repr(value.is_sharp), type(value.is_sharp).__name__,
                repr(value.octave), type(value.octave).__name__)
    return (type(value).__name__, repr(value))


def outcome(fn, *args):
    try:
        return ("ok", describe(fn(*args)))
    except BaseException as exc:  # noqa: BLE001
        return ("exc", type(exc).__name__, repr(exc.args))


FAIL = 0
CHECKED = 0


def same(a, b, what):
    global FAIL, CHECKED
    CHECKED += 1
    if a != b:
        FAIL += 1
        if FAIL < 20:
            print("MISMATCH", what, a, b)


class SubNote(MidiNote):
    pass


class Shifted(MidiNote):
    """subclass overriding the primitives the four helpers dispatch to."""
    calls = []

    @classmethod
    def from_int_a0(cls, byte_in):
        Shifted.calls.append(("from_int_a0", byte_in))
        return ("shifted", byte_in)

    def to_int_a0(self):
        Shifted.calls.append(("to_int_a0",))
        return 1000


class Duck:
    """not a MidiNote at all; only quacks like one."""
    def __init__(self, value):
        self.value = value
        self.log = []

    def to_int_a0(self):
        self.log.append("to_int_a0")
        return self.value


class DuckCls:
    log = []

    @classmethod
    def from_int_a0(cls, byte_in):
        DuckCls.log.append(byte_in)
        return byte_in * 2


def main():
    # ---- from_*_byte: ints well beyond a byte, plus odd argument types
    numbers = list(range(-300, 600)) + [10 ** 12, -10 ** 12, True, False]
    odd = [60.0, 60.5, -0.5, None, "60", b"<", [60], (60,), 3j, float("nan"),
           float("inf")]
    for cls in (MidiNote, SubNote):
        for n in numbers + odd:
            same(outcome(orig_from_akai_byte, cls, n),
                 outcome(cls.from_akai_byte, n), ("from_akai", cls, n))
            same(outcome(orig_from_midi_byte, cls, n),
                 outcome(cls.from_midi_byte, n), ("from_midi", cls, n))

    # ---- to_*_byte: every degree x sharp x octave, odd field values
    degrees = list(ScaleDegree) + [0, 6, 7, "A", None, [1]]
    sharps = [False, True, 0, 1, 2, None, "#", [0]]
    octaves = list(range(-3, 23)) + [None, "4", 2.5, 10 ** 20, [1], True]
    for cls in (MidiNote, SubNote):
        for d, s, o in itertools.product(degrees, sharps, octaves):
            note = cls(d, s, o)
            same(outcome(orig_to_akai_byte, note),
                 outcome(cls.to_akai_byte, note), ("to_akai", d, s, o))
            same(outcome(orig_to_midi_byte, note),
                 outcome(cls.to_midi_byte, note), ("to_midi", d, s, o))

    # ---- dispatch through cls / self is preserved (overriding subclass)
    for n in (-5, 0, 21, 60, 255):
        Shifted.calls.clear()
        a = (outcome(orig_from_akai_byte, Shifted, n),
             outcome(orig_from_midi_byte, Shifted, n), list(Shifted.calls))
        Shifted.calls.clear()
        b = (outcome(Shifted.from_akai_byte, n),
             outcome(Shifted.from_midi_byte, n), list(Shifted.calls))
        same(a, b, ("override from", n))
    inst = Shifted()
    Shifted.calls.clear()
    a = (outcome(orig_to_akai_byte, inst), outcome(orig_to_midi_byte, inst),
         list(Shifted.calls))
    Shifted.calls.clear()
    b = (outcome(inst.to_akai_byte), outcome(inst.to_midi_byte),
         list(Shifted.calls))
    same(a, b, "override to")

    # ---- unbound call on receivers that are not MidiNote (the package calls
    # MidiNote.to_akai_byte(x) / MidiNote.to_midi_byte(x) from lambdas)
    for value in (0, 39, -21, 2.5, "x", None, [1]):
        da, db = Duck(value), Duck(value)
        a = (outcome(orig_to_akai_byte, da), outcome(orig_to_midi_byte, da),
             da.log)
        b = (outcome(MidiNote.to_akai_byte, db),
             outcome(MidiNote.to_midi_byte, db), db.log)
        same(a, b, ("duck", value))
    for receiver in (60, None, "C3", 1.5, object):
        same(outcome(orig_to_akai_byte, receiver),
             outcome(MidiNote.to_akai_byte, receiver), ("non-note", receiver))
        same(outcome(orig_to_midi_byte, receiver),
             outcome(MidiNote.to_midi_byte, receiver), ("non-note", receiver))
    for n in (0, 21, 99, "q"):
        DuckCls.log.clear()
        a = (outcome(orig_from_akai_byte, DuckCls, n),
             outcome(orig_from_midi_byte, DuckCls, n), list(DuckCls.log))
        DuckCls.log.clear()
        b = (outcome(MidiNote.from_akai_byte.__func__, DuckCls, n),
             outcome(MidiNote.from_midi_byte.__func__, DuckCls, n),
             list(DuckCls.log))
        same(a, b, ("duck cls", n))

    # ---- C18: number -> note -> number for every byte value (and margins),
    # and text form -> note for octaves 0-9
    for n in range(-64, 320):
        same(MidiNote.from_akai_byte(n).to_akai_byte(), n, ("rt akai", n))
        same(MidiNote.from_midi_byte(n).to_midi_byte(), n, ("rt midi", n))
        same(MidiNote.from_akai_byte(n).to_int_a0(), n - AKAI_SAMPLE_A0,
             ("a0 akai", n))
        same(MidiNote.from_midi_byte(n), MidiNote.from_int_a0(n - MIDI_A0),
             ("a0 midi", n))
    same(str(MidiNote.from_midi_byte(60)), "C3", "C3 at 60")
    same(str(MidiNote.from_akai_byte(24)), "C0", "C0 at 24")
    for d, s, o in itertools.product(ScaleDegree, (False, True), range(10)):
        note = MidiNote(d, s, o)
        back = MidiNote.from_string(note.to_string())
        same(back, note, ("text rt", d, s, o))
        same(back.to_akai_byte(), orig_to_akai_byte(note), ("text akai", d, s, o))
        same(back.to_midi_byte(), orig_to_midi_byte(note), ("text midi", d, s, o))

    print("checked", CHECKED, "mismatches", FAIL)
    return 1 if FAIL else 0


if __name__ == "__main__":
    sys.exit(main())
