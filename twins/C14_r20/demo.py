"""Equivalence demo for r20 (smpl_extract/akai/akai_string.py,
_fast_akai_to_ascii_byte - converts one byte of an AKAI name to ASCII.  It is
called for each of the 12 name bytes of every file table entry (field `name`
of FileEntryConstruct = AkaiPaddedString(12)); its InvalidCharacter becomes
the ConstructError that makes the skip-on-error loop of
FileEntriesAdapter._parse drop an entry with a damaged name and carry on with
the next one).

The refactoring turns the chain of early returns (`if digit: return ...`,
`if letter: return ...`, symbol look-up, `return`) into a single-exit
if / elif / else that assigns a result variable.

An inline copy of the ORIGINAL function is compared with the live one; for the
callers the original is patched into the module for one of two runs.

 A. unit level: every int in -300..700, big ints, bools, floats, Fractions,
    Decimals, int subclasses, None, strings, bytes, lists, objects with
    scripted/logged comparison operators.  Compared: result value and type,
    exception type/text, the log of comparisons.
 B. callers: _fast_akai_to_ascii / char_akai_to_ascii on every single byte,
    every byte value at every position of several 12 byte names, random names,
    lists of ints; AkaiString / AkaiPaddedString(12).parse on the same
    (stream position afterwards included); round trip with char_ascii_to_akai.
 C. end to end: synthetic AKAI partitions with the damage of property C14
    (every value of every name byte of one entry, every byte of the other
    fields set to several values, random multi-byte damage confined to one
    entry, damaged volume names) listed with the original function patched in
    and with the live one.  Compared: error type/text, entry names and types,
    file names and paths, decoded sample bytes, the trace of every
    seek/read/tell on the image stream.

Exit 0 when everything agrees, 1 otherwise.
"""
import decimal
import fractions
import io
import random
import struct
import sys

from construct.core import ConstructError
from construct.core import Int16ul
from construct.core import Struct
from construct.expr import this

import smpl_extract.akai.akai_string as aks
from smpl_extract.akai.akai_string import AkaiPaddedString
from smpl_extract.akai.akai_string import char_ascii_to_akai
from smpl_extract.akai.data_types import AKAI_PARTITION_MAGIC
from smpl_extract.akai.data_types import AKAI_SAT_ENTRY_CNT
from smpl_extract.akai.data_types import AKAI_VOLUME_ENTRY_CNT
from smpl_extract.akai.data_types import CHAR_MAP_A
from smpl_extract.akai.data_types import CHAR_MAP_MINUS
from smpl_extract.akai.data_types import CHAR_MAP_NINE
from smpl_extract.akai.data_types import CHAR_MAP_PERIOD
from smpl_extract.akai.data_types import CHAR_MAP_PLUS
from smpl_extract.akai.data_types import CHAR_MAP_POUND
from smpl_extract.akai.data_types import CHAR_MAP_SPACE
from smpl_extract.akai.data_types import CHAR_MAP_Z
from smpl_extract.akai.data_types import CHAR_MAP_ZERO
from smpl_extract.akai.data_types import CharFormat
from smpl_extract.akai.data_types import InvalidCharacter
from smpl_extract.akai.file_entry import FileEntriesAdapter
from smpl_extract.akai.file_entry import FileEntryConstruct
from smpl_extract.akai.partition import PartitionHeaderConstruct
from smpl_extract.akai.sat import SegmentAllocationTable
from smpl_extract.akai.sat import SegmentAllocationTableAdapter
from smpl_extract.akai.volume import VolumeEntryConstruct
from smpl_extract.util.stream import StreamOffset


# ---------------------------------------------------------------- original
def orig_fast_akai_to_ascii_byte(byte_in: int):
    if CHAR_MAP_ZERO[CharFormat.AKAI] <= byte_in <= CHAR_MAP_NINE[CharFormat.AKAI]:
        return byte_in + CHAR_MAP_ZERO[CharFormat.ASCII] - CHAR_MAP_ZERO[CharFormat.AKAI]

    if CHAR_MAP_A[CharFormat.AKAI] <= byte_in <= CHAR_MAP_Z[CharFormat.AKAI]:
        return byte_in + CHAR_MAP_A[CharFormat.ASCII] - CHAR_MAP_A[CharFormat.AKAI]

    symbol_map = {
        CHAR_MAP_SPACE[CharFormat.AKAI]:   CHAR_MAP_SPACE[CharFormat.ASCII],
        CHAR_MAP_POUND[CharFormat.AKAI]:   CHAR_MAP_POUND[CharFormat.ASCII],
        CHAR_MAP_PLUS[CharFormat.AKAI]:    CHAR_MAP_PLUS[CharFormat.ASCII],
        CHAR_MAP_MINUS[CharFormat.AKAI]:   CHAR_MAP_MINUS[CharFormat.ASCII],
        CHAR_MAP_PERIOD[CharFormat.AKAI]:  CHAR_MAP_PERIOD[CharFormat.ASCII],
    }
    resulting_symbol = symbol_map.get(byte_in)

    if resulting_symbol is None:
        raise InvalidCharacter

    return resulting_symbol


LIVE = aks._fast_akai_to_ascii_byte
IMPLS = (orig_fast_akai_to_ascii_byte, LIVE)

failures = []
checked = 0


def check(cond, msg):
    global checked
    checked += 1
    if not cond:
        failures.append(msg)


class patched:
    def __init__(self, fn):
        self.fn = fn

    def __enter__(self):
        aks._fast_akai_to_ascii_byte = self.fn

    def __exit__(self, *exc):
        aks._fast_akai_to_ascii_byte = LIVE
        return False


def both(fn, *args, **kw):
    out = []
    for impl in IMPLS:
        with patched(impl):
            out.append(fn(*args, **kw))
    return out


# ---------------------------------------------------------------- part A
class MyInt(int):
    pass


class Logged:
    """a number-like object whose comparisons, arithmetic and hashing are
    logged; behaves like `value`"""

    def __init__(self, value, log, fail_on=None):
        self.value = value
        self.log = log
        self.fail_on = fail_on

    def _op(self, name, other):
        self.log.append((name, other))
        if self.fail_on == name:
            raise RuntimeError(f"{name} fails")

    def __le__(self, other):
        self._op("le", other)
        return self.value <= other

    def __ge__(self, other):
        self._op("ge", other)
        return self.value >= other

    def __add__(self, other):
        self._op("add", other)
        return self.value + other

    def __radd__(self, other):
        self._op("radd", other)
        return other + self.value

    def __hash__(self):
        self._op("hash", None)
        return hash(self.value)

    def __eq__(self, other):
        self._op("eq", other)
        return self.value == other


def call(fn, make_arg):
    log = []
    arg = make_arg(log)
    try:
        result = fn(arg)
    except BaseException as e:  # noqa: B902
        return ("raise", type(e), str(e), type(e.__cause__), type(e.__context__), log)
    return ("ok", type(result), repr(result), log)


def compare_call(label, make_arg):
    a = call(orig_fast_akai_to_ascii_byte, make_arg)
    b = call(LIVE, make_arg)
    check(a == b, f"byte {label}: {a} != {b}")
    return b


def part_a():
    for value in range(-300, 701):
        compare_call(value, lambda log, v=value: v)
        compare_call(f"MyInt {value}", lambda log, v=value: MyInt(v))
        compare_call(f"float {value}", lambda log, v=value: float(v))
        compare_call(f"float+.5 {value}", lambda log, v=value: v + 0.5)
    others = [
        2 ** 64, -2 ** 64, True, False, None, "", "a", "0", "\x0a", b"", b"\x0a", b"A",
        [10], (10,), {10}, {}, 10 + 0j, float("nan"), float("inf"), -float("inf"),
        fractions.Fraction(10), fractions.Fraction(21, 2), fractions.Fraction(0x25),
        decimal.Decimal(10), decimal.Decimal("11.5"), decimal.Decimal(0x28),
        bytearray(b"\x0a"), range(3), object, Ellipsis, NotImplemented,
    ]
    for i, value in enumerate(others):
        compare_call(f"other#{i} {value!r}", lambda log, v=value: v)
    for value in list(range(-2, 0x2C)) + [0x7F, 0x80, 0xFF, 0x100]:
        for fail_on in (None, "le", "ge", "add", "radd", "hash", "eq"):
            compare_call(
                f"logged {value} fail_on={fail_on}",
                lambda log, v=value, f=fail_on: Logged(v, log, f)
            )

    # independent expectations: the whole table
    expected = {}
    for i in range(10):
        expected[i] = ord("0") + i
    expected[0x0A] = ord(" ")
    for i in range(26):
        expected[0x0B + i] = ord("A") + i
    expected.update({0x25: ord("#"), 0x26: ord("+"), 0x27: ord("-"), 0x28: ord(".")})
    for value in range(-10, 300):
        res = call(LIVE, lambda log, v=value: v)
        if value in expected:
            check(res[:3] == ("ok", int, repr(expected[value])), f"table {value}: {res}")
        else:
            check(res[0] == "raise" and res[1] is InvalidCharacter and res[2] == "",
                  f"table {value} invalid: {res}")


# ---------------------------------------------------------------- part B
def run_string(fn, data):
    try:
        result = fn(data)
    except BaseException as e:  # noqa: B902
        return ("raise", type(e), str(e), type(e.__cause__))
    return ("ok", type(result), result)


def run_parse(construct, data, start=0):
    stream = io.BytesIO(bytes(data))
    stream.seek(start)
    try:
        result = construct.parse_stream(stream)
    except BaseException as e:  # noqa: B902
        return ("raise", type(e), str(e).split("\n")[0], stream.tell())
    return ("ok", type(result), result, stream.tell())


def part_b():
    rng = random.Random(0xC14)
    padded = AkaiPaddedString(12)
    short = AkaiPaddedString(3)

    def compare_name(label, data):
        for fn in (aks._fast_akai_to_ascii, aks.char_akai_to_ascii):
            a, b = both(run_string, fn, data)
            check(a == b, f"{fn.__name__} {label}: {a} != {b}")
        if isinstance(data, (bytes, bytearray)):
            for con in (padded, short):
                a, b = both(run_parse, con, data)
                check(a == b, f"parse {label}: {a} != {b}")
        return b

    for value in range(256):
        compare_name(f"single {value}", bytes([value]))
        compare_name(f"single list {value}", [value])
    compare_name("empty", b"")
    compare_name("empty list", [])
    compare_name("list with bad types", [1, "x", 3])
    compare_name("list beyond bytes", [1, 300, -1])
    compare_name("str input", "ABC")
    compare_name("None", None)
    bases = [
        bytes(char_ascii_to_akai("SAMPLE A    ")),
        bytes(char_ascii_to_akai("Z9 #+-.AZ09 ")),
        bytes([0x0A] * 12),
        bytes(range(12)),
        bytes(range(0x1D, 0x29)),
    ]
    for bi, base in enumerate(bases):
        compare_name(f"base{bi}", base)
        for pos in range(12):
            for value in range(256):
                d = bytearray(base)
                d[pos] = value
                compare_name(f"base{bi}[{pos}]={value:#x}", bytes(d))
        for n in range(12):
            compare_name(f"base{bi}[:{n}]", base[:n])
    for _ in range(4000):
        n = rng.randrange(0, 16)
        if rng.random() < 0.6:
            d = bytes(rng.randrange(0, 0x2B) for _ in range(n))
        else:
            d = bytes(rng.getrandbits(8) for _ in range(n))
        compare_name("random", d)
    a, b = both(run_parse, padded, b"\xff" * 3 + bases[0] + b"\xff", 3)
    check(a == b and b[0] == "ok" and b[3] == 15, f"offset parse: {a} != {b}")

    # expectations
    for text in ("SAMPLE A", "Z9 #+-.", "", "0123456789", "THE QUICK", "BROWN FOX.-+"):
        res = run_parse(padded, bytes(char_ascii_to_akai(text.ljust(12))))
        check(res == ("ok", str, text.rstrip(" "), 12), f"round trip {text!r}: {res}")
    res = run_parse(padded, bytes([0x0B, 0x29] + [0x0A] * 10))
    check(res[0] == "raise" and issubclass(res[1], ConstructError) and res[3] == 12,
          f"invalid name byte -> ConstructError: {res}")
    res = run_string(aks.char_akai_to_ascii, bytes([0x0B, 0x29]))
    check(res[0] == "raise" and res[1] is InvalidCharacter, f"InvalidCharacter: {res}")


# ---------------------------------------------------------------- part C
SECT = 0x2000
PREAMBLE_HDR_LEN = 2 + 2 + len(AKAI_PARTITION_MAGIC) + 4
PREAMBLE_LEN = PREAMBLE_HDR_LEN + 16 * AKAI_VOLUME_ENTRY_CNT + 2 * AKAI_SAT_ENTRY_CNT

HeaderSatParser = Struct(
    "header" / PartitionHeaderConstruct,
    "volume_entries_raw" / Int16ul[8 * AKAI_VOLUME_ENTRY_CNT],
    "sat" / SegmentAllocationTableAdapter(
        this.header.partition_stream,
        Int16ul[AKAI_SAT_ENTRY_CNT]  # type: ignore
    ),
)


def akai_name(text):
    return bytes(char_ascii_to_akai(text.ljust(12)[:12]))


def record(name, ftype, size, start, pad1=b"\0" * 4, pad2=b"\0\0"):
    return (
        akai_name(name) + pad1 + bytes([ftype]) + size.to_bytes(3, "little")
        + struct.pack("<H", start) + pad2
    )


def make_partition(size, volumes):
    """volumes: list of (name, type, [(fname, ftype, data)])."""
    buf = bytearray(size * SECT)
    hdr = (
        struct.pack("<H", size)
        + b"\x00\x00" + AKAI_PARTITION_MAGIC + b"\x55\xba\x2f\x00"
    )
    buf[:len(hdr)] = hdr
    sat = [0] * AKAI_SAT_ENTRY_CNT
    sat[0] = sat[1] = sat[2] = 0x4000
    next_sector = 3
    vol_entries = b""
    for vname, vtype, files in volumes:
        vsect = next_sector
        next_sector += 1
        sat[vsect] = 0xC000
        vol_entries += akai_name(vname) + struct.pack("<HH", vtype, vsect)
        table = b""
        for fname, ftype, data in files:
            nsect = max(1, -(-len(data) // SECT))
            start = next_sector
            for k in range(nsect):
                sat[start + k] = start + k + 1 if k < nsect - 1 else 0xC000
            next_sector += nsect
            buf[start * SECT:start * SECT + len(data)] = data
            table += record(fname, ftype, len(data), start)
        table += b"\x00" * 8 + struct.pack("<H", 0xD747) + b"\x00" * 14
        buf[vsect * SECT:vsect * SECT + len(table)] = table
    assert next_sector <= max(size, 3)
    off = len(hdr)
    buf[off:off + len(vol_entries)] = vol_entries
    off = len(hdr) + 16 * AKAI_VOLUME_ENTRY_CNT
    buf[off:off + 2 * AKAI_SAT_ENTRY_CNT] = struct.pack(
        f"<{AKAI_SAT_ENTRY_CNT}H", *sat
    )
    return bytes(buf)


class TracingFile(io.BytesIO):

    def __init__(self, data):
        super().__init__(data)
        self.trace = []

    def tell(self):
        pos = super().tell()
        self.trace.append(("tell", pos))
        return pos

    def seek(self, *args):
        pos = super().seek(*args)
        self.trace.append(("seek", args, pos))
        return pos

    def read(self, *args):
        data = super().read(*args)
        self.trace.append(("read", args, len(data)))
        return data


class VolParent:
    path = ["IMG", "A:", "VOL"]


_sat_cache = {}


def load_image(data):
    """header and SAT are decoded once per distinct header+SAT (the SAT decoder
    is slow and converts no names); the SAT object of an image is rebuilt
    around that image's own traced stream the way the partition parser builds
    it (StreamOffset over the file, offset 0).  The volume table, whose names
    do go through the function under test, is parsed per image and per
    implementation in run_image."""
    vol_off = PREAMBLE_HDR_LEN
    key = bytes(data[:vol_off]) + bytes(data[vol_off + 16 * AKAI_VOLUME_ENTRY_CNT:PREAMBLE_LEN])
    if key not in _sat_cache:
        try:
            pre = HeaderSatParser.parse_stream(io.BytesIO(data))
        except BaseException as e:  # noqa: B902
            _sat_cache[key] = ("preamble-raise", type(e), str(e))
        else:
            check(type(pre.sat) is SegmentAllocationTable
                  and type(pre.header.partition_stream) is StreamOffset
                  and pre.header.partition_stream.offset == 0, "preamble shape")
            _sat_cache[key] = (
                "ok", pre.header.total_size, pre.sat.size, pre.sat.sector_links
            )
    cached = _sat_cache[key]
    if cached[0] == "preamble-raise":
        return cached
    f = TracingFile(data)
    partition_stream = StreamOffset(f, cached[1], offset=0)
    sat = SegmentAllocationTable(partition_stream, cached[2], cached[3])
    return (f, sat)


def describe_entries(entries):
    out = []
    for entry in entries:
        item = [type(entry).__name__, entry.name, str(entry.file_type)]
        try:
            f = entry.file
        except BaseException as e:  # noqa: B902
            item.append(("file-raise", type(e), str(e)))
            out.append(item)
            continue
        item += [type(f).__name__, getattr(f, "name", None),
                 list(getattr(f, "path", []))]
        stream = getattr(f, "_data_stream", None)
        if stream is not None:
            try:
                stream.seek(0)
                item.append(stream.read(4096))
            except BaseException as e:  # noqa: B902
                item.append(("data-raise", type(e), str(e)))
        out.append(item)
    return out


def run_image(loaded, volume_starts):
    if loaded[0] == "preamble-raise":
        return loaded
    f, sat = loaded
    f.seek(0)
    f.trace.clear()
    out = []
    parent = VolParent()
    # the volume table (16 byte records, first field an AKAI name)
    f.trace.append(("--- volume table",))
    f.seek(PREAMBLE_HDR_LEN)
    for slot in range(4):
        try:
            v = VolumeEntryConstruct.parse_stream(f)
            out.append(("volume", v.name, str(v.type), v.start))
        except BaseException as e:  # noqa: B902
            out.append(("volume-raise", type(e), str(e).split("\n")[0]))
            f.seek(PREAMBLE_HDR_LEN + 16 * (slot + 1))
    for start in volume_starts:
        f.trace.append(("--- volume", start))
        try:
            table_stream = sat.get_segment(start)
            adapter = FileEntriesAdapter(sat, FileEntryConstruct)
            entries = adapter.parse_stream(
                table_stream, _elem_parent=parent, _elem_routines={}
            )
            out.append(("ok", type(entries), describe_entries(entries)))
        except BaseException as e:  # noqa: B902
            out.append(("table-raise", type(e), str(e)))
    return ("ok", out, list(f.trace))


def sample(n, seed):
    rng = random.Random(seed)
    return b"\x03" + b"\x00" * 149 + bytes(rng.getrandbits(8) for _ in range(n))


def part_c():
    rng = random.Random(0x20C)
    s1, s2, s3 = sample(200, 1), sample(20000, 2), sample(64, 3)
    volumes = [
        ("VOL ONE", 1, [("SAMPLE A", 0x73, s1), ("SAMPLE B", 0xF3, s2),
                        ("THIRD", 0x73, s3), ("FOURTH.-+#9", 0xF3, s1)]),
        ("SECOND", 3, [("X", 0x73, s3)]),
        ("EMPTY", 1, []),
    ]
    good = make_partition(16, volumes)
    starts = (3, 10, 12, 4000)
    more_starts = starts + (2, 15)
    images = [("good", good), ("truncated-body", good[:6 * SECT]),
              ("truncated-table", good[:3 * SECT + 30])]
    ft = 3 * SECT
    for pos in range(12):
        for value in range(256):
            d = bytearray(good)
            d[ft + 1 * 24 + pos] = value
            images.append((f"file[1].name[{pos}]={value:#x}", bytes(d)))
    for value in range(256):
        d = bytearray(good)
        d[ft + 3 * 24] = value                 # first name byte of the last entry
        images.append((f"file[3].name[0]={value:#x}", bytes(d)))
        d = bytearray(good)
        d[ft + 4 * 24 + 3] = value             # name byte of the end marker slot
        images.append((f"file[4].name[3]={value:#x}", bytes(d)))
        d = bytearray(good)
        d[PREAMBLE_HDR_LEN + 16 + 2] = value   # name byte of the second volume
        images.append((f"volume[1].name[2]={value:#x}", bytes(d)))
    for entry in (0, 2):
        for field_off in range(24):
            for value in (0x00, 0x0A, 0x29, 0xD7, 0xFF):
                d = bytearray(good)
                d[ft + entry * 24 + field_off] = value
                images.append((f"file[{entry}]+{field_off}={value:#x}", bytes(d)))
    for _ in range(200):
        d = bytearray(good)
        base = ft + rng.randrange(0, 5) * 24
        for _ in range(rng.randrange(2, 8)):
            d[base + rng.randrange(24)] = rng.getrandbits(8)
        images.append(("random-entry-damage", bytes(d)))
    # names inside the sample headers (bytes 3..14 of an AKAI sample header)
    for _ in range(150):
        d = bytearray(good)
        base = rng.choice([4, 5, 8, 9, 11]) * SECT
        for _ in range(rng.randrange(1, 5)):
            d[base + rng.randrange(0, 20)] = rng.getrandbits(8)
        images.append(("sample-header-damage", bytes(d)))

    for label, data in images:
        loaded = load_image(data)
        which = more_starts if label in ("good", "truncated-body") else starts
        a, b = both(run_image, loaded, which)
        check(a == b, f"image mismatch {label}: {str(a)[:500]} != {str(b)[:500]}")

    # expected values, independent of the inline copy
    res = run_image(load_image(good), (3, 10, 12))
    check(res[0] == "ok", f"good image lists: {str(res)[:300]}")
    if res[0] == "ok":
        vols = [v for v in res[1] if v[0] == "volume"]
        check([v[1] for v in vols[:3]] == ["VOL ONE", "SECOND", "EMPTY"], f"volumes {vols}")
        tables = [v for v in res[1] if v[0] == "ok"]
        names = [[e[1] for e in v[2]] for v in tables]
        check(names == [["SAMPLE A", "SAMPLE B", "THIRD", "FOURTH.-+#9"], ["X"], []],
              f"entry names {names}")
        first = tables[0][2][0]
        check(first[4] == "SAMPLE A" and first[5] == VolParent.path + ["SAMPLE A"],
              f"file name/path {first[:6]}")
        # the synthetic header declares 0 sample words: since the repair of G16 (reads of an empty view are clipped) its data
        # window reads as empty instead of running on to the end of the file
        check(first[-1] == b"", "sample A bytes")
    d = bytearray(good)
    d[ft + 24 + 5] = 0x29          # not an AKAI character, inside entry 1's name
    res = run_image(load_image(bytes(d)), (3,))
    tables = [v for v in res[1] if v[0] == "ok"]
    check(res[0] == "ok" and [e[1] for e in tables[0][2]]
          == ["SAMPLE A", "THIRD", "FOURTH.-+#9"],
          f"a damaged name byte drops only that entry: {str(tables)[:300]}")
    d = bytearray(good)
    d[ft + 24 + 5] = 0x0C          # a valid character: the entry is renamed
    res = run_image(load_image(bytes(d)), (3,))
    tables = [v for v in res[1] if v[0] == "ok"]
    check([e[1] for e in tables[0][2]] == ["SAMPLE A", "SAMPLB B", "THIRD", "FOURTH.-+#9"],
          f"a changed name byte renames only that entry: {str(tables)[:300]}")


def main():
    check(aks._fast_akai_to_ascii_byte is LIVE, "setup")
    part_a()
    part_b()
    part_c()
    check(aks._fast_akai_to_ascii_byte is LIVE, "module restored")
    print(f"{checked} checks, {len(failures)} failures")
    for msg in failures[:15]:
        print("FAIL:", msg)
    return 1 if failures else 0


if __name__ == "__main__":
    sys.exit(main())
