"""Equivalence demo for Image._SAFE_ENDING / Image._INVALID_FILE_NAME (C06, r20).

The live class-level patterns (used by Image.make_export_name, the character
sanitising mechanism) are compared against the ORIGINAL compiled patterns
pasted below:
 1. pattern level: match()/fullmatch()/search() groups and spans, sub(),
    subn(), split(), findall() on every single character of a large code
    point set (ASCII, C0/C1 controls, every Unicode white space, digits and
    letters of several scripts, combining marks, surrogates, astral), on all
    pairs/triples over a hostile alphabet and on random strings;
 2. function level: live Image.make_export_name (is_file True/False/default)
    and make_safe_name against an inline copy of the ORIGINAL functions wired
    to the ORIGINAL patterns, on the same inputs, including non-string input
    (exception type and message);
 3. routine level: make_safe_names_routine + make_export_names_routine on
    random sibling lists, live versus an Image subclass carrying the ORIGINAL
    patterns, comparing assigned names and export paths, and checking the
    property's file-system-safety shape on every produced component.
Flags that matter for matching (IGNORECASE, MULTILINE, DOTALL, ASCII, LOCALE)
must be identical; only VERBOSE may differ.
Exit status 0 when everything agrees, 1 otherwise.
"""
import itertools
import random
import re
import sys

from smpl_extract.base import Element
from smpl_extract.base import ElementTypes
from smpl_extract.structural import Image


# --------------------------------------------------------------------------
# ORIGINAL declarations and functions (verbatim)
# --------------------------------------------------------------------------
ORIGINAL_SAFE_ENDING = re.compile(r"(.+?)\s*\.?\s*$")
ORIGINAL_INVALID_FILE_NAME = re.compile(r"[^\w\-\.# ]+")
ORIGINAL_INVALID_CHARS_REMOVE = re.compile(r"[\'\"\`]+")
ORIGINAL_INVALID_CHARS_REPLACE = re.compile(r"([^\w\-=\:.@#&+ ]+|(?<!\w)\:+)")


class OriginalImage(Image):
    _INVALID_CHARS_REMOVE = ORIGINAL_INVALID_CHARS_REMOVE
    _INVALID_CHARS_REPLACE = ORIGINAL_INVALID_CHARS_REPLACE

    def make_safe_name(self, name, is_file=True) -> str:
        del is_file
        safe_name = self._INVALID_CHARS_REMOVE.sub("", name)
        safe_name = self._INVALID_CHARS_REPLACE.sub(" ", safe_name)
        safe_name = safe_name.strip()
        return safe_name

    _SAFE_ENDING = ORIGINAL_SAFE_ENDING
    _INVALID_FILE_NAME = ORIGINAL_INVALID_FILE_NAME

    def make_export_name(self, name, is_file=True) -> str:
        export_name = self.make_safe_name(name)
        export_name = self._INVALID_FILE_NAME.sub(" ", name).strip()
        match = self._SAFE_ENDING.match(export_name)
        if match:
            export_name = match.group(1)
        if len(export_name) <= 0:
            export_name = "0"
        match = re.match(r"\w", export_name)
        if not match:
            export_name = "0" + export_name
        if not is_file:
            if export_name[-1] in (".", "-"):
                export_name = export_name + "0"
        return export_name


FAILURES = []
COUNT = [0]


def check(label, left, right):
    COUNT[0] += 1
    if left != right:
        FAILURES.append(label)
        if len(FAILURES) <= 30:
            print("MISMATCH", label)
            print("   original:", ascii(left)[:400])
            print("   live    :", ascii(right)[:400])


def outcome(func, *args, **kwargs):
    try:
        return ("ok", func(*args, **kwargs))
    except BaseException as error:  # noqa
        return ("exc", type(error).__name__, str(error))


# --------------------------------------------------------------------------
# inputs
# --------------------------------------------------------------------------
def code_points():
    points = set(range(0x0000, 0x0300))
    points.update(range(0x2000, 0x2070))          # spaces, dashes, separators
    points.update((0x1680, 0x180E, 0x3000, 0xFEFF, 0x0085, 0x00A0, 0x202F, 0x205F))
    points.update(range(0x0300, 0x0310))          # combining marks
    points.update(range(0x0660, 0x066A))          # arabic-indic digits
    points.update(range(0x0400, 0x0420))          # cyrillic
    points.update(range(0x4E00, 0x4E10))          # CJK
    points.update(range(0xFF00, 0xFF40))          # full width forms
    points.update((0xD800, 0xDFFF, 0x1F600, 0x1D7CE, 0x10FFFF, 0xFFFD))
    return sorted(points)


ALPHABET = [
    "a", "Z", "0", "_", " ", "  ", ".", "..", "-", "#", "/", "\\", ":", "'",
    '"', "`", "\t", "\n", "\r", "\x0b", "\x0c", "\x1c", "\x1f", "\x85",
    "\xa0", "\u2028", "\u3000", "(", ")", "*", "?", "\x00", "é", "ß", "L", "R",
    "+", "&", "@", "=", "~", "\u0301",
]


def sample_strings():
    strings = [""]
    strings.extend(chr(p) for p in code_points())
    strings.extend("a" + chr(p) for p in code_points())
    strings.extend(chr(p) + "a" for p in code_points())
    strings.extend("a" + chr(p) + "." for p in code_points())
    strings.extend("a." + chr(p) for p in code_points())
    strings.extend("".join(t) for t in itertools.product(ALPHABET, repeat=2))
    strings.extend(
        "".join(t) for t in itertools.product(ALPHABET, repeat=3)
        if t[0] in ("a", ".", " ", "-", "\n", "#", "/")
    )
    rng = random.Random(2006)
    for _ in range(20000):
        strings.append("".join(rng.choice(ALPHABET) for _ in range(rng.randint(1, 12))))
    strings.extend([
        "KICK.", "KICK .", "KICK. .", "KICK . .", "KICK..", "KICK ...", "a.b.",
        "a\nb", "a\n", "a.\n", "a \n", "\na", "a\n\n", "a.\n.", "..\n", "  .  ",
        " . . ", ".", " .", ". ", "...", "CON", "a" * 300 + " . ", " " * 50,
        "x" + " " * 50 + "." + " " * 50, "#", "##", "-.-", "# .",
        "Track 01/02", "..\\..\\x", "../../etc/passwd", "C:\\x", "a:b",
    ])
    return strings


# --------------------------------------------------------------------------
# part one: the patterns
# --------------------------------------------------------------------------
def describe(match):
    if match is None:
        return None
    return (match.span(), match.groups(), match.group(0), match.lastindex,
            [match.span(i) for i in range(match.re.groups + 1)])


SEMANTIC_FLAGS = re.IGNORECASE | re.MULTILINE | re.DOTALL | re.ASCII | re.LOCALE | re.UNICODE


def part_one(strings):
    pairs = [
        ("_SAFE_ENDING", ORIGINAL_SAFE_ENDING, Image._SAFE_ENDING),
        ("_INVALID_FILE_NAME", ORIGINAL_INVALID_FILE_NAME, Image._INVALID_FILE_NAME),
    ]
    for name, original, live in pairs:
        check(f"p1 {name} groups", original.groups, live.groups)
        check(f"p1 {name} groupindex", dict(original.groupindex), dict(live.groupindex))
        check(f"p1 {name} flags", original.flags & SEMANTIC_FLAGS, live.flags & SEMANTIC_FLAGS)
        check(f"p1 {name} type", type(original), type(live))
        for text in strings:
            check(f"p1 {name} match {text!a}", describe(original.match(text)), describe(live.match(text)))
            check(f"p1 {name} search {text!a}", describe(original.search(text)), describe(live.search(text)))
            check(f"p1 {name} fullmatch {text!a}", describe(original.fullmatch(text)), describe(live.fullmatch(text)))
            check(f"p1 {name} sub {text!a}", original.subn(" ", text), live.subn(" ", text))
            check(f"p1 {name} findall {text!a}", original.findall(text), live.findall(text))
            check(f"p1 {name} split {text!a}", original.split(text), live.split(text))
    for name, original, live in pairs:
        for bad in (None, 5, b"bytes", ["x"]):
            check(f"p1 {name} bad {bad!r}", outcome(original.match, bad)[:2], outcome(live.match, bad)[:2])


# --------------------------------------------------------------------------
# part two: the functions
# --------------------------------------------------------------------------
def part_two(strings):
    original = OriginalImage(lambda context: [])
    live = Image(lambda context: [])
    for text in strings:
        check(f"p2 export default {text!a}",
              outcome(original.make_export_name, text), outcome(live.make_export_name, text))
        check(f"p2 export file {text!a}",
              outcome(original.make_export_name, text, True), outcome(live.make_export_name, text, True))
        check(f"p2 export dir {text!a}",
              outcome(original.make_export_name, text, is_file=False),
              outcome(live.make_export_name, text, is_file=False))
        check(f"p2 safe {text!a}",
              outcome(original.make_safe_name, text, False), outcome(live.make_safe_name, text, False))
    for bad in (None, 5, b"bytes", ["x"], 1.5):
        check(f"p2 bad {bad!r}",
              outcome(original.make_export_name, bad), outcome(live.make_export_name, bad))


# --------------------------------------------------------------------------
# part three: the routines
# --------------------------------------------------------------------------
class Node(Element):
    type_name = "node"

    def __init__(self, name, type_id, path):
        super().__init__(path, None)
        self.name = name
        self.type_id = type_id

    def get_info(self):
        raise NotImplementedError


SHAPE = re.compile(r"^\w[\w \-.#()]*$")


def run_routines(image, spec):
    elements = [
        Node(name, ElementTypes.DirectoryEntry if is_dir else ElementTypes.SampleEntry, ["A", name])
        for name, is_dir in spec
    ]
    elements = image.make_safe_names_routine(elements)
    elements = image.make_export_names_routine(elements)
    return [(e.name, e.safe_name, e.export_name, e.export_path()) for e in elements]


def part_three(strings):
    rng = random.Random(2106)
    original = OriginalImage(lambda context: [])
    live = Image(lambda context: [])
    pool = [s for s in strings if len(s) < 16]
    common = ["KICK", "KICK.", "KICK .", "KICK (2)", "kick", "a/b", "a b", "SN -L", "SN -R", "..", ""]
    for trial in range(1500):
        spec = [
            (rng.choice(common) if rng.random() < 0.6 else rng.choice(pool), rng.random() < 0.25)
            for _ in range(rng.randint(0, 10))
        ]
        left = outcome(run_routines, original, spec)
        right = outcome(run_routines, live, spec)
        check(f"p3 {trial}", left, right)
        if right[0] == "ok":
            # the shape the property promises, evaluated on both sides alike
            shape_left = [bool(SHAPE.match(x[2])) and x[2][-1] not in " ." for x in left[1]]
            shape_right = [bool(SHAPE.match(x[2])) and x[2][-1] not in " ." for x in right[1]]
            check(f"p3 shape {trial}", shape_left, shape_right)


def main():
    strings = sample_strings()
    part_one(strings)
    part_two(strings)
    part_three(strings)
    if FAILURES:
        print(f"{len(FAILURES)} of {COUNT[0]} checks differ")
        return 1
    print(f"all {COUNT[0]} checks agree ({len(strings)} strings)")
    return 0


if __name__ == "__main__":
    sys.exit(main())
