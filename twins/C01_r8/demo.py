"""Equivalence demo for r8 (smpl_extract/structural.py,
ExportManager.export_samples).  An inline copy of the ORIGINAL method is
grafted onto a subclass; both managers are run on the same scripted samples,
routines and output directories (a) with a recording stand-in for export_wav
and (b) with the real export_wav writing real WAV files.  The event log
(routine calls, make_output_path calls, exists/makedirs calls, export calls,
stdout, exceptions, resulting directory tree and file bytes, manager state)
has to be identical.  Exit 0 = all agree."""
import contextlib
import io
import os
import random
import shutil
import sys
import tempfile

import smpl_extract.structural as structural
from smpl_extract.data_streams import DataStream, Endianess, StreamEncoding
from smpl_extract.generalized.sample import Sample
from smpl_extract.structural import ExportManager

export_wav = structural.export_wav  # rebound together with structural's


# ---- inline copy of the ORIGINAL implementation -------------------------
class OrigExportManager(ExportManager):

    def export_samples(self):
        samples = self.samples
        for f_routine in self.routines.values():
            samples = f_routine(samples)

        for sample in samples:
            inner_path = self.make_output_path(sample)
            total_path = os.path.join(self.output_directory, inner_path) + ".wav"
            dir_name = os.path.dirname(total_path)
            if not os.path.exists(dir_name):
                os.makedirs(dir_name)
            export_wav(sample, total_path)
            print(f"Exported {inner_path}.wav")

        self.samples.clear()
        return
# -------------------------------------------------------------------------


class FakeSample:
    def __init__(self, components, tag, log):
        self.components = components
        self.tag = tag
        self.log = log

    def export_path(self):
        self.log.append(("export_path", self.tag))
        if self.components == "RAISE":
            raise LookupError("no path")
        return list(self.components)

    def __repr__(self):
        return f"FakeSample({self.tag})"


def snapshot_tree(root):
    out = []
    for base, dirs, files in os.walk(root):
        dirs.sort()
        rel = os.path.relpath(base, root)
        out.append(("d", rel))
        for f in sorted(files):
            with open(os.path.join(base, f), "rb") as fh:
                out.append(("f", os.path.join(rel, f), fh.read()))
    return out


def make_routines(spec, log):
    routines = {}
    for n, kind in enumerate(spec):
        def routine(samples, n=n, kind=kind):
            log.append(("routine", n, kind, [repr(s) for s in samples]))
            if kind == "same":
                return samples
            if kind == "copy":
                return list(samples)
            if kind == "rev":
                return list(reversed(samples))
            if kind == "drop":
                return samples[1:]
            if kind == "gen":
                return (s for s in list(samples))
            if kind == "dup":
                return list(samples) + list(samples[:1])
            if kind == "raise":
                raise RuntimeError(f"routine {n}")
            raise AssertionError(kind)
        routines[f"r{n}"] = routine
    return routines


def run_fake(cls, scenario, workdir):
    """Part (a): recording stand-in for export_wav."""
    global export_wav
    comps_list, spec, outdir_kind, fail_on, pre_file = scenario
    log = []
    root = os.path.join(workdir, "root")
    os.makedirs(root)
    if outdir_kind == "abs":
        outdir = os.path.join(root, "out")
    elif outdir_kind == "abs_slash":
        outdir = os.path.join(root, "out") + "/"
    elif outdir_kind == "existing":
        outdir = os.path.join(root, "out")
        os.makedirs(outdir)
    elif outdir_kind == "empty":
        outdir = ""
    elif outdir_kind == "rel":
        outdir = "relout/deeper"
    else:
        raise AssertionError(outdir_kind)
    if pre_file:
        # a plain file sits where a directory would be needed
        os.makedirs(os.path.join(root, "out"), exist_ok=True)
        with open(os.path.join(root, "out", "P"), "wb") as fh:
            fh.write(b"x")

    def fake_export(sample, path):
        rel = os.path.relpath(path, root) if os.path.isabs(path) else path
        log.append(("export_wav", repr(sample), rel))
        if fail_on is not None and sample.tag == fail_on:
            raise OSError("disk full")
        with open(path, "wb") as fh:
            fh.write(repr(sample).encode())

    real_exists, real_makedirs = os.path.exists, os.makedirs

    def spy_exists(p):
        log.append(("exists", os.path.relpath(p, root) if os.path.isabs(p) else p))
        return real_exists(p)

    def spy_makedirs(p, *a, **k):
        log.append(("makedirs", os.path.relpath(p, root) if os.path.isabs(p) else p, a, k))
        return real_makedirs(p, *a, **k)

    mgr = cls(outdir, make_routines(spec, log))
    samples = [FakeSample(c, i, log) for i, c in enumerate(comps_list)]
    mgr.set_level(("P", "V"))
    for s in samples:
        mgr.add_sample(s)

    saved = (structural.export_wav, export_wav)
    cwd = os.getcwd()
    os.chdir(root)
    structural.export_wav = fake_export
    export_wav = fake_export
    os.path.exists = spy_exists
    os.makedirs = spy_makedirs
    out = io.StringIO()
    try:
        with contextlib.redirect_stdout(out):
            for use_finish in (True, False):
                try:
                    res = mgr.finish_level() if use_finish else mgr.export_samples()
                    log.append(("returned", res))
                except Exception as e:  # noqa: BLE001
                    log.append(("raised", type(e).__name__,
                                str(e).replace(root, "<root>")))
                log.append(("state", [repr(s) for s in mgr.samples], mgr.level))
    finally:
        os.path.exists = real_exists
        os.makedirs = real_makedirs
        structural.export_wav, export_wav = saved
        os.chdir(cwd)
    log.append(("stdout", out.getvalue()))
    log.append(("tree", snapshot_tree(root)))
    return log


def make_dir(path):
    """Chain of Traversable parents so that export_path() is <part>/<vol>."""
    parent = None
    for depth in range(1, len(path) + 1):
        node = structural.Traversable(lambda ctx: [], path=list(path[:depth]),
                                      parent=parent)
        node.name = path[depth - 1]
        node._export_name = path[depth - 1].replace(":", "")
        parent = node
    return parent


def make_real_sample(rng, path, export_name, parent=None):
    n = rng.randrange(0, 300)
    data = bytes(rng.randrange(256) for _ in range(2 * n))
    enc = StreamEncoding(endianess=Endianess.LITTLE, sample_width=2,
                         num_interleaved_channels=1)
    return Sample(
        name=path[-1] if path else "",
        sample_rate=rng.choice((22050, 44100, 48000)),
        data_streams=[DataStream(stream=io.BytesIO(data), encoding=enc)],
        _path=list(path),
        _parent=parent,
        _export_name=export_name,
    )


def run_real(cls, seed, workdir):
    """Part (b): the real export_wav and real generalized Samples."""
    rng = random.Random(seed)
    root = os.path.join(workdir, "root")
    os.makedirs(root)
    mgr = cls(os.path.join(root, "dest"), {})
    log = []
    out = io.StringIO()
    with contextlib.redirect_stdout(out):
        for level in (("P1:", "VOL A"), ("P1:", "VOL B"), ("P2:",)):
            mgr.set_level(level)
            parent = make_dir(level)
            for k in range(rng.randrange(0, 4)):
                nm = f"S{k}"
                mgr.add_sample(make_real_sample(rng, list(level) + [nm], nm, parent))
            try:
                mgr.finish_level()
            except Exception as e:  # noqa: BLE001
                log.append(("raised", type(e).__name__))
            log.append(("state", len(mgr.samples), mgr.level))
    log.append(("stdout", out.getvalue()))
    log.append(("tree", snapshot_tree(root)))
    return log


def main():
    rng = random.Random(8808)
    comp_choices = [
        ["P", "V", "A"], ["P", "V", "B"], ["P", "W", "A"], ["A"], [], [""],
        ["P", "", "A"], ["P", "V", "A.B"], ["P", "V", "A{}"], ["P", "V", "{0}"],
        ["P", "V", "%s"], ["/abs_not_allowed"], ["P", "V", "A"], "RAISE",
        ["..", "up"], ["P", "V", "nam e-#1"],
    ]
    rkinds = ("same", "copy", "rev", "drop", "gen", "dup", "raise")
    outkinds = ("abs", "abs_slash", "existing", "empty", "rel")
    scenarios = []
    for _ in range(700):
        comps = [rng.choice(comp_choices) for _ in range(rng.randrange(0, 6))]
        comps = [c for c in comps if c != ["/abs_not_allowed"]]
        spec = tuple(rng.choice(rkinds) for _ in range(rng.randrange(0, 3)))
        fail_on = rng.randrange(0, 6) if rng.random() < 0.2 else None
        scenarios.append((comps, spec, rng.choice(outkinds), fail_on,
                          rng.random() < 0.15))
    # hand-written edge scenarios
    scenarios += [
        ([], (), "abs", None, False),
        ([["P", "V", "A"]], (), "abs", None, False),
        ([["P", "V", "A"], ["P", "V", "A"]], ("dup",), "abs", None, False),
        ([["P", "x"]], (), "abs", None, True),   # out/P is a file
        ([[]], (), "empty", None, False),           # dirname == ""
        ([["A"]], (), "empty", None, False),
        ([["P", "V", "A"], "RAISE", ["P", "V", "B"]], (), "abs", None, False),
        ([["P", "V", "A"], ["P", "V", "B"]], ("raise",), "abs", None, False),
        ([["P", "V", "A"], ["P", "V", "B"]], ("gen", "rev"), "abs", None, False),
        ([["P", "V", "A"], ["P", "V", "B"]], (), "abs", 0, False),
    ]

    failures = 0
    base = tempfile.mkdtemp(prefix="r8demo_")
    try:
        for n, sc in enumerate(scenarios):
            logs = []
            for cls in (ExportManager, OrigExportManager):
                wd = tempfile.mkdtemp(dir=base)
                try:
                    logs.append(run_fake(cls, sc, wd))
                except TypeError as e:
                    logs.append(("harness-raised", type(e).__name__, str(e)))
                shutil.rmtree(wd)
            if logs[0] != logs[1]:
                failures += 1
                if failures <= 5:
                    print("MISMATCH (a)", sc)
                    for g, w in zip(logs[0], logs[1]):
                        if g != w:
                            print("   got ", g)
                            print("   want", w)
                            break
        n_real = 0
        exported = 0
        for seed in range(60):
            logs = []
            for cls in (ExportManager, OrigExportManager):
                wd = tempfile.mkdtemp(dir=base)
                logs.append(run_real(cls, seed, wd))
                shutil.rmtree(wd)
            n_real += 1
            exported += logs[0][-2][1].count("Exported ")
            if logs[0] != logs[1]:
                failures += 1
                print("MISMATCH (b) seed", seed)
            # independent check: one line + one file per sample, nothing else
            files = [e for e in logs[0][-1][1] if e[0] == "f"]
            lines = logs[0][-2][1].splitlines()
            if len(files) != len(lines) or any(
                    not f[2].startswith(b"RIFF") for f in files):
                failures += 1
                print("BAD real export", seed, len(files), len(lines))
            for line in lines:
                rel = line[len("Exported "):]
                if not any(f[1] == os.path.join("dest", rel) for f in files):
                    failures += 1
                    print("BAD line/file pairing", line)
    finally:
        shutil.rmtree(base, ignore_errors=True)

    print(f"{len(scenarios)} scripted scenarios, {n_real} real runs "
          f"({exported} WAVs), {failures} failures")
    return 1 if failures else 0


if __name__ == "__main__":
    sys.exit(main())
