"""Equivalence demo for r17: smpl_extract/alcohol/mdf.py, the declarations
MdfSectorHeaderConstruct (what is_mdf_image parses to recognise MODE1/2352 raw
sectors) and MdfSectorReadConstruct.

The refactoring builds both Structs from module-level field lists
(`Struct(*_MDF_SECTOR_HEADER_FIELDS)`) and spells `"name" / subcon` as
`Renamed(subcon, newname="name")` - which is literally what
Construct.__rtruediv__ returns.

The ORIGINAL declarations are pasted below.  Checks:
  * structure: same subcon classes / names / sizes, field by field;
  * parse of many byte strings (valid headers with every kind of id, every
    single-byte corruption of the 16 header bytes, truncations at every length,
    random garbage): same Container (same keys in the same order, same values)
    or same exception type and message (the message carries the field path),
    and the same stream position afterwards;
  * build / sizeof agree;
  * is_mdf_image gives the same verdict as a model built on the original
    declaration, issues the same sequence of calls on the stream and restores
    the position;
  * end to end: generated minimal Roland images (sizes that are and are not
    multiples of 2048) delivered raw, as 2352-byte sectors, MDX-wrapped and
    through cue sheets in a fresh temp directory are recognised the same and
    list the same; MdfStream reads that straddle the 2048-byte boundary return
    the bytes of the raw image.
"""
import contextlib
import io
import os
import random
import shutil
import struct
import sys
import tempfile

from construct.core import Bytes
from construct.core import Byte
from construct.core import ConstructError
from construct.core import Const
from construct.core import Int24ub
from construct.core import Struct
from io import SEEK_SET

from smpl_extract import actions
from smpl_extract.alcohol import mdf as mdf_module
from smpl_extract.alcohol.mdf import MdfSectorHeaderConstruct
from smpl_extract.alcohol.mdf import MdfSectorReadConstruct
from smpl_extract.alcohol.mdf import MdfStream
from smpl_extract.alcohol.mdf import is_mdf_image
from smpl_extract.alcohol.mdx import MdxHeaderConstruct
from smpl_extract.roland.s7xx.data_types import FAT_AREA_ID
from smpl_extract.roland.s7xx.data_types import FAT_AREA_OFFSET
from smpl_extract.roland.s7xx.data_types import FAT_AREA_SIZE
from smpl_extract.roland.s7xx.image import IdAreaStruct


# ---- the ORIGINAL declarations, verbatim ---------------------------------------
MDF_SECTOR_SIZE = 2352
MDF_SECTOR_HEADER_MAGIC = (
    b"\x00"
    b"\xFF\xFF\xFF\xFF\xFF\xFF\xFF\xFF\xFF\xFF"
    b"\x00"
)
MDF_SECTOR_HEADER_SIZE  = 16
MDF_SECTOR_BODY_SIZE    = 2048
MDF_SECTOR_FOOTER_SIZE  = 288


OriginalHeaderConstruct = Struct(
    "magic" / Const(MDF_SECTOR_HEADER_MAGIC, Bytes(len(MDF_SECTOR_HEADER_MAGIC))),
    "id"    / Int24ub,
    Const(0x01, Byte)
)


OriginalReadConstruct = Struct(
    "header"    / OriginalHeaderConstruct,
    "content"   / Bytes(MDF_SECTOR_BODY_SIZE),
    "footer"    / Bytes(MDF_SECTOR_FOOTER_SIZE)
)


def original_is_mdf_image(stream):
    stream_head = stream.tell()
    stream.seek(0, SEEK_SET)

    result = True
    try:
        OriginalHeaderConstruct.parse_stream(stream)  # type: ignore
    except ConstructError:
        result = False

    stream.seek(stream_head, SEEK_SET)

    return result
# --------------------------------------------------------------------------------


failures = []
checks = 0


def check(label, a, b):
    global checks
    checks += 1
    if a != b:
        failures.append((label, a, b))


def outcome(fn):
    try:
        return ("ok", fn())
    except Exception as e:  # noqa: BLE001 - compared, not hidden
        return ("exc", type(e).__name__, str(e))


def shape(con, depth=0):
    """Class / name / flags of a construct and everything below it."""
    out = [(depth, type(con).__name__, getattr(con, "name", None), outcome(con.sizeof),
            con.flagbuildnone, getattr(con, "value", None), getattr(con, "length", None))]
    if hasattr(con, "subcons"):
        for sub in con.subcons:
            out += shape(sub, depth + 1)
    elif hasattr(con, "subcon"):
        out += shape(con.subcon, depth + 1)
    return out


def plain(obj):
    """Container -> ordered list of (key, value) pairs, recursively (the `_io`
    entry is the stream object handed in, so only its presence is kept)."""
    if hasattr(obj, "items"):
        return [(k, plain(v) if k != "_io" else "<stream>") for k, v in obj.items()]
    return obj


def parse_both(label, live, original, data):
    results = []
    for con in (live, original):
        stream = io.BytesIO(data)
        out = outcome(lambda: con.parse_stream(stream))
        if out[0] == "ok":
            out = ("ok", plain(out[1]), str(out[1]))
        results.append((out, stream.tell()))
    check(label, results[0], results[1])
    return results[0]


class LoggedStream(io.BytesIO):
    def __init__(self, data, log):
        super().__init__(data)
        self.log = log

    def tell(self):
        r = super().tell()
        self.log.append(("tell", r))
        return r

    def seek(self, *a):
        r = super().seek(*a)
        self.log.append(("seek", a, r))
        return r

    def read(self, *a):
        r = super().read(*a)
        self.log.append(("read", a, len(r)))
        return r


def header(sector_id, mode=1, magic=MDF_SECTOR_HEADER_MAGIC):
    return magic + struct.pack(">I", sector_id & 0xFFFFFF)[1:] + bytes([mode])


def mdf_wrap(payload):
    out = bytearray()
    for i in range(0, len(payload), 2048):
        body = payload[i:i + 2048].ljust(2048, b"\0")
        out += header(i // 2048) + body + bytes(288)
    return bytes(out)


def mdx_wrap(payload):
    return MdxHeaderConstruct.build(dict(
        copyright=b"\xA9" + b" " * 25,
        eof=MdxHeaderConstruct.sizeof() + len(payload),
    )) + payload


def make_roland_image(rng, extra):
    values = dict(
        revision=rng.randint(0, 2**32 - 1),
        s7xx_str=rng.choice(["S770 MR25A", "S750\tMR25A", "s760 mr25a"]),
        empty_str="",
        version_str=rng.choice(["S-770 Hard Disk Ver. 2.25", "S-750 MO Disk Ver 1.02a"]),
        copyright_str="Copyright Roland",
        disk_name=rng.choice(["MYDISK", "", "A B C", "0123456789ABCDEF"]),
        disk_capacity=rng.randint(0, 2**32 - 1),
        num_volumes=0,
        num_performances=0,
        num_patches=rng.randint(0, 0xFFFF),
        num_partials=rng.randint(0, 0xFFFF),
        num_samples=rng.randint(0, 0xFFFF),
    )
    img = bytearray(0x110000 + extra)
    for k in range(0, len(img), 997):
        img[k] = rng.randint(0, 255)
    ida = IdAreaStruct.build(values)
    img[:len(ida)] = ida
    fat = bytearray(FAT_AREA_SIZE)
    struct.pack_into("<HH", fat, 0, FAT_AREA_ID, 77)
    struct.pack_into("<HH", fat, FAT_AREA_SIZE - 4, 0xFFFF, 0xFFFF)
    img[FAT_AREA_OFFSET:FAT_AREA_OFFSET + FAT_AREA_SIZE] = fat
    return bytes(img)


def ls_text(image, path=""):
    buf = io.StringIO()
    with contextlib.redirect_stdout(buf):
        actions.ls_action(image, path)
    return buf.getvalue()


def main():
    rng = random.Random(0x517)

    # -- structure ---------------------------------------------------------------
    check("header shape", shape(MdfSectorHeaderConstruct), shape(OriginalHeaderConstruct))
    check("read shape", shape(MdfSectorReadConstruct), shape(OriginalReadConstruct))
    check("header sizeof", MdfSectorHeaderConstruct.sizeof(), 16)
    check("read sizeof", MdfSectorReadConstruct.sizeof(), 2352)
    for name in ("MDF_SECTOR_SIZE", "MDF_SECTOR_HEADER_MAGIC", "MDF_SECTOR_HEADER_SIZE",
                 "MDF_SECTOR_BODY_SIZE", "MDF_SECTOR_FOOTER_SIZE"):
        check(("constant", name), getattr(mdf_module, name), globals()[name])
    fields = getattr(mdf_module, "_MDF_SECTOR_HEADER_FIELDS", None)
    if fields is not None:
        check("field list is what the Struct holds",
              [a is b for a, b in zip(fields, MdfSectorHeaderConstruct.subcons)], [True] * 3)

    # -- header parse ------------------------------------------------------------
    samples = []
    for sector_id in [0, 1, 2, 150, 0xFF, 0x100, 0xFFFF, 0x10000, 0xABCDEF, 0xFFFFFF]:
        for mode in (0, 1, 2, 0xFF):
            samples.append(header(sector_id, mode))
            samples.append(header(sector_id, mode) + bytes(rng.randrange(256) for _ in range(40)))
    good = header(0x000216)
    for pos in range(16):
        for delta in (1, 0x80, 0xFF):
            bad = bytearray(good)
            bad[pos] = (bad[pos] + delta) & 0xFF
            samples.append(bytes(bad) + b"tail")
    for cut in range(0, 17):
        samples.append(good[:cut])
    for _ in range(1500):
        n = rng.choice([0, 1, 11, 12, 15, 16, 17, 64])
        samples.append(bytes(rng.choice([0, 0xFF, 1, rng.randrange(256)]) for _ in range(n)))
    samples += [b"", b"MEDIA DESCRIPTOR" + bytes(64), b"\x00" * 16, b"\xFF" * 16]

    verdicts = {"ok": 0, "exc": 0}
    for n, data in enumerate(samples):
        out = parse_both(("header parse", n), MdfSectorHeaderConstruct, OriginalHeaderConstruct, data)
        verdicts[out[0][0]] += 1

        # is_mdf_image against the original, with the call log, from several start positions
        for start in {0, min(3, len(data)), len(data)}:
            logs, answers = [], []
            for fn in (is_mdf_image, original_is_mdf_image):
                log = []
                stream = LoggedStream(data, log)
                io.BytesIO.seek(stream, start)
                answers.append((outcome(lambda: fn(stream)), io.BytesIO.tell(stream)))
                logs.append(log)
            check(("is_mdf_image", n, start), answers[0], answers[1])
            check(("is_mdf_image calls", n, start), logs[0], logs[1])
            check(("is_mdf_image restores", n, start), answers[0][1], start)
    check("both verdicts exercised", verdicts["ok"] > 10 and verdicts["exc"] > 100, True)

    # -- whole-sector parse / build ------------------------------------------------
    for n in range(120):
        body = bytes(rng.randrange(256) for _ in range(2048))
        foot = bytes(rng.randrange(256) for _ in range(288))
        sector = header(rng.randrange(1 << 24), rng.choice([1, 1, 1, 2])) + body + foot
        if n % 5 == 0:
            sector = sector[:rng.randrange(len(sector))]
        if n % 7 == 0 and sector:
            broken = bytearray(sector)
            broken[rng.randrange(min(16, len(broken)))] ^= 0x40
            sector = bytes(broken)
        parse_both(("sector parse", n), MdfSectorReadConstruct, OriginalReadConstruct, sector)

    for n in range(200):
        obj = dict(id=rng.choice([0, 1, 0xFFFFFF, rng.randrange(1 << 24), -1, 1 << 24]))
        if n % 3 == 0:
            obj["magic"] = rng.choice([MDF_SECTOR_HEADER_MAGIC, b"x" * 12, None])
        if n % 11 == 0:
            del obj["id"]
        check(("header build", n), outcome(lambda: MdfSectorHeaderConstruct.build(obj)),
              outcome(lambda: OriginalHeaderConstruct.build(obj)))
        full = dict(header=obj, content=bytes(2048 if n % 4 else 5), footer=bytes(288))
        check(("sector build", n), outcome(lambda: MdfSectorReadConstruct.build(full)),
              outcome(lambda: OriginalReadConstruct.build(full)))

    # -- end to end --------------------------------------------------------------
    workdir = tempfile.mkdtemp(prefix="r17_demo_")
    try:
        for n in range(5):
            extra = [0, 1, 777, 2048, 4095][n]
            payload = make_roland_image(rng, extra)
            wrapped = mdf_wrap(payload)
            check(("e2e is_mdf raw", n), is_mdf_image(io.BytesIO(payload)), False)
            check(("e2e is_mdf wrapped", n), is_mdf_image(io.BytesIO(wrapped)), True)

            unwrapped = MdfStream(io.BytesIO(wrapped))
            padded = payload.ljust(-(-len(payload) // 2048) * 2048, b"\0")
            for _ in range(60):
                pos = rng.choice([0, 2047, 2048, 2049, rng.randrange(len(padded)), len(padded) - 5])
                size = rng.choice([1, 2, 16, 2047, 2048, 2049, 5000, rng.randrange(1, 9000)])
                unwrapped.seek(pos, SEEK_SET)
                check(("e2e read", n, pos, size), unwrapped.read(size), padded[pos:pos + size])

            blobs = {"raw": payload, "mdf": wrapped, "mdx": mdx_wrap(payload)}
            paths = {}
            for kind, blob in blobs.items():
                paths[kind] = os.path.join(workdir, f"img{n}.{kind}")
                with open(paths[kind], "wb") as f:
                    f.write(blob)
            for kind in ("raw", "mdf"):
                cue = os.path.join(workdir, f"img{n}.{kind}.cue")
                with open(cue, "w", encoding="ascii") as f:
                    f.write(f"FILE \"img{n}.{kind}\" BINARY\n  TRACK 01 MODE1/2352\n    INDEX 01 00:00:00\n")
                paths["cue->" + kind] = cue

            listings = {}
            for kind, path in paths.items():
                image = actions.determine_image_type(path)
                check(("e2e type", n, kind), type(image).__name__, "RolandS7xxImage")
                listings[kind] = (image.disk_name, image.model_version, image.num_samples, ls_text(image))
            check(("e2e same everywhere", n), len(set(listings.values())), 1)
    finally:
        shutil.rmtree(workdir, ignore_errors=True)

    print(f"{checks} checks, {len(failures)} disagreements")
    for f in failures[:10]:
        print("  MISMATCH", repr(f)[:400])
    return 1 if failures else 0


if __name__ == "__main__":
    sys.exit(main())
