"""Equivalence demo for r5: is_mdf_image (result variable -> early returns).

Compares smpl_extract.alcohol.mdf.is_mdf_image against an inline copy of the
ORIGINAL implementation: same return value, same exception, same ordered log
of tell/seek/read calls on the shared stream, same final stream position.
"""
import io
import random
import sys
from io import SEEK_SET

from construct.core import ConstructError

from smpl_extract.alcohol import mdf
from smpl_extract.alcohol.mdf import MdfSectorHeaderConstruct
from smpl_extract.alcohol.mdf import MDF_SECTOR_HEADER_MAGIC
from smpl_extract.alcohol.mdf import is_mdf_image


def original_is_mdf_image(stream):
    stream_head = stream.tell()
    stream.seek(0, SEEK_SET)

    result = True
    try:
        MdfSectorHeaderConstruct.parse_stream(stream)  # type: ignore
    except ConstructError:
        result = False

    stream.seek(stream_head, SEEK_SET)

    return result


class Boom(Exception):
    pass


class Recorder(io.BytesIO):
    """BytesIO that logs every call; optionally fails on the n-th read."""

    def __init__(self, data, fail_on_read=None, fail_with=Boom):
        super().__init__(data)
        self.log = []
        self.reads = 0
        self.fail_on_read = fail_on_read
        self.fail_with = fail_with

    def tell(self):
        r = super().tell()
        self.log.append(("tell", r))
        return r

    def seek(self, *a):
        r = super().seek(*a)
        self.log.append(("seek", a, r))
        return r

    def read(self, *a):
        self.reads += 1
        if self.fail_on_read is not None and self.reads == self.fail_on_read:
            self.log.append(("read-fail", a))
            raise self.fail_with("injected")
        r = super().read(*a)
        self.log.append(("read", a, r))
        return r


def run(fn, data, start, fail_on_read=None, fail_with=Boom):
    s = Recorder(data, fail_on_read, fail_with)
    io.BytesIO.seek(s, start)
    try:
        out = ("ret", fn(s))
    except BaseException as e:  # noqa
        out = ("exc", type(e).__name__, str(e))
    return out, s.log, io.BytesIO.tell(s)


def main():
    rng = random.Random(909)
    good = MDF_SECTOR_HEADER_MAGIC + b"\x00\x02\x00" + b"\x01"
    cases = [b"", good, good + b"\x00" * 2336, good[:-1], good[:5], good[:12],
             good[:15], b"\x00" * 16, b"\xFF" * 16, b"\x00" * 2352,
             good[:-1] + b"\x02", good[:-1] + b"\x00",
             b"MEDIA DESCRIPTOR" + b"\x00" * 100]
    # corrupt each byte of the header in turn
    for i in range(16):
        b = bytearray(good + b"\xAA" * 40)
        b[i] ^= 0x5A
        cases.append(bytes(b))
        b[i] ^= 0x5A
        b[i] = (b[i] + 1) & 0xFF
        cases.append(bytes(b))
    # truncated at every length
    for n in range(17):
        cases.append((good + b"zz")[:n])
    for _ in range(300):
        n = rng.choice([0, 1, 11, 12, 15, 16, 17, 100, 2352, 4704])
        body = bytearray(rng.getrandbits(8) for _ in range(n))
        if rng.random() < 0.6:
            body[:len(good)] = good[:n] if n < len(good) else good
        if rng.random() < 0.3 and n:
            body[rng.randrange(min(n, 16))] = rng.getrandbits(8)
        cases.append(bytes(body))

    checked = 0
    bad = 0
    for data in cases:
        starts = {0, 1, 7, 16, len(data) // 2, len(data), len(data) + 5}
        for start in sorted(starts):
            for fail_on_read, fail_with in (
                    (None, Boom), (1, Boom), (2, Boom), (3, Boom),
                    (1, OSError), (2, ValueError), (1, ConstructError)):
                a = run(original_is_mdf_image, data, start, fail_on_read, fail_with)
                b = run(is_mdf_image, data, start, fail_on_read, fail_with)
                checked += 1
                if a != b:
                    bad += 1
                    if bad < 10:
                        print("MISMATCH", data[:20], start, fail_on_read, a, b)

    # sanity: both polarities are really exercised
    assert run(is_mdf_image, good, 3)[0] == ("ret", True)
    assert run(is_mdf_image, b"\x00" * 16, 3)[0] == ("ret", False)
    assert run(is_mdf_image, good, 3)[2] == 3
    assert mdf.MDF_SECTOR_SIZE == 2352

    print("checked", checked, "mismatches", bad)
    return 1 if bad else 0


if __name__ == "__main__":
    sys.exit(main())
