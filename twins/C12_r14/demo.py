"""Equivalence demo for r14: smpl_extract.data_streams.StreamEncoding.__eq__.

StreamEncoding.__eq__ decides (in make_transcoder) whether the single source
already has the destination layout and byte order, i.e. whether bytes are
passed through or decoded / byte-swapped / re-interleaved.  The live method
is compared with an inline copy of the ORIGINAL on
  * every pair out of a large grid of encodings (byte order, width, channel
    count incl. 0, 1, negative, bool, float and numpy values, signedness),
  * operands that are not encodings,
  * field values that log every comparison / truth test made on them, so the
    order of operations (and short-circuiting) is compared as well,
  * field values for which the comparison raises.
Then make_transcoder is run end to end with the original __eq__ patched in
and with the live one; transcoder class, step names and bytes must agree.
Exit 0 when everything agrees, 1 otherwise.
"""
from io import BytesIO
import itertools
import sys
from typing import cast
from unittest.mock import patch

import numpy as np

import smpl_extract.transcoder as T
from smpl_extract.data_streams import DataStream
from smpl_extract.data_streams import Endianess
from smpl_extract.data_streams import StreamEncoding


def eq_ORIG(self, other):
    if not isinstance(other, StreamEncoding):
        return False
    other = cast(StreamEncoding, other)
    common_checks = (
        self.endianess == other.endianess,
        self.sample_width == other.sample_width,
        self.is_signed == other.is_signed,
        self.is_interleaved == other.is_interleaved
    )
    if not all(common_checks):
        return False

    if self.is_interleaved:
        if self.num_interleaved_channels != other.num_interleaved_channels:
            return False

    return True


LIVE_EQ = StreamEncoding.__eq__
LOG = []


class Truth:
    """Comparison result whose truth test is logged."""

    def __init__(self, tag, value):
        self.tag = tag
        self.value = value

    def __bool__(self):
        LOG.append(("bool", self.tag))
        return self.value

    def __eq__(self, other):
        LOG.append(("eq", self.tag, getattr(other, "tag", other)))
        return Truth(self.tag + "==", self.value == getattr(
            other, "value", other))

    __hash__ = None


class Field:
    """Field value that logs the comparisons made on it."""

    def __init__(self, tag, value, truthy=None, fail=None):
        self.tag = tag
        self.value = value
        self.truthy = truthy
        self.fail = fail

    def _res(self, op, other, value):
        LOG.append((op, self.tag, getattr(other, "tag", other)))
        if self.fail == op:
            raise ArithmeticError(op + self.tag)
        if self.truthy is not None:
            value = self.truthy
        return Truth(op + self.tag, value)

    def __eq__(self, other):
        return self._res("eq", other, self.value == getattr(
            other, "value", other))

    def __ne__(self, other):
        return self._res("ne", other, self.value != getattr(
            other, "value", other))

    def __gt__(self, other):
        return self._res("gt", other, self.value > getattr(
            other, "value", other))

    def __lt__(self, other):
        return self._res("lt", other, self.value < getattr(
            other, "value", other))

    def __hash__(self):
        return hash(self.value)


def outcome(f, a, b):
    del LOG[:]
    try:
        r = f(a, b)
    except BaseException as e:  # noqa
        return ("exc", type(e), str(e), list(LOG))
    return ("ok", type(r), r, list(LOG))


def transcode(specs, dest, block):
    def gnfp(stream, target_size=block):
        return max(1, target_size // stream.frame_size)

    with patch.object(T, "get_num_frames_possible", gnfp):
        try:
            streams = [DataStream(BytesIO(data), enc) for data, enc in specs]
            tr = T.make_transcoder(streams, dest)
            names = None
            if isinstance(tr, T.PipelineTranscoder):
                names = [p[0] for p in tr.pipeline.processes]
            return (type(tr).__name__, names, [bytes(b) for b in tr])
        except BaseException as e:  # noqa
            return ("exc", type(e), str(e))


def main():
    bad = 0
    n = 0

    # 1. grid of plain encodings, every ordered pair
    orders = [Endianess.LITTLE, Endianess.BIG, 1, 2, 3]
    widths = [1, 2, 4, 8, 0, 3, 2.0, np.int16(2)]
    chans = [0, 1, 2, 3, -1, True, False, 1.5, 2.0, np.int8(2), np.int8(1)]
    signs = [True, False, 1, 0]
    encs = [
        StreamEncoding(o, w, c, s)
        for o, w, c, s in itertools.product(orders, widths, chans, signs)
    ]
    rng = np.random.default_rng(14)
    pairs = [(a, a) for a in encs]
    idx = rng.integers(0, len(encs), (60000, 2))
    pairs += [(encs[i], encs[j]) for i, j in idx]
    # near misses: change exactly one field
    for a in encs[::7]:
        for o, w, c, s in ((Endianess.BIG, None, None, None),
                           (None, 4, None, None), (None, None, 3, None),
                           (None, None, 1, None), (None, None, None, False)):
            b = StreamEncoding(
                a.endianess if o is None else o,
                a.sample_width if w is None else w,
                a.num_interleaved_channels if c is None else c,
                a.is_signed if s is None else s)
            pairs += [(a, b), (b, a)]
    for a, b in pairs:
        ra = outcome(eq_ORIG, a, b)
        rb = outcome(LIVE_EQ, a, b)
        n += 1
        if ra != rb:
            bad += 1
            print("MISMATCH", a, b, ra, rb)
        # operators go through the live method
        if ra[0] == "ok" and ((a == b) is not ra[2] or (a != b) is ra[2]):
            bad += 1
            print("OPERATOR MISMATCH", a, b)

    # 2. operands that are not encodings
    e = StreamEncoding()
    for other in (None, 0, 1, "x", (Endianess.LITTLE, 1, 1, True), object(),
                  DataStream(BytesIO(b"")), StreamEncoding):
        ra = outcome(eq_ORIG, e, other)
        rb = outcome(LIVE_EQ, e, other)
        n += 1
        if ra != rb:
            bad += 1
            print("MISMATCH non-encoding", other, ra, rb)

    # 3. logged operations, short-circuit order, failures
    for truthy in itertools.product((None, True, False), repeat=4):
        for fail in (None, ("o", "eq"), ("w", "eq"), ("s", "eq"),
                     ("c", "gt"), ("c", "ne"), ("c", "eq")):
            for ca, cb in ((1, 1), (2, 2), (2, 3), (1, 2), (3, 1), (0, 0)):
                def mk(side, cval):
                    def fld(name, value, t):
                        f = fail[1] if fail and fail[0] == name else None
                        return Field(name + side, value, t, f)
                    return StreamEncoding(
                        fld("o", 1, truthy[0]), fld("w", 2, truthy[1]),
                        fld("c", cval, truthy[3]), fld("s", 1, truthy[2]))
                a, b = mk("A", ca), mk("B", cb)
                ra = outcome(eq_ORIG, a, b)
                rb = outcome(LIVE_EQ, a, b)
                n += 1
                if ra != rb:
                    bad += 1
                    print("MISMATCH logged", truthy, fail, ca, cb)
                    print("   ", ra)
                    print("   ", rb)

    # incomparable channel counts
    for ca, cb in ((None, 1), (1, None), ("2", 2), (2, "2"), ([1], [1]),
                   (1 + 1j, 2)):
        a = StreamEncoding(Endianess.LITTLE, 2, ca, True)
        b = StreamEncoding(Endianess.LITTLE, 2, cb, True)
        ra = outcome(eq_ORIG, a, b)
        rb = outcome(LIVE_EQ, a, b)
        n += 1
        if ra != rb:
            bad += 1
            print("MISMATCH incomparable", ca, cb, ra, rb)

    # 4. end to end: selection of the transcoder and produced bytes
    ords = [Endianess.LITTLE, Endianess.BIG]
    for host in ords:
        for width in (1, 2, 4):
            for chans_ in ([1], [2], [3], [0], [1, 1], [2, 1]):
                total = sum(max(1, c) for c in chans_)
                for so in itertools.product(ords, repeat=len(chans_)):
                    for do, dsigned, dwidth, dch in itertools.product(
                            ords, (True, False), (width, 2),
                            (total, 1, 0)):
                        specs = []
                        for k, (c, o) in enumerate(zip(chans_, so)):
                            nb = (9 + 2 * k) * max(1, c) * width + 1
                            data = rng.integers(
                                0, 256, nb, dtype=np.uint8).tobytes()
                            specs.append(
                                (data, StreamEncoding(o, width, c, True)))
                        dest = StreamEncoding(do, dwidth, dch, dsigned)
                        for block in (1, 16, 4096):
                            with patch.object(T, "system_byte_order", host):
                                with patch.object(
                                        StreamEncoding, "__eq__", eq_ORIG):
                                    ra = transcode(specs, dest, block)
                                rb = transcode(specs, dest, block)
                            n += 1
                            if ra != rb:
                                bad += 1
                                print("E2E MISMATCH", host, width, chans_,
                                      so, dest, block)

    print(f"{n} comparisons, {bad} mismatches")
    return 1 if bad else 0


if __name__ == "__main__":
    sys.exit(main())
