"""Equivalence demo for r1: FileAllocationTable.get_path (smpl_extract/util/fat.py).

Compares the live get_path against an inline copy of the ORIGINAL
implementation on exhaustive small link tables and on random large ones.
Exit 0 when everything agrees, 1 otherwise.
"""
import itertools
import random
import sys

from smpl_extract.util.fat import FileAllocationTable
from smpl_extract.util.fat import InvalidFatDefinition
from smpl_extract.util.fat import RequestedInvalidSector
from smpl_extract.util.fat import SectorLink


def original_get_path(self, starting_sector):
    path = []
    current_sector = starting_sector

    loop_cnt = 0
    while loop_cnt < self.size:
        if current_sector >= len(self.sector_links):
            raise RequestedInvalidSector

        path.append(current_sector)
        sector_link = self.sector_links[current_sector]

        if sector_link.end:
            break
        current_sector = sector_link.next
        loop_cnt += 1

    if loop_cnt >= self.size:
        raise InvalidFatDefinition("Broken FAT. Loop? Sector path exceeds size?")

    return path


def outcome(fn, *args):
    try:
        return ("ok", fn(*args))
    except Exception as e:  # noqa: BLE001 - we compare every exception
        return ("exc", type(e), e.args)


checked = 0
mismatches = 0


def compare(size, links, start):
    global checked, mismatches
    fat = FileAllocationTable(None, size, links)
    new = outcome(fat.get_path, start)
    old = outcome(original_get_path, fat, start)
    checked += 1
    if new != old:
        mismatches += 1
        if mismatches <= 10:
            print("MISMATCH size=%r start=%r links=%r\n  new=%r\n  old=%r"
                  % (size, start, links, new, old))


# --- exhaustive: every table of n <= 4 sectors ------------------------------
for n in range(0, 5):
    # each entry: end marker, or link to any of -1 .. n+1 (includes
    # out-of-range and the negative-index wrap-around)
    entry_choices = [SectorLink(next=0, end=True)]
    entry_choices += [SectorLink(next=t, end=False) for t in range(-1, n + 2)]
    for table in itertools.product(entry_choices, repeat=n):
        links = list(table)
        for size in range(-1, n + 3):
            for start in range(-2, n + 3):
                compare(size, links, start)

# --- empty / default-constructed table ---------------------------------------
for start in (-1, 0, 1):
    fat = FileAllocationTable(None)
    a = outcome(fat.get_path, start)
    b = outcome(original_get_path, fat, start)
    checked += 1
    if a != b:
        mismatches += 1
        print("MISMATCH default table", start, a, b)

# --- random: real-size tables with cycles, cross-links, merges --------------
rng = random.Random(0xC07)
for trial in range(300):
    n = rng.choice([50, 500, 5000, 11386])
    links = []
    for i in range(n):
        r = rng.random()
        if r < 0.05:
            links.append(SectorLink(next=0, end=True))
        elif r < 0.85:
            links.append(SectorLink(next=min(i + 1, n - 1), end=False))
        elif r < 0.97:
            links.append(SectorLink(next=rng.randrange(n), end=False))
        else:
            links.append(SectorLink(next=rng.randrange(n, 2 * n), end=False))
    for size in (n, n // 2, 3, n + 7):
        for _ in range(12):
            compare(size, links, rng.randrange(-2, n + 3))

# pure chains of exactly size / size-1 / size+1 links (boundary of the guard)
for n in range(1, 40):
    links = [SectorLink(next=i + 1, end=False) for i in range(n)]
    links[-1] = SectorLink(next=0, end=True)
    for size in (n - 1, n, n + 1):
        compare(size, links, 0)
    # single cycle through all sectors
    links = [SectorLink(next=(i + 1) % n, end=False) for i in range(n)]
    for size in (n - 1, n, n + 1, 3 * n):
        compare(size, links, 0)

print("checked %d cases, %d mismatches" % (checked, mismatches))
sys.exit(1 if mismatches else 0)
