"""Equivalence demo for the _c_chicken_sys_convolve_valid refactoring (fir.pyx).

fir.pyx ships pre-built and Cython is not installed, so the edited text has
no runtime effect on the compiled module.  To still exercise the *edited
text*, `_c_bound_and_fix` and `_c_chicken_sys_convolve_valid` are cut out of
smpl_extract/filters/fir.pyx and mechanically rewritten into plain Python
(cdef declarations -> assignments, C casts -> conversion calls with C
semantics, typed-memoryview annotations dropped, libc round() modelled
exactly).  The same is done with an inline copy of the ORIGINAL kernel.
Compared are

  * ORIGINAL vs CURRENT kernel vs the compiled kernel on many (x, h, k):
    all length relations (n_h > n_x, n_h == n_x, n_h == 0, n_x == 0),
    saturating values, exact .5 quotients, negative gains, k == 0,
  * block-wise streaming of the ChickenSys FIR (every split of short
    signals, random splits of long ones) where the classes of the .pyx text
    run on top of the ORIGINAL / CURRENT Python kernels, against the
    compiled ChickSysCustomFirFilter and the ChickSysRolandDeemphFilter preset.

Exit 0 when everything agrees, 1 otherwise.
"""
import itertools
import math
import os
import random
import re
import sys
import types
import warnings
from typing import Optional

import numpy as np

import smpl_extract.filters.fir as compiled
from smpl_extract.filters import common

warnings.simplefilter("ignore")

PYX = os.path.join(os.path.dirname(os.path.abspath(compiled.__file__)), "fir.pyx")

ORIGINAL_KERNEL = '''\
@cython.boundscheck(False)
@cython.wraparound(False)
@cython.cdivision(True)
cdef _c_chicken_sys_convolve_valid(
    short[:] x,
    short[:] h,
    int k
):

    assert k != 0
    cdef size_t n_x = x.shape[0]                # Constant
    cdef size_t n_h = h.shape[0]                # Constant

    # this implementation presumes len(x) > len(h)
    # else the convolution is invalid
    if n_h > n_x:
        y = np.asarray([], dtype=np.int16)
        return y

    cdef size_t n_y = n_x - n_h + 1             # Constant
    if n_y < 0:
        n_y = 0

    cdef size_t h_ubound_inclusive = n_h - 1    # Constant
    cdef size_t x_ubound_exclusive = n_h        # Variable

    # malloc result
    y = np.zeros(n_y, dtype=np.int16)
    cdef short[:] y_view = y

    cdef size_t h_index = 0
    cdef size_t x_index = 0
    cdef double y_cur = 0.0
    cdef short y_final = 0

    cdef size_t i

    for i in range(n_y):

        y_cur = 0.0
        h_index = h_ubound_inclusive
        for x_index in range(i, x_ubound_exclusive):
            y_cur += cround(<double>((<int>x[x_index]) * (<int>h[h_index])) / k)
            h_index -= 1

        y_final = _c_bound_and_fix(y_cur)

        y_view[i] = y_final
        x_ubound_exclusive += 1

    return y
'''


# ------------------------------------------------------- Cython -> Python
def c_round(v):
    """libc round(): nearest integer as double, halfway cases away from zero"""
    v = float(v)
    if v != v or v in (float("inf"), float("-inf")):
        return v
    t = math.copysign(float(math.trunc(v)), v)
    if abs(v - t) >= 0.5:            # v - t is exact
        t += math.copysign(1.0, v)
    return t


def c_int(v):
    v = int(v)
    assert -2 ** 31 <= v < 2 ** 31
    return v


def c_short(v):
    assert float(v) == int(v) and -32768 <= int(v) <= 32767, v   # no UB in the cast
    return int(v)


def c_double(v):
    return float(v)


_CONV = {"int": "c_int", "short": "c_short", "double": "c_double"}
_CTYPE = r"(?:size_t|double|short|int)"


def _operand_end(s, pos):
    """end index of the C unary operand starting at s[pos]"""
    n = len(s)
    while pos < n and s[pos] == " ":
        pos += 1

    def skip_group(p):
        pairs = {"(": ")", "[": "]"}
        stack = [pairs[s[p]]]
        p += 1
        while stack:
            c = s[p]
            if c in pairs:
                stack.append(pairs[c])
            elif c == stack[-1]:
                stack.pop()
            p += 1
        return p

    if s[pos] == "(":
        pos = skip_group(pos)
    else:
        m = re.compile(r"[\w\.]+").match(s, pos)
        pos = m.end()
    while pos < n and s[pos] in "([":
        pos = skip_group(pos)
    return pos


def _wrap_casts(line):
    cast = re.compile(r"<\s*(int|short|double)\s*>")
    while True:
        ms = list(cast.finditer(line))
        if not ms:
            return line
        m = ms[-1]                               # innermost / rightmost first
        end = _operand_end(line, m.end())
        line = "%s%s(%s)%s" % (line[:m.start()], _CONV[m.group(1)],
                               line[m.end():end].strip(), line[end:])


def _join_parens(lines):
    out, buf, depth = [], "", 0
    for line in lines:
        code = line.split("#", 1)[0]
        buf = (buf + " " + code.strip()) if buf else (code.rstrip() if depth or "(" in code else line.rstrip("\n"))
        depth += code.count("(") - code.count(")")
        if depth <= 0:
            out.append(buf)
            buf, depth = "", 0
    if buf:
        out.append(buf)
    return out


def cy2py(text):
    lines = []
    for line in _join_parens(text.splitlines()):
        if line.strip().startswith("@cython"):
            continue
        m = re.match(r"^(?:cdef(?:\s+(?:void|double|short))?|def)\s+(\w+)\s*\((.*)\)\s*:\s*$", line)
        if m:
            params = [re.split(r"[\s\*]+", p.strip())[-1] for p in m.group(2).split(",") if p.strip()]
            lines.append("def %s(%s):" % (m.group(1), ", ".join(params)))
            continue
        m = re.match(r"^(\s*)cdef\s+%s(?:\[:\])?\s*(\w+)\s*=\s*(.*)$" % _CTYPE, line)
        if m:
            line = "%s%s = %s" % m.groups()
        elif re.match(r"^\s*cdef\s+%s\s*\w+\s*$" % _CTYPE, line):
            line = re.match(r"^(\s*)", line).group(1) + "pass"
        lines.append(_wrap_casts(line))
    return "\n".join(lines) + "\n"


def _cut_function(all_lines, name):
    start = next(i for i, l in enumerate(all_lines)
                 if re.match(r"^(?:cdef(?:\s+\w+)?|def)\s+%s\s*\(" % name, l))
    end = len(all_lines)
    for j in range(start + 1, len(all_lines)):
        l = all_lines[j]
        if l.strip() and not l[0].isspace() and not l.lstrip().startswith(")"):
            end = j
            break
    return "".join(all_lines[start:end])


def _cut_class(lines, name):
    start = next(i for i, l in enumerate(lines) if l.startswith("class " + name))
    end = len(lines)
    for j in range(start + 1, len(lines)):
        l = lines[j]
        if l.strip() and not l[0].isspace():
            end = j
            break
    return "".join(lines[start:end])


def build_namespace(kernel_text=None):
    with open(PYX, "r", encoding="utf-8") as fh:
        all_lines = fh.readlines()
    ns = {"np": np, "Optional": Optional, "cround": c_round,
          "c_int": c_int, "c_short": c_short, "c_double": c_double}
    exec(compile(cy2py(_cut_function(all_lines, "_c_bound_and_fix")), PYX + ":bound", "exec"), ns)
    text = kernel_text or _cut_function(all_lines, "_c_chicken_sys_convolve_valid")
    src = cy2py(text)
    ns["__kernel_source__"] = src
    exec(compile(src, PYX + ":kernel", "exec"), ns)
    raw = ns["_c_chicken_sys_convolve_valid"]

    def typed_kernel(x, h, k):
        # what the `short[:] x, short[:] h, int k` signature enforces
        for a in (x, h):
            if not (isinstance(a, np.ndarray) and a.dtype == np.int16 and a.ndim == 1):
                raise ValueError("Buffer dtype mismatch")
        return raw(x, h, c_int(k))

    ns["_c_chicken_sys_convolve_valid"] = typed_kernel
    exec(compile(_cut_class(all_lines, "FirFilter"), PYX + ":FirFilter", "exec"), ns)
    exec(compile(_cut_class(all_lines, "ChickSysCustomFirFilter"), PYX + ":Chick", "exec"), ns)
    return ns


ORIG = build_namespace(ORIGINAL_KERNEL)
TEXT = build_namespace()


def compiled_kernel(x, h, k):
    holder = types.SimpleNamespace(k_gain=k)
    return compiled.ChickSysCustomFirFilter.convolve_valid(holder, x, h)


FAILS = []
CHECKS = [0]


def expect(label, ok, *info):
    CHECKS[0] += 1
    if not ok:
        FAILS.append((label,) + info)


def same_arr(a, b):
    return (isinstance(a, np.ndarray) and isinstance(b, np.ndarray) and a.dtype == b.dtype
            and a.shape == b.shape and a.tobytes() == b.tobytes())


def outcome(fn):
    try:
        return ("ok", fn())
    except BaseException as e:  # noqa
        return ("exc", type(e).__name__)


def same_outcome(a, b):
    if a[0] != b[0]:
        return False
    if a[0] == "exc":
        return a[1] == b[1]
    return same_arr(a[1], b[1])


def state(f):
    return {k: ((v.dtype, v.shape, v.tobytes()) if isinstance(v, np.ndarray) else v)
            for k, v in sorted(vars(f).items()) if k != "h"}


rng = random.Random(1912)
nrng = np.random.default_rng(1912)

ROLAND = np.asarray([1, -2, 5, -11, 25, -65, 176, -460, 9981, 32767, 9981,
                     -460, 176, -65, 25, -11, 5, -2, 1], dtype=np.int16)
EXTREMES = np.asarray([-32768, -32767, -1, 0, 1, 32766, 32767], dtype=np.int16)


def three_kernels(label, x, h, k):
    o = outcome(lambda: ORIG["_c_chicken_sys_convolve_valid"](x, h, k))
    t = outcome(lambda: TEXT["_c_chicken_sys_convolve_valid"](x, h, k))
    c = outcome(lambda: compiled_kernel(x, h, k))
    expect(label, same_outcome(o, t) and same_outcome(o, c), x, h, k, o, t, c)


def splits(n):
    if n == 0:
        yield []
        return
    if n <= 7:
        for bits in itertools.product([0, 1], repeat=n - 1):
            yield [i + 1 for i, b in enumerate(bits) if b] + [n]
    else:
        yield [n]
        yield list(range(1, n + 1))
        for _ in range(4):
            k = rng.randint(0, min(n - 1, 10))
            yield sorted(rng.sample(range(1, n), k)) + [n]


def run_stream(f, x, cuts):
    out = []
    lo = 0
    for hi in cuts:
        out.append(f.process(x[lo:hi]))
        lo = hi
    out.append(f.get_remaining())
    return np.concatenate(out)


def main():
    # 0. the rewriting picked the kernel up, and the two texts are what we think
    expect("orig translated", "h_index -= 1" in ORIG["__kernel_source__"]
           and "c_double(((c_int(x[x_index])) * (c_int(h[h_index])))) / k" in ORIG["__kernel_source__"],
           ORIG["__kernel_source__"])
    expect("text translated", "c_double(" in TEXT["__kernel_source__"]
           and "<" not in re.sub(r"#.*", "", TEXT["__kernel_source__"]).replace("<=", "").replace(" < ", ""),
           TEXT["__kernel_source__"])
    for v, r in [(0.5, 1.0), (-0.5, -1.0), (1.5, 2.0), (2.5, 3.0), (-2.5, -3.0), (0.49999999999999994, 0.0),
                 (-0.49999999999999994, -0.0), (4503599627370497.0, 4503599627370497.0), (1e300, 1e300)]:
        expect("c_round", repr(c_round(v)) == repr(r), v, c_round(v))

    # 1. kernel against kernel: every length relation, small exhaustive-ish values
    gains = [1, -1, 2, -2, 3, 4, 7, 52067, -52067, 2 ** 31 - 1, -2 ** 31]
    for n_h in range(0, 6):
        for n_x in range(0, 10):
            for _ in range(6):
                mode = rng.randint(0, 2)
                if mode == 0:
                    x = nrng.integers(-32768, 32768, n_x).astype(np.int16)
                    h = nrng.integers(-32768, 32768, n_h).astype(np.int16)
                elif mode == 1:
                    x = nrng.choice(EXTREMES, n_x)
                    h = nrng.choice(EXTREMES, n_h)
                else:
                    x = nrng.integers(-9, 10, n_x).astype(np.int16)     # many exact .5 quotients
                    h = nrng.integers(-9, 10, n_h).astype(np.int16)
                three_kernels("kernel %d %d" % (n_x, n_h), x, h, rng.choice(gains))
    # asymmetric kernels make the flip direction visible
    for h in (np.asarray([1, 0, 0], dtype=np.int16), np.asarray([0, 0, 1], dtype=np.int16),
              np.asarray([1, 2, 3, 4, 5, 6, 7], dtype=np.int16), ROLAND, ROLAND[:9], ROLAND[4:]):
        for k in (1, 2, 52067):
            for n_x in (0, 1, len(h) - 1, len(h), len(h) + 1, 3 * len(h) + 2):
                x = nrng.integers(-32768, 32768, n_x).astype(np.int16)
                three_kernels("asym", x, h, k)
                x = np.arange(1, n_x + 1, dtype=np.int16)
                three_kernels("ramp", x, h, k)
                # non-contiguous views
                xx = nrng.integers(-32768, 32768, 2 * n_x).astype(np.int16)[::2]
                three_kernels("strided", xx, h[::-1], k)
    # saturation: sums far beyond the int16 range in both directions
    for n_h in (1, 2, 5, 19):
        for sx, sh in itertools.product((32767, -32768), repeat=2):
            x = np.full(n_h + 6, sx, dtype=np.int16)
            h = np.full(n_h, sh, dtype=np.int16)
            for k in (1, -1, 2, 16384, 32768, -32768):
                three_kernels("saturate", x, h, k)
    # failing calls
    x5 = np.arange(5, dtype=np.int16)
    h2 = np.asarray([1, 1], dtype=np.int16)
    three_kernels("k=0", x5, h2, 0)
    three_kernels("k=0, short input", h2[:1], h2, 0)
    three_kernels("int32 h", x5, h2.astype(np.int32), 3)
    three_kernels("2-d x", np.zeros((2, 3), dtype=np.int16), h2, 3)

    # 2. streaming through the classes of the .pyx text on top of either kernel
    cfgs = [(ROLAND, 7, 52067), (ROLAND, 0, 52067), (ROLAND, 18, 52067), (ROLAND, 9, 1),
            (np.asarray([1, 2, 1], dtype=np.int16), 1, 4),
            (np.asarray([3, -2], dtype=np.int16), 0, 2),
            (np.asarray([32767, 32767], dtype=np.int16), 0, 1),
            (np.asarray([3], dtype=np.int16), 0, -2)]
    sigs = [nrng.integers(-32768, 32768, n).astype(np.int16) for n in range(0, 8)]
    sigs += [np.full(30, 32767, dtype=np.int16), np.full(30, -32768, dtype=np.int16),
             np.asarray([32767, -32768] * 20, dtype=np.int16)]
    sigs += [nrng.integers(-32768, 32768, rng.randint(8, 120)).astype(np.int16) for _ in range(5)]
    sigs += [nrng.choice(EXTREMES, 50)]
    for h, m0, k in cfgs:
        for x in sigs:
            for cuts in splits(len(x)):
                fs = [ORIG["ChickSysCustomFirFilter"](h, m0, k), TEXT["ChickSysCustomFirFilter"](h, m0, k),
                      compiled.ChickSysCustomFirFilter(h, m0, k)]
                outs = [outcome(lambda f=f: run_stream(f, x, cuts)) for f in fs]
                expect("stream", same_outcome(outs[0], outs[1]) and same_outcome(outs[0], outs[2]), m0, k, cuts)
                expect("stream state", state(fs[0]) == state(fs[1]) == state(fs[2]))
    for x in sigs:
        for cuts in splits(len(x)):
            f = common.ChickSysRolandDeemphFilter()
            g = TEXT["ChickSysCustomFirFilter"](ROLAND, 7, 52067)
            a, b = outcome(lambda: run_stream(f, x, cuts)), outcome(lambda: run_stream(g, x, cuts))
            expect("preset", same_outcome(a, b) and state(f) == state(g), cuts)

    print("checks: %d, failures: %d" % (CHECKS[0], len(FAILS)))
    for f in FAILS[:10]:
        print("FAIL", f)
    return 1 if FAILS else 0


if __name__ == "__main__":
    sys.exit(main())
