"""Equivalence demo for akai Volume._realize_files / Volume.files (C06, r17).

The live class is compared against a subclass carrying an inline copy of the
ORIGINAL bodies.  Both are driven by scripted fake file entries whose `.file`
property logs every access and returns a value, returns None, or raises
(InvalidFileEntry, a subclass of it, several ConstructError subclasses, or an
unrelated error that must propagate).  Routines log their calls and
reverse / filter / replace / raise.  After every access of `.files` /
`.children` the returned object, the access log, `_files`,
`_is_files_realized` and the exception type/message must agree, also on
repeated access after an exception.  A second part installs the real
make_safe_names / make_export_names routines of an Image on a volume with
hostile names and compares the assigned names and export paths.
Exit status 0 when everything agrees, 1 otherwise.
"""
import itertools
import random
import sys
from typing import List

from construct.core import ConstructError
from construct.core import StreamError
from construct.core import ConstError

from smpl_extract.akai.file_entry import FileEntry
from smpl_extract.akai.file_entry import InvalidFileEntry
from smpl_extract.akai.volume import Volume
from smpl_extract.base import ElementTypes
from smpl_extract.elements import LeafElement
from smpl_extract.structural import Image


# --------------------------------------------------------------------------
# ORIGINAL implementation (verbatim bodies)
# --------------------------------------------------------------------------
class OriginalVolume(Volume):

    def _realize_files(self):
        for file_entry in self.file_entries:
            try:
                file = file_entry.file
            except (InvalidFileEntry, ConstructError) as e:
                file = None

            if file is not None:
                self._files.append(file)
        self._is_files_realized = True

    @property
    def files(self) -> List[FileEntry]:
        if not self._is_files_realized:
            self._realize_files()
            files = self._files
            for routine in self._routines.values():
                files = routine(files)
            self._files = files
        return self._files  # type: ignore

    @property
    def children(self):
        return self.files


FAILURES = []


def check(label, left, right):
    if left != right:
        FAILURES.append(label)
        print("MISMATCH", label)
        print("   original:", repr(left)[:400])
        print("   live    :", repr(right)[:400])


# --------------------------------------------------------------------------
# scripted fakes
# --------------------------------------------------------------------------
class SubInvalid(InvalidFileEntry):
    pass


class Unrelated(Exception):
    pass


class Falsy:
    """A non-None but falsy file object: must be kept."""
    def __init__(self, tag):
        self.tag = tag

    def __bool__(self):
        return False

    def __repr__(self):
        return f"<Falsy {self.tag}>"


class FakeEntry:
    def __init__(self, log, index, behaviour):
        self.log = log
        self.index = index
        self.behaviour = behaviour
        self.calls = 0

    @property
    def file(self):
        self.calls += 1
        self.log.append(("file", self.index, self.calls))
        kind = self.behaviour
        if isinstance(kind, tuple) and kind[0] == "once":
            # raise the first time, give a value afterwards
            if self.calls == 1:
                raise kind[1]("first access of %d" % self.index)
            return "late-%d" % self.index
        if isinstance(kind, type) and issubclass(kind, BaseException):
            raise kind("entry %d" % self.index)
        return kind


BEHAVIOURS = [
    "value", None, 0, "", Falsy("f"),
    InvalidFileEntry, SubInvalid, ConstructError, StreamError, ConstError,
    Unrelated, KeyError, StopIteration, AttributeError,
    ("once", Unrelated), ("once", InvalidFileEntry),
]


def make_entries(log, behaviours):
    result = []
    for index, behaviour in enumerate(behaviours):
        if behaviour == "value":
            behaviour = "file-%d" % index
        result.append(FakeEntry(log, index, behaviour))
    return result


def make_routines(log, spec):
    routines = {}
    for position, kind in enumerate(spec):
        def routine(files, kind=kind, position=position):
            log.append(("routine", position, kind, list(files), id(files) == id(files)))
            if kind == "reverse":
                return list(reversed(files))
            if kind == "filter":
                return [f for f in files if f is not None and "1" not in repr(f)]
            if kind == "same":
                return files
            if kind == "tuple":
                return tuple(files)
            if kind == "none":
                return None
            if kind == "raise":
                raise Unrelated("routine %d" % position)
            if kind == "mutate":
                files.append("added-by-routine")
                return files
            raise AssertionError(kind)
        routines["r%d" % position] = routine
    return routines


def snapshot(volume):
    return (
        repr(volume._files), type(volume._files).__name__,
        volume._is_files_realized,
    )


def drive(cls, behaviours, routine_spec, accesses, flag_value=False, as_none=False):
    log = []
    trace = []
    volume = cls(
        name="VOL",
        path=["A", "VOL"],
        routines=None if as_none else make_routines(log, routine_spec),
        file_entries=make_entries(log, behaviours),
    )
    if flag_value is not False:
        volume._is_files_realized = flag_value
    for attribute in accesses:
        try:
            value = getattr(volume, attribute)
            same = value is volume._files
            trace.append(("ok", repr(value), type(value).__name__, same))
        except BaseException as error:  # noqa
            trace.append(("exc", type(error).__name__, str(error)))
        trace.append(snapshot(volume))
    return trace, log


def compare(label, *args, **kwargs):
    left = drive(OriginalVolume, *args, **kwargs)
    right = drive(Volume, *args, **kwargs)
    check(label, left, right)


def part_one():
    count = 0
    accesses = ["files", "children", "files"]
    # every single behaviour, every pair
    for n in (0, 1, 2):
        for behaviours in itertools.product(BEHAVIOURS, repeat=n):
            for spec in ([], ["reverse"], ["same", "filter"], ["raise"], ["mutate", "tuple"]):
                compare(f"p1 {behaviours!r} {spec!r}", list(behaviours), spec, accesses)
                count += 1
    # random longer scenarios
    rng = random.Random(1706)
    kinds = ["reverse", "filter", "same", "tuple", "none", "raise", "mutate"]
    for trial in range(3000):
        behaviours = [rng.choice(BEHAVIOURS) for _ in range(rng.randint(0, 9))]
        spec = [rng.choice(kinds) for _ in range(rng.randint(0, 4))]
        acc = [rng.choice(["files", "children"]) for _ in range(rng.randint(1, 4))]
        flag = rng.choice([False, False, False, True, 0, 1, "", "x", None, []])
        compare(
            f"p1 random {trial}", behaviours, spec, acc,
            flag_value=flag, as_none=rng.random() < 0.1
        )
        count += 1
    return count


# --------------------------------------------------------------------------
# part two: real name routines installed on a volume
# --------------------------------------------------------------------------
class FakeFile(LeafElement):
    type_name = "fake"

    def __init__(self, name, type_id, path):
        self.name = name
        self.type_id = type_id
        self._path = path
        self._parent = None
        self._safe_name = None
        self._export_name = None

    def __repr__(self):
        return f"<FakeFile {self.name!r}>"


class NamedEntry:
    def __init__(self, name, type_id, fails):
        self.name = name
        self.type_id = type_id
        self.fails = fails

    @property
    def file(self):
        if self.fails:
            raise self.fails("bad " + self.name)
        return FakeFile(self.name, self.type_id, ["A", "VOL", self.name])


NAMES = [
    "KICK", "KICK", "KICK (2)", "kick", "a/b", "a\\b", "..", ".", "", " ",
    "'quoted'", "SN -L", "SN -R", "SN", "x:y", "x y", "x?y", "x*y", "\x00\x01",
    "BASS  L", "BASS  R", "BASS (2) L", "träck", "a.", "a. ", "-lead",
]


def run_named(cls, names, fails):
    image = Image(lambda context: [])
    routines = {
        "make_safe_names": image.make_safe_names_routine,
        "make_export_names": image.make_export_names_routine,
    }
    entries = [
        NamedEntry(
            name,
            ElementTypes.DirectoryEntry if index % 5 == 4 else ElementTypes.SampleEntry,
            fail
        )
        for index, (name, fail) in enumerate(zip(names, fails))
    ]
    volume = cls(name="VOL", path=["A", "VOL"], routines=routines, file_entries=entries)
    out = []
    for attribute in ("children", "files"):
        try:
            files = getattr(volume, attribute)
            out.append([
                (f.name, f.safe_name, f.export_name, f.export_path()) for f in files
            ])
        except BaseException as error:  # noqa
            out.append(("exc", type(error).__name__, str(error)))
    return out


def part_two():
    rng = random.Random(606)
    count = 0
    for trial in range(600):
        names = [rng.choice(NAMES) for _ in range(rng.randint(0, 12))]
        fails = [
            rng.choice([None, None, None, InvalidFileEntry, ConstructError, SubInvalid])
            for _ in names
        ]
        if trial % 50 == 49 and names:
            fails[rng.randrange(len(names))] = Unrelated
        check(
            f"p2 {trial}",
            run_named(OriginalVolume, names, fails),
            run_named(Volume, names, fails)
        )
        count += 1
    return count


def main():
    total = part_one() + part_two()
    if FAILURES:
        print(f"{len(FAILURES)} of {total} scenarios differ")
        return 1
    print(f"all {total} scenarios agree")
    return 0


if __name__ == "__main__":
    sys.exit(main())
