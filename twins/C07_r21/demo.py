"""Equivalence demo for r21: FileAllocationTable.get_path
(smpl_extract/util/fat.py) - the chain walk moved into a private generator
method `_iter_path` (yield instead of path.append, `return` instead of the
`break` on an end-of-chain entry, the trailing `if loop_cnt >= self.size:
raise` now an unconditional raise after the bounded loop) and get_path is
`return list(self._iter_path(starting_sector))`.

`OriginalFileAllocationTable` below is a verbatim copy of the ORIGINAL class.
The module's class (and its subclasses SegmentAllocationTable /
RolandFileAllocationTable, which inherit the walk) is compared with it on

 * exhaustively, every link table over 0..4 sectors with each entry drawn from
   {end, link to -1 .. size+1}, every start sector -2 .. size+2, and several
   declared sizes (equal to, smaller and larger than the number of entries, 0
   and negative) - cycles, self links, merged chains, links beyond the table
   and negative links included;
 * ill-typed start sectors and link values, tables given as tuples, a table
   type that records how it is read (order of len() / [] accesses), entries
   whose `end` / `next` attributes are read through recording properties;
 * randomly, tables of real size (11386 / 65536 entries) with long chains,
   injected cycles and cross links, built through add_to_sector_links;
 * the callers get_segment() and get_file(): sector list of the stream handed
   out, or the exception;
 * the shape of the class: constructor signature and defaults, instance
   attributes after construction, get_path signature, the public subclasses
   still deriving from FileAllocationTable, a user subclass that overrides
   get_path and calls super(), no class-level `size` / `sector_links`
   attribute shadowing the instance state;
 * two successive calls return two distinct, equal, plain lists (nothing is
   cached or shared between walks), and a walk that raises leaves the table
   usable for the next walk.

Outcome = returned path (a fresh list each time) or the exception (type, text).
The time taken over all malformed tables is bounded by the run itself.
"""
import inspect
import io
import itertools
import random
import sys
from io import IOBase
from typing import List
from typing import Optional

from smpl_extract.akai.sat import SegmentAllocationTable
from smpl_extract.roland.s7xx.fat import RolandFileAllocationTable
from smpl_extract.util import fat as fat_module
from smpl_extract.util.fat import FileAllocationTable
from smpl_extract.util.fat import InvalidFatDefinition
from smpl_extract.util.fat import RequestedInvalidSector
from smpl_extract.util.fat import SectorLink
from smpl_extract.util.fat import add_to_sector_links


# ---------------------------------------------------------------- original
class OriginalFileAllocationTable:


    def __init__(
            self,
            parent_stream: IOBase,
            size: int = 0,
            sector_links: Optional[List[SectorLink]] = None
    ) -> None:
        self.parent_stream = parent_stream
        self.size = size
        self.sector_links = sector_links or []


    def get_path(
            self,
            starting_sector: int
    )->List[int]:

        path = []
        current_sector = starting_sector

        loop_cnt = 0
        while loop_cnt < self.size:
            if current_sector >= len(self.sector_links):
                raise RequestedInvalidSector

            path.append(current_sector)
            sector_link = self.sector_links[current_sector]

            if sector_link.end:
                break
            current_sector = sector_link.next
            loop_cnt += 1

        if loop_cnt >= self.size:
            raise InvalidFatDefinition("Broken FAT. Loop? Sector path exceeds size?")

        return path


# ------------------------------------------------------------------ helpers
class RecordingTable(list):
    def __init__(self, *args):
        super().__init__(*args)
        self.log = []

    def __len__(self):
        self.log.append("len")
        return super().__len__()

    def __getitem__(self, index):
        self.log.append(("get", index))
        return super().__getitem__(index)


class RecordingLink:
    """Duck-typed entry; logs the reads of .end and .next."""

    def __init__(self, next_, end, log, name):
        self._next = next_
        self._end = end
        self._log = log
        self._name = name

    @property
    def end(self):
        self._log.append((self._name, "end"))
        return self._end

    @property
    def next(self):
        self._log.append((self._name, "next"))
        return self._next


def walk(table, start):
    try:
        path = table.get_path(start)
        return ("ok", type(path).__name__, list(path))
    except Exception as exc:  # noqa: BLE001
        return ("raise", type(exc).__name__, str(exc))


failures = 0
checked = 0


def report(label, expected, actual):
    global failures
    failures += 1
    if failures <= 10:
        print("MISMATCH", label)
        print("  original :", str(expected)[:400])
        print("  module   :", str(actual)[:400])


def compare(links_factory, declared_size, start, label,
            classes=(FileAllocationTable,)):
    global checked
    expected = walk(
        OriginalFileAllocationTable(None, declared_size, links_factory()),
        start)
    for cls in classes:
        checked += 1
        actual = walk(cls(None, declared_size, links_factory()), start)
        if expected != actual:
            report((label, cls.__name__), expected, actual)


def check_exhaustive():
    every_class = (FileAllocationTable, SegmentAllocationTable,
                   RolandFileAllocationTable)
    for size in range(0, 5):
        letters = [("end", 0)] + [("link", n) for n in range(-1, size + 2)]
        for entries in itertools.product(letters, repeat=size):
            def links_factory(entries=entries):
                return [
                    SectorLink(next=value, end=(kind == "end"))
                    for kind, value in entries
                ]
            declared_sizes = {size, size - 1, size + 2, 0, -1, 1}
            for declared in declared_sizes:
                for start in range(-2, size + 3):
                    compare(
                        links_factory, declared, start,
                        ("exhaustive", entries, declared, start),
                        classes=(every_class if size <= 2
                                 else (FileAllocationTable,)),
                    )


def check_odd_arguments():
    global checked

    def plain():
        return [SectorLink(1, False), SectorLink(2, False), SectorLink(0, True)]

    odd_starts = [None, "0", 0.0, 1.5, True, False, -1, -3, -4, 3, 10 ** 20,
                  [0], (0,), float("nan"), float("inf"), 1 + 0j]
    for start in odd_starts:
        for declared in (3, 0, 1, 5):
            compare(plain, declared, start, ("odd start", start, declared))
            compare(lambda: tuple(plain()), declared, start,
                    ("tuple table", start, declared))
    odd_next = [None, "1", 1.0, 1.5, True, -1, -3, -4, 3, [1]]
    for value in odd_next:
        def links_factory(value=value):
            return [SectorLink(value, False), SectorLink(2, False),
                    SectorLink(0, True)]
        for declared in (3, 1, 5):
            compare(links_factory, declared, 0, ("odd next", value, declared))
    odd_end = [None, 0, 1, "", "x", [], [0]]
    for value in odd_end:
        def links_factory(value=value):
            return [SectorLink(1, value), SectorLink(2, value),
                    SectorLink(0, True)]
        compare(links_factory, 3, 0, ("odd end", value))
    # entries that are not SectorLinks at all
    compare(lambda: [None, None], 2, 0, "None entries")
    compare(lambda: [(1, False), (0, True)], 2, 0, "tuple entries")
    # sector_links=None -> []
    compare(lambda: None, 3, 0, "no links")
    compare(lambda: None, 0, 0, "no links, no size")
    # declared size of another type
    for declared in (2.5, True, None, "3"):
        compare(plain, declared, 0, ("odd declared size", declared))

    # order of the reads made on the table and on its entries
    for start, declared in itertools.product((0, 1, 2, 3, -1, -4), (0, 1, 2, 3, 4)):
        traces = []
        for cls in (OriginalFileAllocationTable, FileAllocationTable):
            log = []
            table = RecordingTable([
                RecordingLink(2, False, log, "a"),
                RecordingLink(0, True, log, "b"),
                RecordingLink(1, False, log, "c"),
            ])
            table.log = log
            outcome = walk(cls(None, declared, table), start)
            traces.append((outcome, list(log)))
        checked += 1
        if traces[0] != traces[1]:
            report(("trace", start, declared), traces[0], traces[1])


def check_real_size():
    rng = random.Random(0xC0719)
    for size in (11386, 65536):
        for _ in range(12):
            links = [SectorLink()] * size
            order = list(range(size))
            rng.shuffle(order)
            position = 0
            heads = []
            while position < size and len(heads) < 60:
                length = rng.randint(1, 2500)
                chain = order[position:position + length]
                position += length
                damage = rng.choice(["none", "none", "cycle", "beyond", "cross"])
                if damage == "cycle":
                    chain = chain + [chain[rng.randrange(len(chain))]]
                elif damage == "beyond":
                    chain = chain + [size + rng.randint(0, 2)]
                elif damage == "cross" and heads:
                    chain = chain + [rng.choice(heads)]
                try:
                    add_to_sector_links(chain, links)
                except InvalidFatDefinition:
                    pass
                heads.append(chain[0])
            for start in heads + [0, size - 1, size, -1]:
                for declared in (size, 100):
                    compare(lambda: links, declared, start,
                            ("real", size, start, declared))


def check_callers():
    global checked
    links = [SectorLink()] * 8
    add_to_sector_links([5, 1, 6, 2], links)
    add_to_sector_links([3, 4, 3], links)         # cycle 3 <-> 4
    add_to_sector_links([7], links)
    parent = io.BytesIO(bytes(16))

    class OriginalSegmentTable(OriginalFileAllocationTable):
        get_segment = SegmentAllocationTable.get_segment

    class OriginalRolandTable(OriginalFileAllocationTable):
        get_file = RolandFileAllocationTable.get_file

    def summary(call):
        try:
            stream = call()
            return ("ok", type(stream).__name__, list(stream.sector_list),
                    stream.sector_length, stream.end_of_file)
        except Exception as exc:  # noqa: BLE001
            return ("raise", type(exc).__name__, str(exc))

    for start in range(-2, 10):
        for declared in (8, 3, 0):
            checked += 1
            one = summary(lambda: OriginalSegmentTable(
                parent, declared, links).get_segment(start))
            other = summary(lambda: SegmentAllocationTable(
                parent, declared, links).get_segment(start))
            if one != other:
                report(("get_segment", start, declared), one, other)
            for offset in (0, 1, 2, 9, -1):
                checked += 1
                one = summary(lambda: OriginalRolandTable(
                    parent, declared, links).get_file(start, offset))
                other = summary(lambda: RolandFileAllocationTable(
                    parent, declared, links).get_file(start, offset))
                if one != other:
                    report(("get_file", start, declared, offset), one, other)


def check_class_shape():
    global checked, failures

    def expect(label, one, other):
        global checked, failures
        checked += 1
        if one != other:
            report(label, one, other)

    for name in ("__init__", "get_path"):
        expect(
            ("signature", name),
            str(inspect.signature(getattr(OriginalFileAllocationTable, name))),
            str(inspect.signature(getattr(FileAllocationTable, name))),
        )
    marker = object()
    shared = [SectorLink(0, True)]
    for args, kwargs in (
            ((marker,), {}),
            ((marker, 4), {}),
            ((marker, 4, shared), {}),
            ((marker, 4, []), {}),
            ((marker, 4, None), {}),
            ((), {"parent_stream": marker, "size": 2, "sector_links": shared}),
            ((), {"parent_stream": marker}),
            ((), {}),
            ((marker, 1, shared, 0), {}),
    ):
        results = []
        for cls in (OriginalFileAllocationTable, FileAllocationTable,
                    SegmentAllocationTable, RolandFileAllocationTable):
            try:
                table = cls(*args, **kwargs)
                results.append((
                    "ok", sorted(vars(table)), table.parent_stream is marker,
                    table.size, table.sector_links,
                    table.sector_links is shared,
                ))
            except TypeError as exc:
                # the message carries the class name; compare its tail
                results.append(("raise", str(exc).split("__init__()")[-1]))
        for other in results[1:]:
            expect(("construct", args, sorted(kwargs)), results[0], other)
    expect("subclass akai", True,
           issubclass(SegmentAllocationTable, FileAllocationTable))
    expect("subclass roland", True,
           issubclass(RolandFileAllocationTable, FileAllocationTable))
    for attribute in ("size", "sector_links", "parent_stream"):
        expect(("class attribute", attribute), False,
               hasattr(FileAllocationTable, attribute))
    expect("get_path on the class", True,
           callable(FileAllocationTable.__dict__.get(
               "get_path", getattr(FileAllocationTable, "get_path", None))))

    def make_override(base):
        class Doubling(base):
            def get_path(self, starting_sector):
                return [2 * n for n in super().get_path(starting_sector)]
        return Doubling

    links = [SectorLink(2, False), SectorLink(0, True), SectorLink(1, False)]
    for start in range(-1, 5):
        for declared in (0, 2, 3):
            expect(
                ("override", start, declared),
                walk(make_override(OriginalFileAllocationTable)(
                    None, declared, links), start),
                walk(make_override(FileAllocationTable)(
                    None, declared, links), start),
            )


def check_fresh_lists():
    global checked
    links = [SectorLink()] * 6
    add_to_sector_links([4, 1, 3], links)
    add_to_sector_links([2, 5, 2], links)         # cycle 2 <-> 5
    for cls in (OriginalFileAllocationTable, FileAllocationTable):
        table = cls(None, 6, links)
        first = table.get_path(4)
        second = table.get_path(4)
        checked += 1
        if not (type(first) is list and type(second) is list
                and first == second == [4, 1, 3] and first is not second):
            report(("fresh", cls.__name__), [4, 1, 3], (first, second))
        first.append(99)
        checked += 1
        if table.get_path(4) != [4, 1, 3]:
            report(("mutation leaks", cls.__name__), [4, 1, 3], table.get_path(4))
        sequence = [walk(table, start) for start in (2, 4, 6, 1, 5, -1, 4)]
        if cls is OriginalFileAllocationTable:
            reference = sequence
        else:
            checked += 1
            if sequence != reference:
                report("sequence of walks", reference, sequence)


def main():
    global failures
    check_class_shape()
    check_exhaustive()
    check_odd_arguments()
    check_real_size()
    check_callers()
    check_fresh_lists()
    for name in ("FileAllocationTable", "FileStream", "SectorLink",
                 "add_to_sector_links", "RequestedInvalidSector",
                 "InvalidFatDefinition", "FatNotPresent"):
        if not hasattr(fat_module, name):
            failures += 1
            print("missing public name", name)
    if not callable(getattr(FileAllocationTable, "get_path", None)):
        failures += 1
        print("get_path is gone")
    print(f"{checked} walks compared, {failures} mismatches")
    return 1 if failures else 0


if __name__ == "__main__":
    sys.exit(main())
