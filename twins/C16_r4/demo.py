"""Equivalence demo for r4: read-only open in smpl_extract/actions.py
(determine_image_type / attempt_parse_cue_sheet).

An inline copy of the ORIGINAL functions is run next to the live ones on a set
of generated inputs: binary blobs of several sizes (treated as AKAI images),
empty files, ASCII non-cue text, audio cue sheets, data-track cue sheets, mixed
cue sheets, cue sheets with a missing bin file, nonexistent paths, directories
and already opened streams.  For each input we compare
  * the outcome (result type + top level listing, or exception type/message),
  * the exact sequence of open() calls (path, mode, keyword args),
  * the mode / position of the stream that ends up inside the image,
  * that the input files' bytes are unchanged afterwards.
Finally ls_action is run through both paths and its stdout compared.
Exit 0 = everything agrees, 1 = mismatch.
"""
import builtins
import contextlib
import hashlib
import io
import os
import random
import sys
import tempfile

from smpl_extract import actions
from smpl_extract.actions import AkaiImageParser
from smpl_extract.actions import BadCueSheet
from smpl_extract.actions import BadTextFile
from smpl_extract.actions import CompactDiskAudioImageAdapter
from smpl_extract.actions import MdfStream
from smpl_extract.actions import MdxStream
from smpl_extract.actions import RolandSxxImageParser
from smpl_extract.actions import is_mdf_image
from smpl_extract.actions import is_mdx_image
from smpl_extract.actions import is_roland_s7xx_image
from smpl_extract.actions import parse_cue_sheet

OPEN_LOG = []
OPENED = []


def recording_open(file, *args, **kwargs):
    OPEN_LOG.append((os.path.basename(str(file)), args, tuple(sorted(kwargs.items()))))
    handle = builtins.open(file, *args, **kwargs)
    OPENED.append(handle)
    return handle


# the inline original below resolves ``open`` in this module's globals
open = recording_open  # noqa: A001
# the live module resolves ``open`` in its own globals before builtins
actions.open = recording_open


# ---------------------------------------------------------------- original --
def orig_parse_text_file(filename):
    with open(filename, "r", encoding="ascii") as file:
        try:
            text = file.readlines()
        except (UnicodeDecodeError) as e:
            raise BadTextFile from e
        return text


def orig_determine_image_type(file):
    if isinstance(file, str):
        is_textfile = True
        lines = []
        try:
            lines = orig_parse_text_file(file)
        except BadTextFile:
            is_textfile = False

        if is_textfile:
            parent_directory = os.path.dirname(file)
            try:
                result = orig_attempt_parse_cue_sheet(lines, parent_directory)
                return result
            except BadCueSheet:
                pass

        file_stream = open(file, "rb")
    else:
        file_stream = file

    if is_mdf_image(file_stream):
        file_stream = MdfStream(file_stream)
    elif is_mdx_image(file_stream):
        file_stream = MdxStream(file_stream)

    if is_roland_s7xx_image(file_stream):
        result = RolandSxxImageParser(file_stream)
    else:
        result = AkaiImageParser(file_stream)
    return result


def orig_attempt_parse_cue_sheet(lines, directory=""):
    cue_sheet_file = parse_cue_sheet(lines)
    binary_track = next(
        (x for x in cue_sheet_file.tracks if x.mode.lower() != "audio"),
        None
    )
    if binary_track:
        bin_file_path = os.path.join(directory, cue_sheet_file.bin_file_name)
        bin_file_stream = open(bin_file_path, "rb")
        bin_image = orig_determine_image_type(bin_file_stream)
        return bin_image

    if all((x.mode.lower() == "audio" for x in cue_sheet_file.tracks)):
        bin_file_path = os.path.join(directory, cue_sheet_file.bin_file_name)
        bin_file_stream = open(bin_file_path, "rb")
        image = CompactDiskAudioImageAdapter.from_bin_cue(
            bin_file_stream,
            cue_sheet_file
        )
        return image

    raise BadCueSheet
# ---------------------------------------------------------------------------


def build_inputs(root):
    rng = random.Random(16)
    paths = []

    def write(name, data):
        p = os.path.join(root, name)
        with builtins.open(p, "wb") as fh:
            fh.write(data)
        paths.append(p)
        return p

    write("empty.img", b"")
    write("tiny.img", bytes(rng.getrandbits(8) for _ in range(10)))
    write("zeros.img", b"\x00" * 8192)
    write("ff.img", b"\xff" * 4096)
    for i, size in enumerate([511, 2048, 2352, 65536, 200000]):
        write("rand%d.img" % i, bytes(rng.getrandbits(8) for _ in range(size)))
    write("notes.txt", b"hello\nthis is not a cue sheet\n")
    write("latin.txt", "caf\xe9\n".encode("latin-1"))

    write("audio.bin", bytes(rng.getrandbits(8) for _ in range(2352 * 300)))
    write("audio.cue", (
        'FILE "audio.bin" BINARY\n'
        '  TRACK 01 AUDIO\n'
        '    TITLE "First"\n'
        '    INDEX 01 00:00:00\n'
        '  TRACK 02 AUDIO\n'
        '    INDEX 01 00:01:00\n'
        '  TRACK 03 AUDIO\n'
        '    TITLE "Third"\n'
        '    INDEX 01 00:02:37\n'
    ).encode("ascii"))
    write("audio_one.cue", (
        'FILE "audio.bin" BINARY\n'
        '  TRACK 01 AUDIO\n'
        '    INDEX 01 00:00:00\n'
    ).encode("ascii"))
    write("data.cue", (
        'FILE "rand3.img" BINARY\n'
        '  TRACK 01 MODE1/2352\n'
        '    INDEX 01 00:00:00\n'
    ).encode("ascii"))
    write("mixed.cue", (
        'FILE "rand4.img" BINARY\n'
        '  TRACK 01 MODE1/2048\n'
        '    INDEX 01 00:00:00\n'
        '  TRACK 02 AUDIO\n'
        '    INDEX 01 00:10:00\n'
    ).encode("ascii"))
    write("missing_audio.cue", (
        'FILE "nope.bin" BINARY\n'
        '  TRACK 01 AUDIO\n'
        '    INDEX 01 00:00:00\n'
    ).encode("ascii"))
    write("missing_data.cue", (
        'FILE "nope.bin" BINARY\n'
        '  TRACK 01 MODE2/2352\n'
        '    INDEX 01 00:00:00\n'
    ).encode("ascii"))
    write("notracks.cue", b'FILE "audio.bin" BINARY\n')
    write("garbage.cue", b'FILE "audio.bin" WAVE\nTRACK xx\n')
    os.mkdir(os.path.join(root, "subdir"))
    return paths


def digest(path):
    with builtins.open(path, "rb") as fh:
        return hashlib.sha256(fh.read()).hexdigest()


def underlying_stream(image):
    for attr in ("file", "_file", "stream", "_stream"):
        s = getattr(image, attr, None)
        if s is not None:
            return s
    return None


def describe_image(image):
    out = [type(image).__name__]
    s = underlying_stream(image)
    inner = s
    for _ in range(3):
        if inner is not None and not hasattr(inner, "mode"):
            inner = getattr(inner, "_parent_stream", None) or \
                getattr(inner, "parent_stream", None) or \
                getattr(inner, "_stream", None)
    out.append(getattr(inner, "mode", None))
    try:
        out.append(s.tell() if s is not None else None)
    except Exception as e:  # noqa: BLE001
        out.append(type(e).__name__)
    try:
        out.append([(c.name, c.type_name) for c in image.children])
    except Exception as e:  # noqa: BLE001
        out.append(("children-exc", type(e).__name__, str(e)))
    return out


def call(func, arg):
    del OPEN_LOG[:]
    try:
        res = func(arg)
        outcome = ("ok", describe_image(res))
    except Exception as e:  # noqa: BLE001
        outcome = ("exc", type(e).__name__, str(e).replace("\\\\", "/"))
    log = list(OPEN_LOG)
    modes = [(h.mode, h.closed) for h in OPENED]
    for h in OPENED:
        h.close()
    del OPENED[:]
    return outcome, log, modes


def run_ls(func, arg, path):
    buf = io.StringIO()
    del OPEN_LOG[:]
    with contextlib.redirect_stdout(buf):
        try:
            image = func(arg)
            actions.ls_action(image, path)
            status = "ok"
        except Exception as e:  # noqa: BLE001
            status = "exc:" + type(e).__name__
    for h in OPENED:
        h.close()
    del OPENED[:]
    return status, buf.getvalue(), list(OPEN_LOG)


def main():
    bad = 0
    cases = 0
    with tempfile.TemporaryDirectory() as root:
        paths = build_inputs(root)
        before = {p: digest(p) for p in paths}
        str_inputs = list(paths) + [
            os.path.join(root, "does_not_exist.img"),
            os.path.join(root, "subdir"),
            "",
        ]

        for p in str_inputs:
            cases += 1
            expected = call(orig_determine_image_type, p)
            actual = call(actions.determine_image_type, p)
            if expected != actual:
                bad += 1
                print("MISMATCH determine_image_type", os.path.basename(p))
                print("  expected", expected)
                print("  actual  ", actual)

        # already opened streams (no open() expected at all)
        for p in paths:
            cases += 1
            with builtins.open(p, "rb") as s1, builtins.open(p, "rb") as s2:
                expected = call(orig_determine_image_type, s1)
                actual = call(actions.determine_image_type, s2)
            if expected != actual:
                bad += 1
                print("MISMATCH stream input", os.path.basename(p), expected, actual)

        # attempt_parse_cue_sheet directly, with and without directory
        for p in [q for q in paths if q.endswith((".cue", ".txt"))]:
            try:
                with builtins.open(p, "r", encoding="ascii") as fh:
                    lines = fh.readlines()
            except UnicodeDecodeError:
                continue
            for directory in (root, "", os.path.join(root, "subdir")):
                cases += 1
                expected = call(
                    lambda d: orig_attempt_parse_cue_sheet(list(lines), d), directory)
                actual = call(
                    lambda d: actions.attempt_parse_cue_sheet(list(lines), d), directory)
                if expected != actual:
                    bad += 1
                    print("MISMATCH attempt_parse_cue_sheet", os.path.basename(p),
                          directory, expected, actual)

        # ls through both paths
        for p in str_inputs:
            for ls_path in ("", "/", "First", "nope/x"):
                cases += 1
                expected = run_ls(orig_determine_image_type, p, ls_path)
                actual = run_ls(actions.determine_image_type, p, ls_path)
                if expected != actual:
                    bad += 1
                    print("MISMATCH ls", os.path.basename(p), ls_path)
                    print("  expected", expected)
                    print("  actual  ", actual)

        # every open() the live code performed must have been read-only
        after = {p: digest(p) for p in paths}
        cases += 1
        if before != after:
            bad += 1
            print("MISMATCH input files were modified")

    # every recorded mode across the whole run was checked via `call`; make the
    # read-only promise explicit for the live code on one more pass
    with tempfile.TemporaryDirectory() as root:
        paths = build_inputs(root)
        for p in paths:
            _, log, modes = call(actions.determine_image_type, p)
            cases += 1
            for _name, args, kwargs in log:
                mode = args[0] if args else dict(kwargs).get("mode", "r")
                if mode not in ("r", "rb"):
                    bad += 1
                    print("NOT READ-ONLY", p, mode)

    print("cases=%d mismatches=%d" % (cases, bad))
    return 1 if bad else 0


if __name__ == "__main__":
    sys.exit(main())
