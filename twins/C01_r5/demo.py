"""Equivalence demo for r5 (smpl_extract/akai/sample.py, SampleHeaderConstruct
data window).  Compares the module's SampleHeaderConstruct against an inline
copy of the ORIGINAL construct (the `this`-expression spelling) on many
headers, and against values computed by hand.  Exit 0 = all agree."""
import io
import random
import struct
import sys

from construct.core import Int16ul, Int32ul, Int8sl, Int8ul, Padding, Struct, Tell
from construct.expr import this

from smpl_extract.akai import sample as mod
from smpl_extract.akai.akai_string import AkaiPaddedString
from smpl_extract.akai.data_types import (
    AKAI_SAMPLE_WORDLENGTH, AkaiLoopType, AkaiMidiNote, AkaiTuneCents,
    SampleType,
)
from smpl_extract.util.constructs import EnumWrapper
from smpl_extract.util.stream import StreamOffset, SubStreamConstruct

# ---- inline copy of the ORIGINAL implementation -------------------------
OrigSampleHeaderConstruct = Struct(
    "id"                    / EnumWrapper(Int8ul, SampleType),
    Padding(1),
    "note_pitch"            / AkaiMidiNote(Int8ul),
    "sample_name"           / AkaiPaddedString(12),
    Padding(4),
    "loop_type"             / EnumWrapper(Int8ul, AkaiLoopType),
    "pitch_offset_cents"    / AkaiTuneCents(Int8sl),
    "pitch_offset_semi"     / Int8sl,
    Padding(4),
    "samples_cnt"           / Int32ul,
    "play_start"            / Int32ul,
    "play_end"              / Int32ul,
    "loop_data_table"       / mod.LoopEntryAdapter(mod.LoopDataConstruct)[8],
    Padding(4),
    "sampling_rate"         / Int16ul,
    "data_address"          / Tell,
    "data_stream"           / SubStreamConstruct(
                                StreamOffset,
                                size=(AKAI_SAMPLE_WORDLENGTH * \
                                    (this.play_end - this.play_start)
                                ),
                                offset=(
                                    this.data_address + (AKAI_SAMPLE_WORDLENGTH * \
                                        this.play_start)
                                )
                            )
).compile()
# -------------------------------------------------------------------------

HEADER_LEN = 140


def make_header(rng, samples_cnt, play_start, play_end, rate):
    out = bytearray()
    out += bytes([rng.choice((1, 3)), rng.randrange(256), rng.randrange(21, 128)])
    out += bytes(rng.randrange(0x00, 0x29) for _ in range(12))
    out += bytes(rng.randrange(256) for _ in range(4))
    out += bytes([rng.randrange(0, 5)])
    out += struct.pack("<bb", rng.randrange(-128, 128), rng.randrange(-50, 51))
    out += bytes(rng.randrange(256) for _ in range(4))
    out += struct.pack("<III", samples_cnt, play_start, play_end)
    for _ in range(8):
        out += struct.pack(
            "<IHIH",
            rng.randrange(0, 1 << 20), rng.randrange(1 << 16),
            rng.randrange(0, 1 << 20), rng.choice((0, 1, 500, 9999, 65535)),
        )
    out += bytes(rng.randrange(256) for _ in range(4))
    out += struct.pack("<H", rate)
    assert len(out) == HEADER_LEN
    return bytes(out)


def observe(construct, blob, prefix_len, reads):
    """Parse and return everything observable about the data window."""
    stream = io.BytesIO(blob)
    stream.seek(prefix_len)
    try:
        hdr = construct.parse_stream(stream)
    except Exception as e:  # noqa: BLE001
        return ("EXC", type(e).__name__, str(e))
    ds = hdr.data_stream
    obs = [
        hdr.data_address, type(ds).__name__, ds.offset, ds.end_of_file,
        ds.position, stream.tell(), hdr.play_start, hdr.play_end,
        hdr.samples_cnt, hdr.sampling_rate, hdr.sample_name, int(hdr.id),
        sorted(k for k in hdr.keys()),
    ]
    for op, arg in reads:
        try:
            if op == "read":
                obs.append(ds.read(arg))
            elif op == "seek":
                obs.append(ds.seek(arg, 0))
            elif op == "all":
                obs.append(ds.readall())
            obs.append((ds.position, stream.tell()))
        except Exception as e:  # noqa: BLE001
            obs.append(("EXC", type(e).__name__, str(e)))
    return obs


def main():
    rng = random.Random(0xA4A1)
    failures = 0
    cases = 0

    edge = [0, 1, 2, 3, 69, 70, 71, 4025, 4026, 4027, 8121, 8122, 8123,
            8192 - 70, 8192 - 69, 2 * 4096 - 70, 0xFFFF, 0x10000,
            0x7FFFFFFF, 0xFFFFFFFF]
    pairs = [(a, b) for a in edge for b in edge]
    for _ in range(1500):
        a = rng.randrange(0, 6000)
        b = rng.randrange(0, 6000)
        pairs.append((a, b))

    for (start, end) in pairs:
        n_words = rng.choice((0, 1, 5, 4026, 4027, 5000))
        prefix_len = rng.choice((0, 0, 1, 7, 140, 8192))
        payload = bytes(rng.randrange(256) for _ in range(2 * n_words))
        rate = rng.choice((0, 1, 22050, 44100, 48000, 65535))
        hdr = make_header(rng, n_words, start, end, rate)
        blob = bytes(rng.randrange(256) for _ in range(prefix_len)) + hdr + payload
        reads = [("read", rng.choice((0, 1, 2, 3, 4096, 8192))),
                 ("seek", rng.choice((0, 1, 2, 100))),
                 ("read", rng.choice((1, 2, 10000))),
                 ("seek", 0), ("all", None)]
        got = observe(mod.SampleHeaderConstruct, blob, prefix_len, reads)
        want = observe(OrigSampleHeaderConstruct, blob, prefix_len, reads)
        cases += 1
        if got != want:
            failures += 1
            if failures < 5:
                print("MISMATCH", start, end, prefix_len, got[:6], want[:6])
            continue
        # independent expectation: window is exactly words [start, end)
        if got[0] != "EXC":
            exp_addr = prefix_len + HEADER_LEN
            exp_off = exp_addr + 2 * start
            exp_size = 2 * (end - start)
            if got[0] != exp_addr or got[2] != exp_off or got[3] != exp_size:
                failures += 1
                print("BAD WINDOW", start, end, got[:4])
            if 0 <= start < end <= n_words:
                if got[-2] != payload[2 * start:2 * end]:
                    failures += 1
                    print("BAD DATA", start, end, n_words)

    # headers with an invalid name character / enum must fail identically
    for bad_at, bad_val in ((0, 7), (3, 0x29), (19, 9)):
        hdr = bytearray(make_header(rng, 4, 0, 4, 44100))
        hdr[bad_at] = bad_val
        blob = bytes(hdr) + bytes(8)
        got = observe(mod.SampleHeaderConstruct, blob, 0, [])
        want = observe(OrigSampleHeaderConstruct, blob, 0, [])
        cases += 1
        if got != want:
            failures += 1
            print("MISMATCH (bad header)", bad_at, got, want)
    # truncated header
    for cut in (0, 1, 50, 139):
        blob = make_header(rng, 4, 0, 4, 44100)[:cut]
        got = observe(mod.SampleHeaderConstruct, blob, 0, [])
        want = observe(OrigSampleHeaderConstruct, blob, 0, [])
        cases += 1
        if got != want:
            failures += 1
            print("MISMATCH (truncated)", cut, got, want)

    print(f"{cases} cases, {failures} failures")
    return 1 if failures else 0


if __name__ == "__main__":
    sys.exit(main())
