"""./check <ID> quick|thorough  -  run the rules of one property on /repo's current tree."""
import json
import os
import sys
import time
import traceback

HERE = os.path.dirname(os.path.dirname(os.path.abspath(__file__)))
sys.path.insert(0, HERE)

from sa.core.loader import AnalysisError, load_sourceset  # noqa: E402
from sa.core.report import Ctx  # noqa: E402


def load_known():
    p = os.path.join(HERE, "known_findings.json")
    if not os.path.exists(p):
        return []
    with open(p) as fh:
        return json.load(fh).get("findings", [])


def run_rules(pid, sources, only=None):
    """Run all rules of property pid on a SourceSet.  Returns Ctx (obligations recorded).
    AnalysisError propagates."""
    from sa import props
    ctx = Ctx(sources)
    spec = props.PROPS[pid]
    for rid in spec["rules"]:
        if only and rid not in only:
            continue
        fn = props.RULES[rid]
        before = len(ctx.obs)
        fn(ctx)
        n = len(ctx.obs) - before
        floor = props.FLOORS.get(rid, 1)
        if n < floor and not any(not o.ok for o in ctx.obs[before:]):
            raise AnalysisError(rid, "-", f"rule produced {n} obligation instances, confirmed floor is {floor} (vacuous pass refused)")
    return ctx


def main(argv):
    if len(argv) < 2:
        print("usage: check <ID> quick|thorough")
        return 2
    pid, tier = argv[0], argv[1]
    seed = int(os.environ.get("VERIF_SEED", "0") or 0)
    t0 = time.time()
    from sa import props
    if pid not in props.PROPS:
        print(f"ANALYSIS-ERROR property={pid} rule=- at=- reason=unknown property")
        return 2
    spec = props.PROPS[pid]
    # watchdog: the analysis of the tree itself is a matter of seconds; one that does not finish is an analysis error
    try:
        import signal

        def _alarm(*_a):
            raise TimeoutError("analysis watchdog")

        signal.signal(signal.SIGALRM, _alarm)
        signal.alarm(900 if tier == "quick" else 3000)
    except (ValueError, AttributeError):
        pass
    try:
        sources = load_sourceset()
        ctx = run_rules(pid, sources)
        selftest = None
        if tier == "thorough":
            from sa.selftest import matrix
            selftest = matrix.run(pid, sources, seed)
    except AnalysisError as e:
        print(f"ANALYSIS-ERROR property={pid} rule={e.rule} at={e.at} reason={e.reason}")
        return 2
    except Exception as e:  # internal error of the analyser: never a verdict
        tb = traceback.format_exc().strip().splitlines()
        print(f"ANALYSIS-ERROR property={pid} rule=internal at={tb[-3].strip() if len(tb) > 2 else '-'} reason={type(e).__name__}: {e}")
        sys.stderr.write("\n".join(tb) + "\n")
        return 2

    known = [k for k in load_known() if k.get("property") == pid and k.get("status") == "known"]
    known_keys = {k["key"]: k for k in known}
    failing = [o for o in ctx.obs if not o.ok]
    violations, knowns = [], []
    for o in failing:
        if o.key() in known_keys:
            knowns.append((o, known_keys[o.key()]))
        else:
            violations.append(o)

    dry = bool(os.environ.get("VERIF_NO_EVIDENCE"))  # tools that try variants on scratch copies do not touch evidence/
    if not dry:
        os.makedirs(os.path.join(HERE, "evidence", "replay"), exist_ok=True)
    for o, k in knowns:
        print(f"KNOWN-FINDING: property={pid} {k.get('what', o.what)} [{o.rule} {o.loc()} {o.qual}]")
    for i, o in enumerate(violations):
        rp = os.path.join("evidence", "replay", f"{pid}_{i}.json")
        if not dry:
            with open(os.path.join(HERE, rp), "w") as fh:
                json.dump({"property": pid, "finding": o.as_dict(), "key": o.key(),
                           "how_to_replay": f"./check {pid} quick  (static finding: inspect the construct named in 'at'/'in')"}, fh, indent=1)
        print(f"VIOLATION property={pid} replay={rp}")
        print(f"  {o.rule} {o.loc()} in {o.qual}: {o.what} -- {o.detail}")

    # ------------------------------------------------------------- evidence
    per_rule = {}
    for o in ctx.obs:
        r = per_rule.setdefault(o.rule, {"obligations": 0, "discharged": 0, "instances": []})
        r["obligations"] += 1
        r["discharged"] += int(o.ok)
        if len(r["instances"]) < 60:
            r["instances"].append(f"{o.loc()} {o.qual} :: {o.what}" + ("" if o.ok else " :: FAILED"))
    distinct = len({o.key() for o in ctx.obs})
    samples = [o.as_dict() for o in ctx.obs[:: max(1, len(ctx.obs) // 8)]][:10]
    cov = {
        "obligations": len(ctx.obs),
        "discharged": sum(1 for o in ctx.obs if o.ok),
        "evaluations": len(ctx.obs),
        "distinct_nontrivial": distinct,
        "rule": "obligation instances are generated from the protected constructs (reads, loops, exits, structs, tables, "
                "call sites) named in DESIGN.md section 4 for each rule id; an instance is distinct by "
                "(rule, file, qualified name, normalised construct text) and non-trivial because discharging it "
                "required inspecting a non-empty construct of the current source",
        "samples": samples,
        "explanation": spec["explanation"],
        "rules": per_rule,
        "analysed": {"files": len(ctx.prog.modules), "functions": sum(len(m.functions) for m in ctx.prog.modules.values()),
                     "classes": sum(len(m.classes) for m in ctx.prog.modules.values()), **ctx.analysed},
        "notes": ctx.notes[:40],
        "known_findings_present": [k["key"] for _, k in knowns],
        "exhaustive": False,
    }
    if selftest is not None:
        cov["selftest"] = {k: v for k, v in selftest.items() if k != "errors"}
    ev = {
        "property_id": pid,
        "tier": tier if tier in ("quick", "thorough") else "quick",
        "seed": seed,
        "level": "other",
        "coverage": cov,
        "assumptions": spec["assumptions"],
        "wall_s": round(time.time() - t0, 3),
        "violations": len(violations),
    }
    if not dry:
        with open(os.path.join(HERE, "evidence", f"{pid}.json"), "w") as fh:
            json.dump(ev, fh, indent=1, default=str)
    if selftest is not None and selftest.get("errors") and not violations:
        # the checker failed its own two-way test on this tree: analysis broken, never a verdict
        for e in selftest["errors"][:20]:
            print(f"ANALYSIS-ERROR property={pid} rule=selftest at={e['id']} reason={e['reason']}")
        return 2
    n_ok = cov["discharged"]
    print(f"property={pid} tier={tier} rules={len(per_rule)} obligations={len(ctx.obs)} discharged={n_ok} "
          f"known={len(knowns)} violations={len(violations)} wall={ev['wall_s']}s")
    return 1 if violations else 0


if __name__ == "__main__":
    try:
        rc = main(sys.argv[1:])
    except SystemExit:
        raise
    except BaseException as e:  # last line of defence: a traceback must not look like a violation
        print(f"ANALYSIS-ERROR property={sys.argv[1] if len(sys.argv) > 1 else '?'} rule=internal at=- reason={type(e).__name__}: {e}")
        rc = 2
    sys.exit(rc)
