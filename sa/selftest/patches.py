"""In-memory application of the stored unified diffs (seeded/<id>/patch.diff, twins/<id>/patch.diff) to a SourceSet.
Line endings are normalised the way the loader does (CRLF -> LF).  A hunk is located by its old lines (context and
removed lines): first at the stated position, else at the unique place in the file where they match."""
import json
import os
import re

HERE = os.path.dirname(os.path.dirname(os.path.dirname(os.path.abspath(__file__))))
_HUNK = re.compile(r"^@@ -(\d+)(?:,(\d+))? \+(\d+)(?:,(\d+))? @@")


def parse(text):
    files, cur, hunk = [], None, None
    for raw in text.splitlines():
        line = raw.rstrip("\r")
        if line.startswith("diff --git "):
            cur, hunk = None, None
            continue
        if line.startswith("--- "):
            continue
        if line.startswith("+++ "):
            path = line[4:].strip()
            if path.startswith("b/"):
                path = path[2:]
            cur = {"path": path, "hunks": []}
            files.append(cur)
            continue
        m = _HUNK.match(line)
        if m and cur is not None:
            hunk = {"start": int(m.group(1)), "old": [], "new": []}
            cur["hunks"].append(hunk)
            continue
        if hunk is None:
            continue
        if line.startswith("\\"):
            continue
        if line.startswith("-"):
            hunk["old"].append(line[1:])
        elif line.startswith("+"):
            hunk["new"].append(line[1:])
        else:
            body = line[1:] if line.startswith(" ") else line
            hunk["old"].append(body)
            hunk["new"].append(body)
    return files


def apply(sources, patch_text):
    """-> new sources dict, or None when a hunk cannot be placed"""
    out = dict(sources)
    for f in parse(patch_text):
        if f["path"] not in out:
            return None
        lines = out[f["path"]].split("\n")
        delta = 0
        for h in f["hunks"]:
            old, new = h["old"], h["new"]
            at = h["start"] - 1 + delta
            if lines[at:at + len(old)] != old:
                cands = [i for i in range(len(lines) - len(old) + 1) if lines[i:i + len(old)] == old]
                if len(cands) != 1:
                    return None
                at = cands[0]
            lines[at:at + len(old)] = new
            delta += len(new) - len(old)
        out[f["path"]] = "\n".join(lines)
    return out


def stored(kind):
    """kind 'seeded' | 'twins' -> [(id, property, patch text, meta)]"""
    d = os.path.join(HERE, kind)
    out = []
    if not os.path.isdir(d):
        return out
    for vid in sorted(os.listdir(d)):
        p = os.path.join(d, vid, "patch.diff")
        if not os.path.exists(p):
            continue
        meta = {}
        try:
            with open(os.path.join(d, vid, "meta.json")) as fh:
                meta = json.load(fh)
        except Exception:
            pass
        with open(p) as fh:
            out.append((vid, vid.split("_")[0], fh.read(), meta))
    return out
