"""Mutants (must be flagged) and twins (must stay silent) for the thorough tier.
Each edit is (path, exact old text, new text); old text must occur exactly once."""

U = "smpl_extract/util/"
AK = "smpl_extract/akai/"
RO = "smpl_extract/roland/s7xx/"
ST = "smpl_extract/structural.py"
TR = "smpl_extract/transcoder.py"
CS = "smpl_extract/cuesheet.py"
ACT = "smpl_extract/actions.py"
CD = "smpl_extract/cdda/image.py"


def M(id, props, rules, *edits):
    return {"id": id, "props": props, "rules": rules, "edits": list(edits)}


def T(id, props, *edits):
    return {"id": id, "props": props, "edits": list(edits)}


MUTANTS = [
    # ---------------------------------------------------------------- termination
    M("t1-getpath-no-increment", ["C07", "C13"], ["T1"], (U + "fat.py", "            loop_cnt += 1\n", "            pass\n")),
    M("t1-getnonempty-peek", ["C13", "C17"], ["T1", "Q2"], (CS, "text = lines.pop(0).strip()", "text = lines[0].strip()")),
    M("t1-akai-drop-mark", ["C13", "C07"], ["T1"], (AK + "sat.py", "                    dirty_flags[subpath_index] = True\n                    links.append(subpath_index)\n                    if not",
                                                   "                    links.append(subpath_index)\n                    if not")),
    M("t1-roland-drop-visited-add", ["C13", "C07", "C02"], ["T1"], (RO + "fat.py", "                subpath_visited.add(subpath_index)\n", "")),
    M("t1-sanitize-no-bound", ["C13", "C06"], ["T1"], (ST, "                        j += 1\n", "")),
    M("t1-readall-wrong-exit", ["C13"], ["T1"], (U + "stream.py", "            if len(new_read) < 1:\n                break", "            if len(new_read) < 0:\n                break")),
    M("t1-sector-no-decrement", ["C13", "C08"], ["T1", "S4"], (U + "sector.py", "            remaining_size -= self.sector_length\n            i += 1", "            i += 1")),
    M("t1-partition-accept-zero-size", ["C13"], ["T1"], (AK + "partition.py", "if partition_container.header.size <= 0:", "if partition_container.header.size < 0:")),
    M("t3-readall-recursion", ["C13"], ["T3"], (U + "stream.py", "new_read = self.read(self.buffer_length)", "new_read = self.read(None)")),
    M("t2-for-grows", ["C13"], ["T2"], (AK + "volume.py", "            if file is not None:\n                self._files.append(file)", "            if file is not None:\n                self._files.append(file)\n                self.file_entries.append(file_entry)")),
    # ---------------------------------------------------------------- streams
    M("s5-no-clip", ["C08", "C01", "C02"], ["S5"], (U + "stream.py", "self.true_size = min(self.end_of_file - self.position, size)", "self.true_size = size")),
    M("s5-advance-by-size", ["C08", "C11"], ["S5"], (U + "stream.py", "        self.position += self.true_size\n", "        self.position += size\n")),
    M("s5-clamp-low-dropped", ["C08"], ["S5"], (U + "stream.py", "        elif new_position < 0:\n            new_position = 0\n", "")),
    M("s5-seek-end-base", ["C08"], ["S5"], (U + "stream.py", "            starting_position = self.end_of_file\n", "            starting_position = self.end_of_file - 1\n")),
    M("s6-trust-cursor", ["C11", "C08", "C16"], ["S6"], (U + "stream.py", "        if expected_position != true_position:\n            self._seek(self.position)\n", "")),
    M("s6-sector-no-seek", ["C11", "C08"], ["S6"], (U + "sector.py", "        self.substream.seek(start_address, SEEK_SET)\n", "")),
    M("s7-offset-sign", ["C08", "C02"], ["S7"], (U + "stream.py", "true_address = self.offset + address", "true_address = self.offset - address")),
    M("s7-reversed-no-size", ["C08", "C02"], ["S7"], (U + "stream.py", "true_address = self.end_of_file - (address + self.true_size)", "true_address = self.end_of_file - address")),
    M("s7-flip-axis", ["C08", "C02"], ["S7"], (U + "stream.py", "arr = np.flip(arr, 0)", "arr = np.flip(arr, 1)")),
    M("s3-mdf-header", ["C08", "C09"], ["S3"], (("smpl_extract/alcohol/mdf.py"), "mdf_address = sector_address + MDF_SECTOR_HEADER_SIZE + offset", "mdf_address = sector_address + offset")),
    M("s3-filestream-identity", ["C08", "C01", "C07"], ["S3"], (U + "fat.py", "        sector  = self.sector_list[sector_index]\n", "        sector  = sector_index\n")),
    M("s4-skip-sector", ["C08", "C01"], ["S4"], (U + "sector.py", "            remaining_size -= self.sector_length\n            i += 1", "            remaining_size -= self.sector_length\n            i += 2")),
    M("s4-for-form-tail-rereads", ["C08", "C07", "C01"], ["S4", "S4p"], (U + "sector.py", '        while remaining_size > self.sector_length:\n            result += self._read_sector(\n                initial_sector_index + i, \n                0, \n                self.sector_length\n            )\n            remaining_size -= self.sector_length\n            i += 1\n        \n        # read partial final sector\n        final_sector_index = initial_sector_index + i\n', '        num_middle_sectors = max(remaining_size - 1, 0) // self.sector_length\n        for i in range(1, num_middle_sectors + 1):\n            result += self._read_sector(\n                initial_sector_index + i, \n                0, \n                self.sector_length\n            )\n            remaining_size -= self.sector_length\n        \n        # read partial final sector\n        final_sector_index = initial_sector_index + i\n')),
    M("s4-for-form-count-off", ["C08", "C07"], ["S4", "S4p"], (U + "sector.py", '        while remaining_size > self.sector_length:\n            result += self._read_sector(\n                initial_sector_index + i, \n                0, \n                self.sector_length\n            )\n            remaining_size -= self.sector_length\n            i += 1\n        \n        # read partial final sector\n        final_sector_index = initial_sector_index + i\n', '        num_middle_sectors = remaining_size // self.sector_length\n        for i in range(1, num_middle_sectors + 1):\n            result += self._read_sector(\n                initial_sector_index + i, \n                0, \n                self.sector_length\n            )\n            remaining_size -= self.sector_length\n        \n        # read partial final sector\n        final_sector_index = initial_sector_index + num_middle_sectors + 1\n')),
    M("s4-no-length-check", ["C08", "C15"], ["S4"], (U + "sector.py", "        if len(result) != size:\n            raise SectorReadError(f\"Wanted {size}, read {len(result)}.\")\n", "")),
    M("s4-zero-guard-weakened", ["C08"], ["S4"], (U + "sector.py", "        if size <= 0:\n            return bytes()", "        if size < 0:\n            return bytes()")),
    M("s4-first-piece-off", ["C08"], ["S4"], (U + "sector.py", "            initial_read_size = self.sector_length - initial_sector_offset", "            initial_read_size = self.sector_length - initial_sector_offset - 1")),
    M("s8-probe-no-restore", ["C09", "C11", "C16"], ["S8"], ("smpl_extract/alcohol/mdx.py", "    stream.seek(stream_head, SEEK_SET)\n\n    return result", "    return result")),
    M("s8-roland-probe-no-restore", ["C09"], ["S8"], (RO + "image.py", "    stream.seek(stream_head, SEEK_SET)\n    return result", "    return result")),
    M("s9-narrow-handler", ["C15"], ["S9"], (TR, "        except SectorReadError as e:\n            raise StopIteration", "        except BufferError as e:\n            raise StopIteration")),
    M("s1-append-after-advance", ["C07", "C01"], ["S1"], (U + "fat.py", "            path.append(current_sector)\n            sector_link = self.sector_links[current_sector]\n",
                                                          "            sector_link = self.sector_links[current_sector]\n            path.append(sector_link.next)\n")),
    M("s1-range-weaker", ["C07", "C14"], ["S1"], (U + "fat.py", "if current_sector >= len(self.sector_links):", "if current_sector > len(self.sector_links):")),
    M("s2-swallow-index-error", ["C07", "C14"], ["S2"], (U + "fat.py", "        raise InvalidFatDefinition(\n            f\"FAT entry {prev_link} exceeds total \"\n            f\"number of FAT entries {len(sector_links)}.\"\n        ) from e", "        pass")),
    # ---------------------------------------------------------------- decoders
    M("d1-roland-raise-on-decoded", ["C07", "C02"], ["D1"], (RO + "fat.py", "                if subpath_index in subpath_visited:\n", "                if dirty_flags[subpath_index]:\n")),
    M("d3-roland-install-early", ["C07", "C02"], ["D3", "D1"], (RO + "fat.py", "                subpath_links.append(subpath_index)\n\n                if FAT_IS_END_F(value):", "                subpath_links.append(subpath_index)\n\n                if FAT_IS_END_F(value) or dirty_flags[value]:")),
    M("d2-eof-flag", ["C07", "C01"], ["D2"], (AK + "data_types.py", "AKAI_SAT_EOF_FLAG               = 0xC000", "AKAI_SAT_EOF_FLAG               = 0xC001")),
    M("d2-fat-end", ["C07", "C02"], ["D2"], (RO + "data_types.py", "FAT_END             = 0xfff8", "FAT_END             = 0xfff9")),
    M("d4-cluster-top-off-by-one", ["C02", "C07"], ["D4"], (RO + "fat.py", "        if cluster_offset > 0:\n            sector_list = sector_list[cluster_offset:]", "        if cluster_offset > 1:\n            sector_list = sector_list[cluster_offset:]")),
    M("d1-akai-eof-no-install", ["C07", "C01"], ["D1"], (AK + "sat.py", "                        links.append(subpath_index)\n                        add_to_sector_links(links, sector_links)\n                        dirty_flags[subpath_index] = True", "                        links.append(subpath_index)\n                        dirty_flags[subpath_index] = True")),
    # ---------------------------------------------------------------- layouts / formulas
    M("l1-akai-sample-start-width", ["C01", "C20"], ["L1", "L2"], (AK + "sample.py", '    "play_start"            / Int32ul,', '    "play_start"            / Int16ul,')),
    M("l1-akai-swap-fields", ["C20", "C01"], ["L1"], (AK + "sample.py", '    "play_start"            / Int32ul,\n    "play_end"              / Int32ul,', '    "play_end"              / Int32ul,\n    "play_start"            / Int32ul,')),
    M("l8-akai-window-factor", ["C01", "C20"], ["L1"], (AK + "sample.py", "                                    this.data_address + (AKAI_SAMPLE_WORDLENGTH * \\\n                                        this.play_start)", "                                    this.data_address + (\\\n                                        this.play_start)")),
    M("l1-program-sign", ["C20"], ["L1"], (AK + "program.py", '    "octave_shift"              /\\\n        Int8sl,', '    "octave_shift"              /\\\n        Int8ul,')),
    M("l1-keygroup-pad", ["C20"], ["L1", "L2"], (AK + "keygroup.py", '    "num_velocity_zones"                / Default(Int8ul, 4),\n    Padding(2, pattern=b"\\xFF"),', '    "num_velocity_zones"                / Default(Int8ul, 4),\n    Padding(1, pattern=b"\\xFF"),')),
    M("l1-zone-loop-map", ["C20"], ["L1"], (AK + "keygroup.py", "            AkaiLoopType.LOOP_IN_RELEASE:       1,\n            AkaiLoopType.LOOP_UNTIL_RELEASE:    2,", "            AkaiLoopType.LOOP_IN_RELEASE:       2,\n            AkaiLoopType.LOOP_UNTIL_RELEASE:    1,")),
    M("l1-roland-fine-mask", ["C20", "C02"], ["L1"], (RO + "sample_entry.py", "(this.raw_value & 255)", "(this.raw_value & 127)")),
    M("l1-roland-freq-table", ["C20", "C02"], ["L1"], (RO + "sample_entry.py", "                    24000: 2,\n                    22050: 3,", "                    22050: 2,\n                    24000: 3,")),
    M("l4-roland-wrong-area", ["C02", "C14"], ["L4", "L1"], (RO + "sample_entry.py", "                (SAMPLE_PARAMETER_ENTRY_SIZE*new_index_expr(this)) \\\n                + SAMPLE_PARAMETER_AREA_OFFSET,", "                (SAMPLE_PARAMETER_ENTRY_SIZE*new_index_expr(this)) \\\n                + SAMPLE_DIRECTORY_AREA_OFFSET,")),
    M("l4-roland-no-bound", ["C02", "C14"], ["L4", "L1"], (RO + "sample_entry.py", "lambda obj, ctx: obj < MAX_NUM_SAMPLE", "lambda obj, ctx: obj <= MAX_NUM_SAMPLE")),
    M("l5-geometry", ["C02"], ["L5", "L4", "L1"], (RO + "data_types.py", "SAMPLE_PARAMETER_AREA_OFFSET        = 0x255800", "SAMPLE_PARAMETER_AREA_OFFSET        = 0x255000")),
    M("l8r-release-end-swap", ["C02"], ["L8r"], (RO + "sample_file.py", "    offset_sample = points.start\n    num_samples = points.release_end - offset_sample + 1\n    stream_result = StreamOffset(\n        stream,\n        ROLAND_SAMPLE_WIDTH * num_samples,\n        ROLAND_SAMPLE_WIDTH * offset_sample\n    )\n\n    sustain_start   = max(0, points.sustain_start - offset_sample)\n    sustain_end     = max(0, points.sustain_end - offset_sample)\n    release_start",
                                                  "    offset_sample = points.start\n    num_samples = points.sustain_end - offset_sample + 1\n    stream_result = StreamOffset(\n        stream,\n        ROLAND_SAMPLE_WIDTH * num_samples,\n        ROLAND_SAMPLE_WIDTH * offset_sample\n    )\n\n    sustain_start   = max(0, points.sustain_start - offset_sample)\n    sustain_end     = max(0, points.sustain_end - offset_sample)\n    release_start")),
    M("l8r-map-swap", ["C02"], ["L8r"], (RO + "sample_file.py", "            RolandLoopMode.REVERSE_ONESHOT:   _get_reverse_oneshot_params,", "            RolandLoopMode.REVERSE_ONESHOT:   _get_oneshot_params,")),
    M("l8c-msf", ["C03"], ["L8c"], (CS, "total_seconds = 60*self.n_minutes + self.n_seconds", "total_seconds = 60*self.n_minutes + self.n_frames")),
    M("l8c-frame-bytes", ["C03"], ["L8c"], (CD, "SAMPLES_PER_FRAME = 588", "SAMPLES_PER_FRAME = 598")),
    M("l8c-no-advance", ["C03"], ["L8c"], (CD, "                    i += 1\n                    cur_cue_track = next_cue_track", "                    i += 1")),
    M("l7-chunk-order", ["C04"], ["L7"], (("smpl_extract/generalized/wav.py"), '            "riff_id":  WavRiffChunkType.FMT,', '            "riff_id":  WavRiffChunkType.DATA,')),
    M("l7-fmt-bits", ["C04"], ["L7"], ("smpl_extract/generalized/wav.py", "bits_per_sample=8*encoding.sample_width", "bits_per_sample=16*encoding.sample_width")),
    M("l1w-block-align", ["C04"], ["L1"], ("smpl_extract/formats/wav.py", "        this.channel_cnt * this.bits_per_sample//8\n    ),\n    \"bits_per_sample\"", "        this.bits_per_sample//8\n    ),\n    \"bits_per_sample\"")),
    M("l1w-loop-count", ["C04"], ["L1"], ("smpl_extract/formats/wav.py", "        len_(this.sample_loops)", "        len_(this.sampler_data)")),
    M("l6-rate-default", ["C20"], ["L6"], (AK + "sample.py", "        if sample_rate == 0:\n            sample_rate = DEFAULT_SAMPLE_RATE\n\n        result = AkaiSample(", "        if sample_rate <= 1:\n            sample_rate = DEFAULT_SAMPLE_RATE\n\n        result = AkaiSample(")),
    M("l6-swap-markers", ["C20"], ["L6"], (AK + "sample.py", "            sample_header.play_start,\n            sample_header.play_end,\n            sample_header.note_pitch,", "            sample_header.play_end,\n            sample_header.play_start,\n            sample_header.note_pitch,")),
    M("l6-itemize-hide", ["C20"], ["L6"], ("smpl_extract/elements.py", '            "export_name"\n        ]', '            "export_name",\n            "sample_rate"\n        ]')),
    # ---------------------------------------------------------------- names
    M("n1-volume-no-routines", ["C06", "C10"], ["N1"], (AK + "volume.py", "            for routine in self._routines.values():\n                files = routine(files)\n", "")),
    M("n2-volume-drop-routines", ["C06", "C10", "C16"], ["N2"], (AK + "volume.py", "                    routines=child_info.routines\n                )\n\n                volume_body", "                    routines=None\n                )\n\n                volume_body")),
    M("n3-raw-export-name", ["C06", "C05"], ["N3"], (AK + "sample.py", "            _export_name=self.export_name\n", "            _export_name=self.name\n")),
    M("n4-allow-slash", ["C06"], ["N4"], (ST, r'_INVALID_FILE_NAME = re.compile(r"[^\w\-\.# ]+")', r'_INVALID_FILE_NAME = re.compile(r"[^\w\-\.#/ ]+")')),
    M("n4-no-strip", ["C06"], ["N4"], (ST, 'export_name = self._INVALID_FILE_NAME.sub(" ", name).strip()', 'export_name = self._INVALID_FILE_NAME.sub(" ", name)')),
    M("n5-path-leaf-first", ["C06", "C01"], ["N5"], ("smpl_extract/base.py", "new_path = [current_node.export_name] + new_path", "new_path = new_path + [current_node.export_name]")),
    M("n5-path-step-before-take", ["C06"], ["N5"], ("smpl_extract/base.py", "            new_path = [current_node.export_name] + new_path\n            current_node = current_node.parent\n",
                                                     "            current_node = current_node.parent\n            new_path = [current_node.export_name] + new_path\n")),
    M("n9-path-stops-one-early", ["C06", "C01", "C02"], ["N9"], ("smpl_extract/base.py", "while current_node is not None and len(current_node.path) > 0:", "while current_node is not None and len(current_node.path) > 1:")),
    M("n9-path-keeps-root", ["C06", "C02"], ["N9"], ("smpl_extract/base.py", "while current_node is not None and len(current_node.path) > 0:", "while current_node is not None:")),
    M("n5-path-from-safe-name", ["C06"], ["N5"], ("smpl_extract/base.py", "new_path = [current_node.export_name] + new_path", "new_path = [current_node.safe_name] + new_path")),
    M("n6-lookup-raw-name", ["C10"], ["N6"], (ST, "if self._sanitize_string(x.safe_name) == token_sanitized", "if self._sanitize_string(x.name) == token_sanitized")),
    M("n7-skip-first", ["C06", "C10", "C05"], ["N7"], (ST, "                else:\n                    next_name = name\n                f_set(element, next_name)", "                else:\n                    continue\n                f_set(element, next_name)")),
    M("n7-skip-does-not-advance", ["C06"], ["N7"], (ST, "                    while (next_name in candidate_names.keys()):\n                        i += 1\n", "                    while (next_name in candidate_names.keys()):\n                        i += 0\n")),
    M("n7-stale-candidate", ["C06", "C10"], ["N7"], (ST, "                        j += 1\n                        next_name = self._add_count_to_name(name, i)\n", "                        j += 1\n")),
    M("n7-second-keeps-plain", ["C06", "C05"], ["N7"], (ST, "                if i > 1:\n", "                if i > 2:\n")),
    M("n7-no-taken-check", ["C06", "C16"], ["N7"], (ST, "while (next_name in candidate_names.keys()):", "while (next_name in renamed.keys()):")),
    M("n8-stopiteration-escapes", ["C10"], ["N8"], (ST, "except (ErrorNoChildWithName, ErrorNotTraversable, StopIteration) as e:", "except (ErrorNoChildWithName, ErrorNotTraversable) as e:")),
    M("n8-keep-empty-token", ["C10"], ["N8"], (ST, "        if len(tokens) > 0 and len(tokens[-1]) < 1:\n            tokens = tokens[:-1]\n", "")),
    # ---------------------------------------------------------------- pairing / transcoder
    M("p2-always-visited-first", ["C05"], ["P2"], (ST, "                        pairs = [alternate_sample, sample]", "                        pairs = [sample, alternate_sample]")),
    M("p1-no-partner-mark", ["C05", "C06"], ["P1"], (ST, "                    marked[alternate_name] = True\n", "")),
    M("p3-right-first", ["C05"], ["P3"], ("smpl_extract/generalized/sample.py", "    result.data_streams += right.data_streams", "    result.data_streams = right.data_streams + result.data_streams")),
    M("p4-per-stream-flags", ["C12"], ["P4"], (TR, "        for x in data_streams\n        for _ in range(max(1, x.encoding.num_interleaved_channels))\n", "        for x in data_streams\n")),
    M("p5-stop-on-all", ["C12", "C05"], ["P5"], (TR, "if any(len(x) <= 0 for x in channels):", "if all(len(x) <= 0 for x in channels):")),
    M("p5-resize-ceil", ["C12", "C04", "C03"], ["P5"], (TR, "        num_frames = len(buffer) // frame_size\n", "        num_frames = len(buffer) // frame_size + 1\n")),
    M("p6-interleave-order", ["C12", "C05"], ["P6"], (TR, "reshape((-1,), order='F')", "reshape((-1,), order='C')")),
    M("p6-deinterleave", ["C12", "C05"], ["P6"], (TR, "samples_interleaved.reshape((-1, num_channels)).T", "samples_interleaved.reshape((num_channels, -1))")),
    M("p7-skip-finish", ["C05", "C01"], ["P7"], (ST, "        export_manager.finish_level()\n        return\n", "        return\n")),
    # ---------------------------------------------------------------- tables
    M("b1-symbol-value", ["C18"], ["B1"], (AK + "data_types.py", 'CHAR_MAP_POUND     = { CharFormat.ASCII: ord("#"),  CharFormat.AKAI: 0x25 }', 'CHAR_MAP_POUND     = { CharFormat.ASCII: ord("#"),  CharFormat.AKAI: 0x24 }')),
    M("b2-table-entry", ["C18"], ["B2"], ("smpl_extract/midi.py", "            (ScaleDegree.D, True):     0x06,", "            (ScaleDegree.D, True):     0x07,")),
    M("b2-offset-mismatch", ["C18"], ["B2"], ("smpl_extract/midi.py", "AKAI_SAMPLE_A0  = 21", "AKAI_SAMPLE_A0  = 24")),
    M("b3-slope", ["C18"], ["B3"], (AK + "data_types.py", "    M = 255/100\n    X1 = -50", "    M = 256/100\n    X1 = -50")),
    # ---------------------------------------------------------------- cue / cascade
    M("q1-no-ignorecase", ["C17"], ["Q1"], (CS, r'_INDEX_LINE_REGEX = re.compile(r"\s*INDEX\s+(\d+)\s+(\d+):(\d+):(\d+)", flags=re.I)', r'_INDEX_LINE_REGEX = re.compile(r"\s*INDEX\s+(\d+)\s+(\d+):(\d+):(\d+)")')),
    M("q2-unknown-line-breaks", ["C17"], ["Q2", "T1"], (CS, "            track.unparsed.append(text)\n", "            track.unparsed.append(text)\n            break\n")),
    M("q2-index-order", ["C17", "C03"], ["Q2"], (CS, "                n_minutes = int(result.groups()[1])\n                n_seconds = int(result.groups()[2])", "                n_minutes = int(result.groups()[2])\n                n_seconds = int(result.groups()[1])")),
    M("q3-latin1", ["C17", "C09"], ["Q3"], (ACT, 'with open(filename, "r", encoding="ascii") as file:', 'with open(filename, "r", encoding="latin-1") as file:')),
    M("c1-order", ["C09"], ["C1"], (ACT, "    if is_mdf_image(file_stream):\n        file_stream = MdfStream(file_stream)\n    elif is_mdx_image(file_stream):\n        file_stream = MdxStream(file_stream)\n", "    if is_mdx_image(file_stream):\n        file_stream = MdxStream(file_stream)\n")),
    # ---------------------------------------------------------------- isolation / caches
    M("i5-slot-break", ["C02", "C14"], ["I5"], (RO + "partial_entry.py", "            except (ConstructError, UnicodeDecodeError) as e:\n                continue\n", "            except (ConstructError, UnicodeDecodeError) as e:\n                break\n")),
    M("i5-three-slots", ["C02"], ["I5"], (RO + "partial_entry.py", "            container.parameter.sample_3,\n            container.parameter.sample_4\n", "            container.parameter.sample_3\n")),
    M("i5-append-in-handler", ["C02", "C14"], ["I5"], (RO + "partial_entry.py", "            sample_references.append(sample_reference)\n", "            pass\n")),
    M("i1-no-realign", ["C14"], ["I1"], (AK + "file_entry.py", "                stream.seek(entry_address + table_entry_size, SEEK_SET)\n", "                pass\n")),
    M("i1-safelist-narrow", ["C14"], ["I1"], ("smpl_extract/util/constructs.py", "except (UnicodeDecodeError, ConstructError, KeyError, IndexError) as e:", "except (UnicodeDecodeError, KeyError, IndexError) as e:")),
    M("i2-flag-never-set", ["C16"], ["I2"], (AK + "volume.py", "        self._is_files_realized = True\n\n        \n    @property", "        \n    @property")),
    M("r1-no-rewind", ["C16", "C01"], ["R1"], (TR, "    for data_stream in data_streams:\n        data_stream.stream.seek(0, SEEK_SET)\n", "")),
    M("o1-no-dedupe", ["C02"], ["O1"], (RO + "volume_entry.py", "        volume_performance_ptrs = np.unique(volume_performance_ptrs)\n", "")),
    M("i4-sectorread-escapes", ["C14", "C15"], ["I4"], (AK + "file.py", "                SectorReadError, \n                struct.error\n", "                struct.error\n")),
    M("i4-beyond-chain-indexerror", ["C14"], ["I4"], (U + "fat.py", "        try:\n            sector  = self.sector_list[sector_index]\n        except IndexError as e:\n            raise SectorReadError(\n                f\"Sector {sector_index} lies beyond the \"\n                f\"{len(self.sector_list)} sectors of the file.\"\n            ) from e\n", "        sector  = self.sector_list[sector_index]\n")),
    # ---------------------------------------------------------------- filters
    M("f3-no-reset", ["C19"], ["F3"], ("smpl_extract/filters/fir.pyx", "        y = self.convolve_valid(x_full, self.h).astype(dtype)\n        self.reset_state()\n", "        y = self.convolve_valid(x_full, self.h).astype(dtype)\n")),
    M("f4-no-upper-bound", ["C19"], ["F4"], ("smpl_extract/filters/fir.pyx", "    if x > 32767.0:\n        result = 32767\n        return result\n", "")),
    M("f5-no-save", ["C19"], ["F5"], ("smpl_extract/filters/iir.pyx", "            y[i] = y_cur\n\n        # save state\n        fill_arr_double_cbuffer(&x_window, x_prev)\n        fill_arr_double_cbuffer(&y_window, y_prev)", "            y[i] = y_cur\n\n        # save state\n        fill_arr_double_cbuffer(&y_window, y_prev)")),
    M("f6-preset-override", ["C19"], ["F6"], ("smpl_extract/filters/common.py", "class CdXtractRolandDeemphFilter(FirFilter):\n    def __init__(self) -> None:\n        super().__init__(_cdxtract_roland_deemph_h)\n",
                                              "class CdXtractRolandDeemphFilter(FirFilter):\n    def __init__(self) -> None:\n        super().__init__(_cdxtract_roland_deemph_h)\n\n    def reset_state(self, **kwargs):\n        pass\n")),
]


TWINS = [
    T("tw-s4-for-form", ["C08", "C01", "C07", "C15", "C13"], (U + "sector.py", '        while remaining_size > self.sector_length:\n            result += self._read_sector(\n                initial_sector_index + i, \n                0, \n                self.sector_length\n            )\n            remaining_size -= self.sector_length\n            i += 1\n        \n        # read partial final sector\n        final_sector_index = initial_sector_index + i\n', '        num_middle_sectors = max(remaining_size - 1, 0) // self.sector_length\n        for i in range(1, num_middle_sectors + 1):\n            result += self._read_sector(\n                initial_sector_index + i, \n                0, \n                self.sector_length\n            )\n            remaining_size -= self.sector_length\n        \n        # read partial final sector\n        final_sector_index = initial_sector_index + num_middle_sectors + 1\n')),
    T("tw-getpath-augassign", ["C07", "C13", "C01", "C14"], (U + "fat.py", "            loop_cnt += 1\n", "            loop_cnt = loop_cnt + 1\n")),
    T("tw-getpath-rename", ["C07", "C13", "C01", "C14"], (U + "fat.py", "        loop_cnt = 0\n        while loop_cnt < self.size:", "        steps = 0\n        while steps < self.size:"),
      (U + "fat.py", "            loop_cnt += 1\n", "            steps += 1\n"), (U + "fat.py", "        if loop_cnt >= self.size:", "        if steps >= self.size:")),
    T("tw-sector-assign-form", ["C08", "C13", "C01", "C15"], (U + "sector.py", "        remaining_size -= initial_read_size\n", "        remaining_size = remaining_size - initial_read_size\n")),
    # since the G13 repair a missing empty-request guard changes read(0) at the end of a chain (C08) but no export (C01/C02/C15)
    T("tw-export-zero-guard-weakened", ["C01", "C02", "C15"], (U + "sector.py", "        if size <= 0:\n            return bytes()", "        if size < 0:\n            return bytes()")),
    T("tw-partial-slot-else", ["C02", "C14", "C15"], (RO + "partial_entry.py", "            except (ConstructError, UnicodeDecodeError) as e:\n                continue\n            sample_references.append(sample_reference)\n",
      "            except (ConstructError, UnicodeDecodeError) as e:\n                pass\n            else:\n                sample_references.append(sample_reference)\n")),
    T("tw-sector-zero-guard-form", ["C08", "C01", "C15"], (U + "sector.py", "        if size <= 0:\n            return bytes()", "        if size < 1:\n            return b\"\"")),
    T("tw-stream-clamp-order", ["C08", "C11"], (U + "stream.py", "        if new_position > self.end_of_file:\n            new_position = self.end_of_file\n        elif new_position < 0:\n            new_position = 0\n",
                                               "        if new_position < 0:\n            new_position = 0\n        elif new_position > self.end_of_file:\n            new_position = self.end_of_file\n")),
    T("tw-stream-offset-commute", ["C08", "C02"], (U + "stream.py", "true_address = self.offset + address", "true_address = address + self.offset")),
    T("tw-mdf-commute", ["C08", "C09"], ("smpl_extract/alcohol/mdf.py", "mdf_address = sector_address + MDF_SECTOR_HEADER_SIZE + offset", "mdf_address = MDF_SECTOR_HEADER_SIZE + offset + sector_address")),
    T("tw-akai-window-distribute", ["C01", "C20"], (AK + "sample.py", "                                size=(AKAI_SAMPLE_WORDLENGTH * \\\n                                    (this.play_end - this.play_start)\n                                ),",
                                                    "                                size=(AKAI_SAMPLE_WORDLENGTH * this.play_end \\\n                                    - AKAI_SAMPLE_WORDLENGTH * this.play_start\n                                ),")),
    T("tw-padding-split", ["C01", "C20"], (AK + "sample.py", "    Padding(4),\n    \"loop_type\"", "    Padding(1),\n    Padding(3),\n    \"loop_type\"")),
    T("tw-roland-window-rename", ["C02"], (RO + "sample_file.py", "    offset_sample = points.start\n    num_samples = points.sustain_end - offset_sample + 1\n    stream_result = StreamOffset(\n        stream,\n        ROLAND_SAMPLE_WIDTH * num_samples,\n        ROLAND_SAMPLE_WIDTH * offset_sample\n    )\n\n    result = SampleParams(\n        stream_result,\n        loops=[]\n    )",
                                          "    first = points.start\n    count = 1 + points.sustain_end - first\n    stream_result = StreamOffset(\n        stream,\n        count * ROLAND_SAMPLE_WIDTH,\n        first * ROLAND_SAMPLE_WIDTH\n    )\n\n    result = SampleParams(\n        stream_result,\n        loops=[]\n    )")),
    T("tw-msf-expand", ["C03"], (CS, "        total_seconds = 60*self.n_minutes + self.n_seconds\n        total_frames = _AUDIO_FRAMES_PER_SECOND*total_seconds + \\\n            self.n_frames", "        total_frames = self.n_frames + _AUDIO_FRAMES_PER_SECOND*self.n_seconds + 60*_AUDIO_FRAMES_PER_SECOND*self.n_minutes")),
    T("tw-cdda-size-rename", ["C03"], (CD, "                    total_n_frames = next_n_frames - cur_n_frames\n\n                    offset_bytes = BYTES_PER_FRAME*cur_n_frames\n                    size_bytes = BYTES_PER_FRAME*total_n_frames", "                    total_n_frames = next_n_frames - cur_n_frames\n\n                    offset_bytes = cur_n_frames*BYTES_PER_FRAME\n                    size_bytes = BYTES_PER_FRAME*next_n_frames - offset_bytes")),
    T("tw-export-name-comment", ["C06", "C10"], (ST, "        if len(export_name) <= 0:\n            export_name = \"0\"\n", "        if len(export_name) < 1:\n            export_name = \"0\"\n")),
    T("tw-pairs-direct-args", ["C05"], (ST, "                    result_sample = combine_stereo(pairs[0], pairs[1], new_name)", "                    left_sample, right_sample = pairs[0], pairs[1]\n                    result_sample = combine_stereo(pairs[0], pairs[1], new_name)")),
    T("tw-transcoder-docstring", ["C12", "C05", "C04"], (TR, "def resize_buffer(buffer: bytes, frame_size: int) -> bytes:\n", "def resize_buffer(buffer: bytes, frame_size: int) -> bytes:\n    \"\"\"keep whole frames only\"\"\"\n")),
    T("tw-cue-regex-verbose-ws", ["C17"], (CS, r'_TITLE_LINE_REGEX = re.compile(r"\s*TITLE\s+\"(.*?)\"", flags=re.I)', r'_TITLE_LINE_REGEX = re.compile(r"\s*TITLE\s+\"(.*?)\"", flags=re.IGNORECASE)')),
    T("tw-charmap-hex", ["C18"], (AK + "data_types.py", 'CHAR_MAP_NINE      = { CharFormat.ASCII: ord("9"),  CharFormat.AKAI: 0x09 }', 'CHAR_MAP_NINE      = { CharFormat.ASCII: 57,  CharFormat.AKAI: 9 }')),
    T("tw-tune-fraction", ["C18"], (AK + "data_types.py", "    M = 100/255\n    X1 = -128", "    M = 20/51\n    X1 = -128")),
    T("tw-volume-realize-flag-first", ["C14", "C16", "C15"], (AK + "volume.py", "            if file is not None:\n                self._files.append(file)\n        self._is_files_realized = True", "            if file is None:\n                continue\n            self._files.append(file)\n        self._is_files_realized = True")),
    T("tw-blank-lines", ["*"], (U + "stream.py", "class StreamOffset(StreamWrapper):\n    \n", "class StreamOffset(StreamWrapper):\n    # offset window\n\n\n")),
    T("tw-fir-comment", ["C19"], ("smpl_extract/filters/fir.pyx", "    def get_remaining(self) -> np.ndarray:\n", "    def get_remaining(self) -> np.ndarray:\n        # flush the delayed tail\n")),
    T("tw-decoder-rename", ["C07", "C02", "C13"], (RO + "fat.py", "            subpath_visited = set()\n", "            seen_in_walk = set()\n"), (RO + "fat.py", "                if subpath_index in subpath_visited:\n", "                if subpath_index in seen_in_walk:\n"),
      (RO + "fat.py", "                subpath_visited.add(subpath_index)\n", "                seen_in_walk.add(subpath_index)\n")),
]
