"""Thorough tier: mutant / twin matrix run in memory on copies of the SourceSet.

A mutant is a small edit that breaks a property while still being valid Python; the property's
rules must flag it (with the expected rule).  A twin is a behaviour-preserving edit; the rules must
stay silent.  A surviving mutant or a flagged twin is a defect of the checker (exit 2), not a verdict
on the repository.  Edits whose anchor text is absent from the tree under analysis are skipped and
counted."""
import os
import random
from concurrent.futures import ProcessPoolExecutor

from . import variants


def _apply(sources, edits):
    out = dict(sources)
    for path, old, new in edits:
        if path not in out or out[path].count(old) != 1:
            return None
        out[path] = out[path].replace(old, new)
    return out


def _failing(pid, sources):
    from sa.main import run_rules
    from sa.core.loader import AnalysisError
    try:
        ctx = run_rules(pid, sources)
    except AnalysisError as e:
        return None, f"{e.rule}: {e.reason}"
    except SyntaxError as e:
        return None, f"syntax: {e}"
    return {o.key(): o for o in ctx.obs if not o.ok}, None


class _Timeout(Exception):
    pass


def _one(args):
    """one variant, under a watchdog: an analysis that does not finish is reported, never waited for"""
    import signal

    def _alarm(*_a):
        raise _Timeout()

    old = None
    try:
        old = signal.signal(signal.SIGALRM, _alarm)
        signal.alarm(180)
    except (ValueError, AttributeError):
        old = None
    try:
        return _one_inner(args)
    except _Timeout:
        return (args[1], args[2]["id"], "analysis-error", "analysis of this variant did not finish within 180 s")
    finally:
        try:
            signal.alarm(0)
            if old is not None:
                signal.signal(signal.SIGALRM, old)
        except (ValueError, AttributeError):
            pass


def _one_inner(args):
    pid, kind, v, sources, base_keys = args
    if "patch" in v:
        from . import patches
        src = patches.apply(sources, v["patch"])
    else:
        src = _apply(sources, v["edits"])
    if src is None:
        return (kind, v["id"], "skipped", "anchor text not present")
    fails, err = _failing(pid, src)
    if fails is None:
        # an analysis error on a variant: for a mutant this counts as noticed-but-not-attributed; for a twin it is a defect
        return (kind, v["id"], "analysis-error", err)
    new = [o for k, o in fails.items() if k not in base_keys]
    if kind == "mutant":
        hit = [o for o in new if any(o.rule.startswith(r) for r in v["rules"])]
        if hit:
            return (kind, v["id"], "flagged", f"{hit[0].rule} {hit[0].loc()} {hit[0].qual}")
        if new:
            return (kind, v["id"], "flagged-other", f"{new[0].rule} {new[0].loc()}")
        return (kind, v["id"], "survived", "")
    else:
        if new:
            return (kind, v["id"], "twin-flagged", f"{new[0].rule} {new[0].loc()} {new[0].qual}: {new[0].what[:80]} -- {new[0].detail[:120]}")
        return (kind, v["id"], "silent", "")


def run(pid, sources, seed=0, jobs=None):
    base, err = _failing(pid, sources)
    if base is None:
        return {"errors": [{"id": "baseline", "reason": err}]}
    base_keys = set(base)
    muts = [m for m in variants.MUTANTS if pid in m["props"]]
    twins = [t for t in variants.TWINS if pid in t["props"] or "*" in t["props"]]
    # the independently written changes kept under seeded/ (must be flagged by the check of their own property) and the
    # behaviour-preserving refactorings kept under twins/ (must be silent for every property) are replayed in memory
    from . import patches
    import json as _json
    with open(os.path.join(os.path.dirname(os.path.abspath(__file__)), "accepted.json")) as fh:
        accepted = _json.load(fh)
    for vid, prop, text, meta in patches.stored("seeded"):
        if prop != pid or vid not in accepted["seeds"]:
            continue
        if meta.get("status") == "retired":
            twins.append({"id": f"seed:{vid}(retired)", "props": [pid], "patch": text})
        else:
            muts.append({"id": f"seed:{vid}", "props": [pid], "rules": [""], "patch": text})
    for vid, prop, text, meta in patches.stored("twins"):
        if vid not in accepted["twins"]:
            continue
        twins.append({"id": f"twin:{vid}", "props": ["*"], "patch": text})
    rnd = random.Random(seed)
    rnd.shuffle(muts)
    tasks = [(pid, "mutant", m, sources, base_keys) for m in muts] + [(pid, "twin", t, sources, base_keys) for t in twins]
    jobs = jobs or min(16, os.cpu_count() or 4)
    results = []
    if len(tasks) > 3 and jobs > 1:
        with ProcessPoolExecutor(max_workers=jobs) as ex:
            results = list(ex.map(_one, tasks, chunksize=2))
    else:
        results = [_one(t) for t in tasks]
    errors = []
    summary = {"mutants_total": len(muts), "mutants_applied": 0, "mutants_flagged": 0, "mutants_flagged_by_other_rule": 0, "mutants_skipped": 0,
               "twins_total": len(twins), "twins_applied": 0, "twins_silent": 0, "twins_skipped": 0, "details": []}
    for kind, vid, status, info in results:
        summary["details"].append(f"{kind} {vid}: {status} {info}"[:260])
        if kind == "mutant":
            if status == "skipped":
                summary["mutants_skipped"] += 1
                continue
            summary["mutants_applied"] += 1
            if status == "flagged":
                summary["mutants_flagged"] += 1
            elif status in ("flagged-other", "analysis-error"):
                summary["mutants_flagged_by_other_rule"] += 1
            else:
                errors.append({"id": vid, "reason": "mutant survived: the rules of this property do not see it"})
        else:
            if status == "skipped":
                summary["twins_skipped"] += 1
                continue
            summary["twins_applied"] += 1
            if status == "silent":
                summary["twins_silent"] += 1
            else:
                errors.append({"id": vid, "reason": f"behaviour-preserving twin raised an alarm: {info}"})
    if muts and summary["mutants_applied"] == 0:
        errors.append({"id": "matrix", "reason": "no mutant of this property applies to the current tree (anchors drifted): self-test is vacuous"})
    summary["errors"] = errors
    return summary
