"""Front-end normalisation: inline *new* private helpers into their same-module callers.

"Extract helper" is the most common maintenance edit; the rules are written against the functions of
the pinned tree (the anchors of the properties), so a helper that did not exist there is folded back
into its callers before any rule looks at the code.  The baseline inventory of function names
(sa/reference/functions.json) decides what is new.  Inlining is purely syntactic and conservative:

  * candidates: module-level functions and methods absent from the inventory, without decorators,
    keyword-only / ** parameters, yield / await / global / nonlocal, nested defs, loops containing
    return, try/finally, or recursion; method candidates must have a program-wide unique name and be
    called as `self.<name>(...)` from the same class;
  * the helper body is brought into tail form (every return in tail position; guard clauses become
    if/else, returns inside try handlers move the continuation into the else clause);
  * expression helpers (`return <expr>`) are substituted wherever they are called;
  * straight-line helpers are hoisted in front of the simple statement containing the call, provided
    everything evaluated before the call in that statement is side-effect free;
  * helpers with branches / try are expanded only where the call is the whole value of
    `x = h(..)`, `return h(..)` or an expression statement;
  * arguments that are not side-effect free are evaluated once, in order, into temporaries;
    helper locals are renamed apart.

Anything that does not fit is left alone (the rules then see the call, as before)."""
import ast
import copy


def _clone(node):
    from .loader import clone
    return clone(node)
import json
import os

_HERE = os.path.dirname(os.path.dirname(os.path.abspath(__file__)))
_INV = None
MAX_HELPER_STMTS = 40


def inventory():
    global _INV
    if _INV is None:
        p = os.path.join(_HERE, "reference", "functions.json")
        try:
            with open(p) as fh:
                _INV = {k: set(v) for k, v in json.load(fh).items()}
        except FileNotFoundError:
            _INV = {}
    return _INV


# ------------------------------------------------------------------------------------------ purity
_PURE_CALLS = {"len", "int", "str", "abs", "min", "max", "bool", "float", "tuple", "isinstance"}


def pure(e):
    if isinstance(e, (ast.Constant, ast.Name)):
        return True
    if isinstance(e, ast.Attribute):
        return pure(e.value)
    if isinstance(e, ast.Subscript):
        return pure(e.value) and (pure(e.slice) if not isinstance(e.slice, ast.Slice) else all(x is None or pure(x) for x in (e.slice.lower, e.slice.upper, e.slice.step)))
    if isinstance(e, ast.UnaryOp):
        return pure(e.operand)
    if isinstance(e, ast.BinOp):
        return pure(e.left) and pure(e.right)
    if isinstance(e, ast.BoolOp):
        return all(pure(v) for v in e.values)
    if isinstance(e, ast.Compare):
        return pure(e.left) and all(pure(c) for c in e.comparators)
    if isinstance(e, (ast.Tuple, ast.List)):
        return all(pure(x) for x in e.elts)
    if isinstance(e, ast.Starred):
        return pure(e.value)
    if isinstance(e, ast.Call) and isinstance(e.func, ast.Name) and e.func.id in _PURE_CALLS and not e.keywords:
        return all(pure(a) for a in e.args)
    if isinstance(e, ast.Call) and isinstance(e.func, ast.Name) and e.func.id == "super" and not e.args and not e.keywords:
        return True  # the proxy object: building it has no effect
    return False


# ------------------------------------------------------------------------------------------ tail form
def _has_return(node):
    for n in ast.walk(node):
        if isinstance(n, ast.Return):
            return True
    return False


def _ends(stmts):
    """every path through stmts ends in return / raise"""
    if not stmts:
        return False
    st = stmts[-1]
    if isinstance(st, (ast.Return, ast.Raise)):
        return True
    if isinstance(st, ast.If):
        return bool(st.orelse) and _ends(st.body) and _ends(st.orelse)
    if isinstance(st, ast.Try):
        main = _ends(st.orelse) if st.orelse else _ends(st.body)
        return main and all(_ends(h.body) for h in st.handlers) and not st.finalbody
    return False


def _returns_at_loop_level(stmts):
    """every return inside stmts is reached through if / else nesting only (not inside a nested loop, try, with or def)"""
    for st in stmts:
        if isinstance(st, ast.Return):
            continue
        if isinstance(st, ast.If):
            if not _returns_at_loop_level(st.body) or not _returns_at_loop_level(st.orelse):
                return False
        elif _has_return(st):
            return False
    return True


class _NoTail(Exception):
    pass


def to_tail(stmts, budget=None):
    """statement list in which returns occur only in tail position (or raise _NoTail)"""
    budget = budget if budget is not None else [4 * MAX_HELPER_STMTS]
    out = []
    for i, st in enumerate(stmts):
        budget[0] -= 1
        if budget[0] < 0:
            raise _NoTail
        rest = stmts[i + 1:]
        if isinstance(st, (ast.Return, ast.Raise)):
            out.append(st)
            return out
        if not _has_return(st):
            if isinstance(st, (ast.FunctionDef, ast.AsyncFunctionDef, ast.ClassDef)):
                raise _NoTail
            out.append(st)
            continue
        if isinstance(st, ast.If):
            new = ast.If(test=st.test, body=to_tail(st.body + ([] if _ends(st.body) else _clone(rest)), budget),
                         orelse=to_tail(st.orelse + ([] if _ends(st.orelse) else _clone(rest)), budget))
            ast.copy_location(new, st)
            out.append(new)
            return out
        if isinstance(st, ast.Try) and not st.finalbody:
            if _has_return(ast.Module(body=st.body, type_ignores=[])):
                # a return inside the protected body: only as the last statement of the body, with no else clause
                if st.orelse or not isinstance(st.body[-1], ast.Return) or any(_has_return(x) for x in st.body[:-1]):
                    raise _NoTail
                body, orelse = st.body, []
            else:
                body = st.body
                orelse = to_tail(st.orelse + _clone(rest), budget)
            handlers = []
            for h in st.handlers:
                nh = ast.ExceptHandler(type=h.type, name=h.name, body=to_tail(h.body + ([] if _ends(h.body) else _clone(rest)), budget))
                ast.copy_location(nh, h)
                handlers.append(nh)
            new = ast.Try(body=body, handlers=handlers, orelse=orelse, finalbody=[])
            ast.copy_location(new, st)
            out.append(new)
            return out
        if isinstance(st, (ast.While, ast.For)) and not st.orelse and not _loop_level_jumps_kind(st.body, (ast.Break,)) and _returns_at_loop_level(st.body):
            # a loop that returns from inside: the returns leave the loop, what follows the loop runs only when it ends normally -
            # which is the loop's `else` clause once the returns have become `<result> ; break`
            new = type(st)(**{f_: getattr(st, f_) for f_ in st._fields if f_ not in ("orelse",)}, orelse=to_tail(_clone(rest), budget))
            ast.copy_location(new, st)
            new._ret_loop = True
            out.append(new)
            return out
        raise _NoTail  # return inside a nested loop / with / match
    r = ast.Return(value=ast.Constant(value=None))
    out.append(r)
    return out


# ------------------------------------------------------------------------------------------ helpers
class Helper:
    def __init__(self, fn, cls=None, static=False):
        self.fn, self.cls, self.static = fn, cls, static
        self.clsm = False
        self.name = fn.name
        a = fn.args
        self.params = [x.arg for x in a.posonlyargs + a.args]
        if cls is not None and not static:
            self.params = self.params[1:]
        self.self_name = (a.posonlyargs + a.args)[0].arg if (cls is not None and not static) else None
        nd = len(a.defaults)
        allp = [x.arg for x in a.posonlyargs + a.args]
        self.defaults = dict(zip(allp[len(allp) - nd:], a.defaults)) if nd else {}
        self.vararg = a.vararg.arg if a.vararg else None
        body = list(fn.body)
        if body and isinstance(body[0], ast.Expr) and isinstance(body[0].value, ast.Constant) and isinstance(body[0].value.value, str):
            body = body[1:]
        self.tail = to_tail(body)
        simple = all(isinstance(s, (ast.Assign, ast.AugAssign, ast.AnnAssign, ast.Expr, ast.Pass)) for s in self.tail[:-1]) and isinstance(self.tail[-1], ast.Return)
        if simple and len(self.tail) == 1:
            self.kind = "expr"
        elif simple:
            self.kind = "straight"
        else:
            self.kind = "tail"
        self.locals = set()
        for n in ast.walk(ast.Module(body=self.tail, type_ignores=[])):
            if isinstance(n, ast.Name) and isinstance(n.ctx, ast.Store):
                self.locals.add(n.id)
            elif isinstance(n, ast.ExceptHandler) and n.name:
                self.locals.add(n.name)
        self.free = {n.id for n in ast.walk(ast.Module(body=self.tail, type_ignores=[])) if isinstance(n, ast.Name) and isinstance(n.ctx, ast.Load)} \
            - self.locals - set(self.params) - ({self.vararg} if self.vararg else set()) - ({self.self_name} if self.self_name else set())


def _candidate(fn, cls):
    static = False
    clsm = False
    if cls is not None and len(fn.decorator_list) == 1 and isinstance(fn.decorator_list[0], ast.Name) and fn.decorator_list[0].id == "staticmethod":
        static = True
    elif cls is not None and len(fn.decorator_list) == 1 and isinstance(fn.decorator_list[0], ast.Name) and fn.decorator_list[0].id == "classmethod":
        clsm = True
    elif fn.decorator_list or isinstance(fn, ast.AsyncFunctionDef):
        return None
    a = fn.args
    if a.kwonlyargs or a.kwarg:
        return None
    if cls is not None and not static and not (a.posonlyargs + a.args):
        return None
    n_st = 0
    for n in ast.walk(fn):
        if n is fn:
            continue
        if isinstance(n, (ast.Yield, ast.YieldFrom, ast.Await, ast.Global, ast.Nonlocal, ast.FunctionDef, ast.AsyncFunctionDef, ast.ClassDef)):
            return None
        if isinstance(n, ast.stmt):
            n_st += 1
        if isinstance(n, ast.Call):
            f = n.func
            if isinstance(f, ast.Name) and f.id == fn.name:
                return None
            if isinstance(f, ast.Attribute) and f.attr == fn.name:
                return None
    if n_st > MAX_HELPER_STMTS:
        return None
    try:
        h = Helper(fn, cls, static)
    except _NoTail:
        return None
    h.clsm = clsm
    if h.vararg:
        # the * parameter may only be forwarded as *name
        for n in ast.walk(ast.Module(body=h.tail, type_ignores=[])):
            if isinstance(n, ast.Name) and n.id == h.vararg:
                par_ok = False
                for m in ast.walk(ast.Module(body=h.tail, type_ignores=[])):
                    if isinstance(m, ast.Starred) and m.value is n:
                        par_ok = True
                if not par_ok:
                    return None
    return h


# ------------------------------------------------------------------------------------------ substitution
class _Subst(ast.NodeTransformer):
    def __init__(self, mapping, rename, vararg=None, varvals=None):
        self.mapping, self.rename, self.vararg, self.varvals = mapping, rename, vararg, varvals or []

    def visit_Name(self, node):
        if node.id in self.mapping and isinstance(node.ctx, ast.Load):
            return _clone(self.mapping[node.id])
        if node.id in self.rename:
            return ast.copy_location(ast.Name(id=self.rename[node.id], ctx=node.ctx), node)
        return node

    def visit_ExceptHandler(self, node):
        self.generic_visit(node)
        if node.name and node.name in self.rename:
            node.name = self.rename[node.name]
        return node

    def visit_Call(self, node):
        self.generic_visit(node)
        if self.vararg:
            new_args = []
            for a in node.args:
                if isinstance(a, ast.Starred) and isinstance(a.value, ast.Name) and a.value.id == self.vararg:
                    new_args.extend(_clone(v) for v in self.varvals)
                else:
                    new_args.append(a)
            node.args = new_args
        return node


class Inliner:
    def __init__(self, helpers, methods):
        self.helpers, self.methods = helpers, methods  # name -> Helper ; (class name, method name) -> Helper
        self.counter = 0
        self.count = 0

    # -- which helper does this call refer to
    def _target(self, call, cls_name, local_names):
        f = call.func
        if isinstance(f, ast.Name) and f.id in self.helpers and f.id not in local_names:
            return self.helpers[f.id]
        if isinstance(f, ast.Attribute) and isinstance(f.value, ast.Name) and f.value.id == "self" and cls_name is not None \
                and (cls_name, f.attr) in self.methods and not self.methods[(cls_name, f.attr)].clsm:
            return self.methods[(cls_name, f.attr)]
        if isinstance(f, ast.Attribute) and isinstance(f.value, ast.Name) and f.value.id == "cls" and cls_name is not None \
                and (cls_name, f.attr) in self.methods and self.methods[(cls_name, f.attr)].clsm and "cls" in local_names:
            # cls.helper(...) from a classmethod of the same class: the helper's cls is the caller's cls
            return self.methods[(cls_name, f.attr)]
        if isinstance(f, ast.Attribute) and isinstance(f.value, ast.Name) and (f.value.id, f.attr) in self.methods \
                and self.methods[(f.value.id, f.attr)].static and f.value.id not in local_names:
            return self.methods[(f.value.id, f.attr)]
        if isinstance(f, ast.Attribute) and isinstance(f.value, ast.Name) and f.value.id in ("self", "cls") and cls_name is not None \
                and (cls_name, f.attr) in self.methods and self.methods[(cls_name, f.attr)].static:
            # a static helper (its name is unique in the program) reached through the instance or the class object
            return self.methods[(cls_name, f.attr)]
        return None

    def _bind(self, h, call, pre):
        """parameter -> argument expression (pure or evaluated into a temporary appended to `pre`); None when the call shape is unsupported"""
        if any(k.arg is None for k in call.keywords) or any(isinstance(a, ast.Starred) for a in call.args):
            return None
        args = list(call.args)
        mapping, varvals = {}, []
        if len(args) > len(h.params):
            if not h.vararg:
                return None
            varvals = args[len(h.params):]
            args = args[:len(h.params)]
        given = dict(zip(h.params, args))
        for k in call.keywords:
            if k.arg not in h.params or k.arg in given:
                return None
            given[k.arg] = k.value
        ordered = []
        for p in h.params:
            if p in given:
                ordered.append((p, given[p]))
            elif p in h.defaults:
                ordered.append((p, h.defaults[p]))
            else:
                return None
        self.counter += 1
        tag = f"_inl{self.counter}_"
        assigned_params = {p for p in h.params if p in h.locals}
        if pre is None and any(not pure(a) for p, a in ordered):
            if not self._expr_order_ok(h, [p for p, a in ordered if not pure(a)]):
                return None
            for p, a in ordered:
                mapping[p] = a
            ordered = []
        for p, a in ordered:
            if pure(a) and p not in assigned_params:
                mapping[p] = a
            else:
                if pre is None:
                    return None
                tmp = tag + p
                pre.append(ast.Assign(targets=[ast.Name(id=tmp, ctx=ast.Store())], value=_clone(a)))
                mapping[p] = ast.Name(id=tmp, ctx=ast.Load())
                if p in assigned_params:
                    mapping.pop(p)
                    # parameter reassigned in the helper: treat it as a renamed local initialised from the argument
                    pre[-1].targets[0].id = tag + p
        vv = []
        for a in varvals:
            if pure(a):
                vv.append(a)
            else:
                if pre is None:
                    return None
                tmp = f"{tag}v{len(vv)}"
                pre.append(ast.Assign(targets=[ast.Name(id=tmp, ctx=ast.Store())], value=_clone(a)))
                vv.append(ast.Name(id=tmp, ctx=ast.Load()))
        rename = {l: tag + l for l in h.locals}
        if h.self_name and h.self_name != "self" and not h.clsm:
            mapping[h.self_name] = ast.Name(id="self", ctx=ast.Load())
        if h.clsm and h.self_name and h.self_name != "cls":
            mapping[h.self_name] = ast.Name(id="cls", ctx=ast.Load())
        return _Subst(mapping, rename, h.vararg, vv)

    def _expr_order_ok(self, h, impure_params):
        if h.kind != "expr" or h.vararg:
            return False
        e = h.tail[0].value
        seq = []  # evaluation order: ('use', param) / ('impure', node)

        def visit(n):
            if isinstance(n, (ast.Lambda, ast.ListComp, ast.SetComp, ast.DictComp, ast.GeneratorExp, ast.IfExp, ast.BoolOp)):
                # conditional / deferred evaluation: a parameter inside might be evaluated zero or many times
                if any(isinstance(x, ast.Name) and x.id in impure_params for x in ast.walk(n)):
                    seq.append(("bad", n))
                return
            for ch in ast.iter_child_nodes(n):
                visit(ch)
            if isinstance(n, ast.Name) and n.id in impure_params:
                seq.append(("use", n.id))
            elif isinstance(n, ast.Call) and not pure(n):
                seq.append(("impure", n))

        visit(e)
        if any(k == "bad" for k, _ in seq):
            return False
        uses = [v for k, v in seq if k == "use"]
        if uses != list(impure_params):
            return False
        last = max(i for i, (k, v) in enumerate(seq) if k == "use")
        return not any(k == "impure" for k, v in seq[:last])

    # -- expression helpers anywhere
    def _inline_exprs(self, node, cls_name, local_names):
        me = self

        class T(ast.NodeTransformer):
            def visit_FunctionDef(self, n):
                return n

            visit_AsyncFunctionDef = visit_ClassDef = visit_FunctionDef

            def visit_Call(self, n):
                self.generic_visit(n)
                h = me._target(n, cls_name, local_names)
                if h is None or h.kind != "expr" or (h.free & local_names):
                    return n
                sub = me._bind(h, n, None)
                if sub is None:
                    return n
                e = sub.visit(_clone(h.tail[0].value))
                me.count += 1
                return ast.copy_location(e, n)

        return T().visit(node)

    def _first_call(self, st, cls_name, local_names):
        """(call, helper) for the first helper call evaluated in simple statement st such that everything evaluated
        before it is pure; None otherwise"""
        order = []

        def visit(n):
            if isinstance(n, (ast.Lambda, ast.ListComp, ast.SetComp, ast.DictComp, ast.GeneratorExp)):
                order.append(("opaque", n))
                return
            if isinstance(n, ast.Call):
                h_ = self._target(n, cls_name, local_names)
                if h_ is not None and h_.kind in ("straight", "tail"):
                    # its own arguments are evaluated first, in order: _bind() keeps that order (temporaries for impure ones)
                    visit(n.func)
                    order.append(("call", n))
                    return
            for ch in ast.iter_child_nodes(n):
                visit(ch)
            if isinstance(n, ast.Call):
                order.append(("call", n))
            elif isinstance(n, (ast.Await, ast.Yield, ast.YieldFrom, ast.NamedExpr)):
                order.append(("opaque", n))

        roots = []
        if isinstance(st, ast.Assign):
            roots = [st.value]
        elif isinstance(st, ast.AnnAssign) and st.value is not None:
            roots = [st.value]
        elif isinstance(st, (ast.Expr, ast.Return)) and st.value is not None:
            roots = [st.value]
        elif isinstance(st, ast.AugAssign):
            roots = [st.value] if isinstance(st.target, ast.Name) else []
        elif isinstance(st, ast.Raise) and st.exc is not None:
            roots = [st.exc]
        for r in roots:
            visit(r)
        for kind, n in order:
            if kind == "opaque":
                return None
            h = self._target(n, cls_name, local_names)
            if h is not None and h.kind in ("straight", "tail"):
                return n, h
            if not pure(n):
                return None
        return None

    def _expand(self, st, cls_name, local_names):
        """-> replacement statement list or None"""
        if not isinstance(st, (ast.Assign, ast.AnnAssign, ast.AugAssign, ast.Expr, ast.Return, ast.Raise)):
            return None
        if isinstance(st, ast.Raise) and (st.exc is None or not isinstance(st.exc, ast.Call)):
            return None
        fc = self._first_call(st, cls_name, local_names)
        if fc is None:
            return None
        call, h = fc
        if h.free & local_names:
            return None
        if isinstance(st, ast.Raise) and st.exc is not call:
            return None  # only `raise helper(..)`: the helper builds the exception object
        pre = []
        sub = self._bind(h, call, pre)
        if sub is None:
            return None
        body = [sub.visit(_clone(s)) for s in h.tail]
        whole = getattr(st, "value", None) is call or (isinstance(st, ast.Raise) and st.exc is call)
        if h.kind == "straight":
            ret = body[-1].value
            new_st = _replace_node(st, call, ret)
            out = pre + body[:-1] + [new_st]
        else:
            if not whole:
                return None
            if isinstance(st, ast.Assign):
                if len(st.targets) != 1:
                    return None
                mk = lambda e: ast.Assign(targets=[_clone(st.targets[0])], value=e)  # noqa: E731
            elif isinstance(st, ast.AnnAssign):
                mk = lambda e: ast.Assign(targets=[_clone(st.target)], value=e)  # noqa: E731
            elif isinstance(st, ast.Return):
                mk = lambda e: ast.Return(value=e)  # noqa: E731
            elif isinstance(st, ast.Raise):
                mk = lambda e: ast.Raise(exc=e, cause=_clone(st.cause) if st.cause is not None else None)  # noqa: E731
            elif isinstance(st, ast.Expr):
                mk = lambda e: ast.Expr(value=e) if not pure(e) else ast.Pass()  # noqa: E731
            else:
                return None
            out = pre + _map_returns(body, mk)
        out = _forward_temps(out)
        out = _split_tuple_assign(out)
        out = _rename_result_temps(out)
        out = _plain_names(out, local_names, h)
        for n in out:
            for x in ast.walk(n):
                if not hasattr(x, "lineno") or True:
                    x.lineno = getattr(st, "lineno", 1)
                    x.col_offset = getattr(st, "col_offset", 0)
                    x.end_lineno = getattr(st, "end_lineno", x.lineno)
                    x.end_col_offset = getattr(st, "end_col_offset", 0)
        self.count += 1
        return out

    def _hoist(self, st, cls_name, local_names):
        """a branching helper called inside a larger expression of a simple statement, or in the header of an `if` / `for`
        (evaluated once, before the statement's body): `T = h(..)` is put in front and T used in its place, provided everything
        evaluated before the call in that expression is pure.  -> [T = h(..), rewritten statement] or None"""
        if isinstance(st, (ast.Assign, ast.AnnAssign, ast.AugAssign, ast.Expr, ast.Return)):
            probe = st
        elif isinstance(st, ast.If):
            probe = ast.Expr(value=st.test)
        elif isinstance(st, ast.For):
            probe = ast.Expr(value=st.iter)
        else:
            return None
        fc = self._first_call(probe, cls_name, local_names)
        if fc is None:
            return None
        call, h = fc
        if getattr(probe, "value", None) is call and probe is st:
            return None  # whole value: _expand's business
        if h.free & local_names:
            return None
        self.counter += 1
        tmp = f"_inl{self.counter}_r"
        asg = ast.copy_location(ast.Assign(targets=[ast.Name(id=tmp, ctx=ast.Store())], value=call), st)
        new_st = _replace_node(st, call, ast.copy_location(ast.Name(id=tmp, ctx=ast.Load()), call))
        ast.fix_missing_locations(asg)
        return [asg, new_st]

    def _comp_to_loop(self, st, cls_name, local_names):
        """`T = [E for v in S if C]` whose element calls a statement-level helper: the comprehension is the loop
        `T = []; for v in S: if C: T.append(E)` (same evaluation order), in which the helper can be expanded"""
        if isinstance(st, ast.Assign) and len(st.targets) == 1 and isinstance(st.targets[0], ast.Name):
            tname, val = st.targets[0].id, st.value
        elif isinstance(st, ast.AnnAssign) and isinstance(st.target, ast.Name) and st.value is not None:
            tname, val = st.target.id, st.value
        elif (isinstance(st, ast.Return) or (isinstance(st, ast.Assign) and len(st.targets) == 1 and isinstance(st.targets[0], ast.Attribute)
                                             and pure(st.targets[0].value))) \
                and isinstance(st.value, ast.ListComp) and len(st.value.generators) == 1 and not st.value.generators[0].is_async:
            # `return [..]` / `self.x = [..]`: through a fresh local (the list is complete before it is returned / stored)
            hs0 = [self._target(c, cls_name, local_names) for c in ast.walk(st.value.elt) if isinstance(c, ast.Call)]
            if not any(h is not None and h.kind in ("straight", "tail") for h in hs0):
                return None
            self.counter += 1
            tmp = f"_lc{self.counter}"
            a1 = ast.Assign(targets=[ast.Name(id=tmp, ctx=ast.Store())], value=st.value)
            if isinstance(st, ast.Return):
                a2 = ast.Return(value=ast.Name(id=tmp, ctx=ast.Load()))
            else:
                a2 = ast.Assign(targets=st.targets, value=ast.Name(id=tmp, ctx=ast.Load()))
            for x in (a1, a2):
                ast.copy_location(x, st)
                ast.fix_missing_locations(x)
            return [a1, a2]
        else:
            return None
        if not isinstance(val, ast.ListComp) or len(val.generators) != 1 or val.generators[0].is_async:
            return None
        g = val.generators[0]
        calls = [c for c in ast.walk(val.elt) if isinstance(c, ast.Call)]
        hs = [self._target(c, cls_name, local_names) for c in calls]
        if not any(h is not None and h.kind in ("straight", "tail") for h in hs):
            return None
        if any(isinstance(n, ast.Name) and n.id == tname for n in ast.walk(val)):
            return None
        tnames = [n.id for n in ast.walk(g.target) if isinstance(n, ast.Name)]
        # the comprehension variable is private to the comprehension: keep it apart from the function's own locals
        outside = {n.id for n in ast.walk(ast.Module(body=[x for x in self._cur_fn_body if x is not st], type_ignores=[])) if isinstance(n, ast.Name)} if getattr(self, "_cur_fn_body", None) else set()
        self.counter += 1
        ren = {t: f"_cv{self.counter}_{t}" for t in tnames if t in outside}
        r = _Rename2(ren)
        app = ast.Expr(value=ast.Call(func=ast.Attribute(value=ast.Name(id=tname, ctx=ast.Load()), attr="append", ctx=ast.Load()), args=[r.visit(_clone(val.elt))], keywords=[]))
        body = [app]
        if g.ifs:
            test = r.visit(_clone(g.ifs[0])) if len(g.ifs) == 1 else ast.BoolOp(op=ast.And(), values=[r.visit(_clone(c)) for c in g.ifs])
            body = [ast.If(test=test, body=[app], orelse=[])]
        loop = ast.For(target=r.visit(_clone(g.target)), iter=_clone(g.iter), body=body, orelse=[])
        init = ast.Assign(targets=[ast.Name(id=tname, ctx=ast.Store())], value=ast.List(elts=[], ctx=ast.Load()))
        for x in (init, loop):
            ast.copy_location(x, st)
            ast.fix_missing_locations(x)
        self.count += 1
        return [init, loop]

    def run_body(self, stmts, cls_name, local_names, depth=0):
        out = []
        for st in stmts:
            if isinstance(st, (ast.FunctionDef, ast.AsyncFunctionDef)):
                self.run_function(st, cls_name)
                out.append(st)
                continue
            c2l = self._comp_to_loop(st, cls_name, local_names) if depth < 4 else None
            if c2l is not None:
                out.extend(self.run_body(c2l, cls_name, local_names, depth + 1))
                continue
            if isinstance(st, ast.ClassDef):
                self.run_class(st)
                out.append(st)
                continue
            rep = self._expand(st, cls_name, local_names) if depth < 4 else None
            if rep is None and depth < 4:
                rep = self._hoist(st, cls_name, local_names)
            if rep is not None:
                # the expansion may contain further helper calls
                out.extend(_forward_pure(self.run_body(rep, cls_name, local_names, depth + 1)))
                continue
            # recurse into compound statements
            for field in ("body", "orelse", "finalbody"):
                sub = getattr(st, field, None)
                if isinstance(sub, list) and sub and isinstance(sub[0], ast.stmt):
                    setattr(st, field, self.run_body(sub, cls_name, local_names, depth))
            if isinstance(st, ast.Try):
                for h in st.handlers:
                    h.body = self.run_body(h.body, cls_name, local_names, depth)
            # expression helpers inside this statement's own expressions
            for field, val in list(ast.iter_fields(st)):
                if isinstance(val, ast.expr):
                    setattr(st, field, self._inline_exprs(val, cls_name, local_names))
                elif isinstance(val, list) and val and isinstance(val[0], ast.expr):
                    setattr(st, field, [self._inline_exprs(v, cls_name, local_names) for v in val])
                elif isinstance(val, list) and val and isinstance(val[0], ast.withitem):
                    for it in val:
                        it.context_expr = self._inline_exprs(it.context_expr, cls_name, local_names)
            out.append(st)
        return out

    def run_function(self, fn, cls_name):
        local_names = {a.arg for a in fn.args.posonlyargs + fn.args.args + fn.args.kwonlyargs}
        if fn.args.vararg:
            local_names.add(fn.args.vararg.arg)
        if fn.args.kwarg:
            local_names.add(fn.args.kwarg.arg)
        for n in ast.walk(fn):
            if isinstance(n, ast.Name) and isinstance(n.ctx, ast.Store):
                local_names.add(n.id)
        self._cur_fn_body = fn.body
        fn.body = self.run_body(fn.body, cls_name, local_names)
        self._cur_fn_body = None

    def run_class(self, cls):
        new = []
        for st in cls.body:
            if isinstance(st, (ast.FunctionDef, ast.AsyncFunctionDef)):
                self.run_function(st, cls.name)
                new.append(st)
            elif isinstance(st, ast.ClassDef):
                self.run_class(st)
                new.append(st)
            else:
                new.extend(self.run_body([st], cls.name, set()))
        cls.body = new

    def run_module(self, tree):
        tree.body = self.run_body(tree.body, None, set())


def _forward_pure(stmts):
    """`_inlN_x = <pure expr>` immediately followed by a statement that uses _inlN_x exactly once (anywhere, including the
    header of a for / if) and nowhere else: substitute.  Also drops `pass` left over next to other statements."""
    changed = True
    while changed:
        changed = False
        for i in range(len(stmts) - 1):
            a, b = stmts[i], stmts[i + 1]
            if not (isinstance(a, ast.Assign) and len(a.targets) == 1 and isinstance(a.targets[0], ast.Name) and a.targets[0].id.startswith("_inl") and pure(a.value)):
                continue
            t = a.targets[0].id
            total = sum(1 for st in stmts for n in ast.walk(st) if isinstance(n, ast.Name) and n.id == t)
            uses = [n for n in ast.walk(b) if isinstance(n, ast.Name) and n.id == t and isinstance(n.ctx, ast.Load)]
            if total != 2 or len(uses) != 1:
                continue
            # the names the pure value reads must not be rebound inside b before the use: only allow the use in b's header
            header = [getattr(b, f) for f in ("test", "iter", "value") if hasattr(b, f)]
            if not any(any(x is uses[0] for x in ast.walk(h)) for h in header if h is not None):
                continue
            stmts[i + 1] = _replace_node(b, uses[0], a.value)
            del stmts[i]
            changed = True
            break
    for st in stmts:
        for field in ("body", "orelse", "finalbody"):
            sub = getattr(st, field, None)
            if isinstance(sub, list) and len(sub) > 1 and any(isinstance(x, ast.Pass) for x in sub):
                setattr(st, field, [x for x in sub if not isinstance(x, ast.Pass)])
    return stmts


def normalise_straight_factories(tree):
    """a function whose body is only local assignments and one final return (a factory: no branches, loops or other statements):
    a local bound once to an object built by the construct library and read once, in the statement that directly follows its
    binding, is written in at that place (nothing with an effect is evaluated between the binding and the use)"""
    n = 0
    lib = set()
    for st in tree.body:
        if isinstance(st, ast.ImportFrom) and st.module in ("construct", "construct.core", "construct.lib"):
            lib |= {a.asname or a.name for a in st.names}
    if not lib:
        return 0
    for fn in [f for f in ast.walk(tree) if isinstance(f, ast.FunctionDef)]:
        body = [b for b in fn.body if not (isinstance(b, ast.Expr) and isinstance(b.value, ast.Constant))]
        if len(body) < 2 or not isinstance(body[-1], ast.Return) or body[-1].value is None:
            continue
        if not all(isinstance(b, ast.Assign) and len(b.targets) == 1 and isinstance(b.targets[0], ast.Name) for b in body[:-1]):
            continue
        if not any(isinstance(b.value, ast.Call) for b in body[:-1]):
            continue
        if any(isinstance(x, (ast.Lambda, ast.GeneratorExp, ast.ListComp, ast.SetComp, ast.DictComp, ast.NamedExpr, ast.Yield, ast.YieldFrom, ast.Await)) for b in body for x in ast.walk(b)):
            continue
        k = len(body)
        new = _forward_temps(list(body), any_name=lib)
        if len(new) != k:
            doc = [b for b in fn.body if isinstance(b, ast.Expr) and isinstance(b.value, ast.Constant)]
            fn.body = doc[:1] + new
            n += k - len(new)
    if n:
        ast.fix_missing_locations(tree)
    return n


def _forward_temps(stmts, any_name=False):
    """peephole: `_inlN_t = e` immediately followed by a simple statement that uses _inlN_t exactly once (and the
    name occurs nowhere else) becomes that statement with e in place of the temporary"""
    changed = True
    while changed:
        changed = False
        for i in range(len(stmts) - 1):
            a, b = stmts[i], stmts[i + 1]
            if not (isinstance(a, ast.Assign) and len(a.targets) == 1 and isinstance(a.targets[0], ast.Name) and (any_name or a.targets[0].id.startswith("_inl"))):
                continue
            if any_name and not a.targets[0].id.startswith("_inl") and not (isinstance(a.value, ast.Call) and isinstance(a.value.func, ast.Name) and a.value.func.id in any_name):
                continue  # only objects built by the construct library are moved (building them has no effect on anything else)
            t = a.targets[0].id
            if not isinstance(b, (ast.Assign, ast.AnnAssign, ast.AugAssign, ast.Expr, ast.Return)):
                continue
            total = sum(1 for st in stmts for n in ast.walk(st) if isinstance(n, ast.Name) and n.id == t)
            uses = [n for n in ast.walk(b) if isinstance(n, ast.Name) and n.id == t and isinstance(n.ctx, ast.Load)]
            if total != 2 or len(uses) != 1:
                continue
            # everything evaluated in b before the use must be pure (so moving e there keeps the order of effects)
            order, found = [], [False]

            def visit(n):
                if found[0]:
                    return
                if n is uses[0]:
                    found[0] = True
                    return
                for ch in ast.iter_child_nodes(n):
                    visit(ch)
                    if found[0]:
                        return
                if isinstance(n, (ast.Call, ast.Await, ast.Yield, ast.YieldFrom)):
                    order.append(n)

            val = getattr(b, "value", None)
            if val is None:
                continue
            visit(val)
            if not found[0] or any(not pure(n) for n in order):
                continue
            stmts[i + 1] = _replace_node(b, uses[0], a.value)
            del stmts[i]
            changed = True
            break
    return stmts


def _plain_names(stmts, local_names, h):
    """give the helper's remaining locals their own names back where the caller has no variable of that name"""
    import re
    found = {}
    for st in stmts:
        for n in ast.walk(st):
            nm = n.id if isinstance(n, ast.Name) else (n.name if isinstance(n, ast.ExceptHandler) and n.name else None)
            if nm:
                m = re.match(r"^_inl\d+_(.+)$", nm)
                if m and m.group(1) != "r":  # `_inlN_r` is a hoisted result referenced outside the expansion
                    found[nm] = m.group(1)
    ren = {}
    for tmp, plain in sorted(found.items()):
        if plain in local_names or plain in ren.values() or plain in h.free or plain.startswith("_inl"):
            continue
        ren[tmp] = plain
        local_names.add(plain)
    if not ren:
        return stmts

    class R(ast.NodeTransformer):
        def visit_Name(self, n):
            if n.id in ren:
                return ast.copy_location(ast.Name(id=ren[n.id], ctx=n.ctx), n)
            return n

        def visit_ExceptHandler(self, n):
            self.generic_visit(n)
            if n.name in ren:
                n.name = ren[n.name]
            return n

    return [R().visit(st) for st in stmts]


def _flatten(stmts, in_handler_of=None, acc=None):
    """statements in evaluation-textual order with the Try whose handler they sit in (or None)"""
    acc = acc if acc is not None else []
    for st in stmts:
        acc.append((st, in_handler_of))
        for field in ("body", "orelse", "finalbody"):
            sub = getattr(st, field, None)
            if isinstance(sub, list) and sub and isinstance(sub[0], ast.stmt):
                _flatten(sub, in_handler_of, acc)
        if isinstance(st, ast.Try):
            for h in st.handlers:
                _flatten(h.body, st, acc)
    return acc


def _rename_result_temps(stmts):
    """`_inlN_t = e ... Y = _inlN_t` (the helper's result variable copied into the caller's variable): assign Y directly.
    Only when every load of the temporary is such a copy into the same plain name Y, Y is otherwise only stored to inside
    the expansion, and nothing that can raise lies between the definition and the copy except handlers of the
    definition's own try."""
    flat = _flatten(stmts)
    temps = {}
    for st, _h in flat:
        if isinstance(st, ast.Assign) and len(st.targets) == 1 and isinstance(st.targets[0], ast.Name) and st.targets[0].id.startswith("_inl"):
            temps.setdefault(st.targets[0].id, []).append(st)
        elif isinstance(st, ast.AnnAssign) and isinstance(st.target, ast.Name) and st.value is not None and st.target.id.startswith("_inl"):
            temps.setdefault(st.target.id, []).append(st)
    for t, defs in temps.items():
        loads = [(st, n) for st, _h in flat for n in _own_exprs(st) if isinstance(n, ast.Name) and n.id == t and isinstance(n.ctx, ast.Load)]
        if not loads:
            continue
        # case A: the temporary is y's slot: initialised by `t = y`, copied back by `y = t`, and y is not otherwise touched inside the expansion
        first = defs[0]
        if isinstance(first.value, ast.Name) and not first.value.id.startswith("_inl") and flat and flat[[x[0] for x in flat].index(first)][1] is None:
            y = first.value.id
            backs = [st for st, _h in flat if isinstance(st, ast.Assign) and len(st.targets) == 1 and isinstance(st.targets[0], ast.Name)
                     and st.targets[0].id == y and isinstance(st.value, ast.Name) and st.value.id == t]
            other = False
            for st, _h in flat:
                if st is first or st in backs:
                    continue
                for n in _own_exprs(st):
                    if isinstance(n, ast.Name) and n.id == y:
                        other = True
            if backs and not other:
                class RA(ast.NodeTransformer):
                    def visit_Name(self, n):
                        if n.id == t:
                            return ast.copy_location(ast.Name(id=y, ctx=n.ctx), n)
                        return n

                stmts = _drop_self_copies([RA().visit(st) for st in stmts])
                return _rename_result_temps(stmts)
            # case A': t starts as a copy of y, y itself is never read inside the expansion, and every way through the expansion ends
            # by assigning y: t can live in y's slot throughout (y's old value is dead once t has been initialised from it)
            y_loads = [n for st, _h in flat if st is not first for n in _own_exprs(st) if isinstance(n, ast.Name) and n.id == y and isinstance(n.ctx, ast.Load)]

            def assigns_y(a_):
                return isinstance(a_, ast.Assign) and any(isinstance(x, ast.Name) and x.id == y and isinstance(x.ctx, ast.Store) for t_ in a_.targets for x in ast.walk(t_))

            def breaks_assign(sts):
                """every `break` of this loop level directly follows an assignment to y"""
                for k_, s_ in enumerate(sts):
                    if isinstance(s_, ast.Break):
                        if k_ == 0 or not assigns_y(sts[k_ - 1]):
                            return False
                    elif isinstance(s_, ast.If):
                        if not breaks_assign(s_.body) or not breaks_assign(s_.orelse):
                            return False
                    elif isinstance(s_, (ast.Try, ast.With, ast.For, ast.While)):
                        return False
                return True

            def ends_assigning(sts):
                if not sts:
                    return False
                last = sts[-1]
                if assigns_y(last):
                    return True
                if isinstance(last, ast.If):
                    return bool(last.orelse) and ends_assigning(last.body) and ends_assigning(last.orelse)
                if isinstance(last, (ast.While, ast.For)) and getattr(last, "_ret_loop", False):
                    return ends_assigning(last.orelse) and breaks_assign(last.body)
                return isinstance(last, ast.Raise)
            if not y_loads and stmts and stmts[0] is first and ends_assigning(stmts) and not any(
                    isinstance(st, (ast.Try, ast.With)) or (isinstance(st, (ast.For, ast.While)) and not getattr(st, "_ret_loop", False)) for st, _h in flat):
                class RB(ast.NodeTransformer):
                    def visit_Name(self, n):
                        if n.id == t:
                            return ast.copy_location(ast.Name(id=y, ctx=n.ctx), n)
                        return n

                stmts = _drop_self_copies(_split_tuple_assign([RB().visit(st) for st in stmts]))
                return _rename_result_temps(stmts)
        copies = [st for st, n in loads if isinstance(st, ast.Assign) and st.value is n and len(st.targets) == 1 and isinstance(st.targets[0], ast.Name)]
        if not copies:
            continue
        ys = {c.targets[0].id for c in copies}
        if len(ys) != 1:
            continue
        y = ys.pop()
        if y.startswith("_inl"):
            continue
        # other occurrences of y inside the expansion: stores only
        bad = False
        for st, _h in flat:
            if isinstance(st, ast.Assign) and len(st.targets) == 1 and isinstance(st.targets[0], ast.Name) and st.targets[0].id == t \
                    and isinstance(st.value, ast.Name) and st.value.id == y:
                continue  # the temporary is initialised from y itself (a reassigned parameter): it is y's slot throughout
            if st in copies:
                continue
            for n in _own_exprs(st):
                if isinstance(n, ast.Name) and n.id == y:
                    bad = True  # y is touched by something other than the final copies: the temporary is not just y's slot
        if bad:
            continue
        # nothing raising between a definition and the next copy, except handlers of the try containing the definition
        order = [st for st, _h in flat]
        hand = {id(st): h for st, h in flat}
        ok = True
        for d in defs:
            i = order.index(d)
            nxt = [j for j in range(i + 1, len(order)) if order[j] in copies]
            if not nxt:
                ok = False
                break
            for j in range(i + 1, nxt[0]):
                st = order[j]
                h = hand[id(st)]
                if h is not None and any(x is d for b in h.body for x in ast.walk(b)):
                    continue
                # y is not mentioned by anything in between (checked above): assigning it earlier is unobservable inside the
                # expansion; an exception leaving the expansion leaves y assigned earlier than before, which only a handler
                # of the caller reading y could notice
                pass
        if not ok:
            continue

        class R(ast.NodeTransformer):
            def visit_Name(self, n):
                if n.id == t:
                    return ast.copy_location(ast.Name(id=y, ctx=n.ctx), n)
                return n

        stmts = [R().visit(st) for st in stmts]
        stmts = _drop_self_copies(stmts)
    return stmts


def _own_exprs(st):
    """expression nodes belonging to statement st itself (not to nested statements)"""
    out = []

    def visit(n, top):
        if isinstance(n, ast.stmt) and not top:
            return
        if isinstance(n, ast.ExceptHandler):
            return
        if not top or not isinstance(n, ast.stmt):
            out.append(n)
        for ch in ast.iter_child_nodes(n):
            visit(ch, False)

    visit(st, True)
    return out


def _split_tuple_assign(stmts):
    """`a, b = (x, y)` with side-effect-free x, y that do not read a is `a = x; b = y`"""
    out = []
    for st in stmts:
        if isinstance(st, ast.Assign) and len(st.targets) == 1 and isinstance(st.targets[0], ast.Tuple) and isinstance(st.value, ast.Tuple) \
                and len(st.targets[0].elts) == len(st.value.elts) and all(isinstance(t_, ast.Name) for t_ in st.targets[0].elts) \
                and len({t_.id for t_ in st.targets[0].elts}) == len(st.value.elts) and all(pure(v_) and not isinstance(v_, ast.Starred) for v_ in st.value.elts):
            tn = [t_.id for t_ in st.targets[0].elts]
            clash = any(isinstance(x, ast.Name) and x.id in tn[:i_] for i_, v_ in enumerate(st.value.elts) for x in ast.walk(v_))
            if not clash:
                for t_, v_ in zip(st.targets[0].elts, st.value.elts):
                    a_ = ast.Assign(targets=[t_], value=v_)
                    ast.copy_location(a_, st)
                    out.append(a_)
                continue
        for field in ("body", "orelse"):
            sub = getattr(st, field, None)
            if isinstance(st, (ast.If, ast.While, ast.For)) and isinstance(sub, list) and sub:
                setattr(st, field, _split_tuple_assign(sub))
        out.append(st)
    return out


def _drop_self_copies(stmts):
    out = []
    for st in stmts:
        if isinstance(st, ast.Assign) and len(st.targets) == 1 and isinstance(st.targets[0], ast.Name) and isinstance(st.value, ast.Name) \
                and st.value.id == st.targets[0].id:
            continue
        for field in ("body", "orelse", "finalbody"):
            sub = getattr(st, field, None)
            if isinstance(sub, list) and sub and isinstance(sub[0], ast.stmt):
                new = _drop_self_copies(sub)
                setattr(st, field, new if (new or field != "body") else [ast.Pass()])
        if isinstance(st, ast.Try):
            for h in st.handlers:
                h.body = _drop_self_copies(h.body) or [ast.Pass()]
        out.append(st)
    return out


def _replace_node(st, old, new):
    class R(ast.NodeTransformer):
        def visit(self, n):
            if n is old:
                return new
            return super().visit(n)

    return R().visit(st)


def _map_returns(stmts, mk, brk=False):
    out = []
    for st in stmts:
        if isinstance(st, ast.Return):
            out.append(mk(st.value if st.value is not None else ast.Constant(value=None)))
            if brk:
                out.append(ast.Break())
        elif isinstance(st, ast.If):
            st.body = _map_returns(st.body, mk, brk)
            st.orelse = _map_returns(st.orelse, mk, brk)
            out.append(st)
        elif isinstance(st, ast.Try):
            st.body = _map_returns(st.body, mk, brk)
            st.orelse = _map_returns(st.orelse, mk, brk)
            for h in st.handlers:
                h.body = _map_returns(h.body, mk, brk)
            out.append(st)
        elif isinstance(st, (ast.While, ast.For)) and getattr(st, "_ret_loop", False):
            st.body = _map_returns(st.body, mk, True)
            st.orelse = _map_returns(st.orelse, mk, brk)
            out.append(st)
        else:
            out.append(st)
    return out


# ------------------------------------------------------------------------------------------ loop guards
_INV_OP = {ast.Lt: ast.GtE, ast.GtE: ast.Lt, ast.Gt: ast.LtE, ast.LtE: ast.Gt, ast.Eq: ast.NotEq, ast.NotEq: ast.Eq,
           ast.Is: ast.IsNot, ast.IsNot: ast.Is, ast.In: ast.NotIn, ast.NotIn: ast.In}


def negate(test):
    if isinstance(test, ast.UnaryOp) and isinstance(test.op, ast.Not):
        return test.operand
    if isinstance(test, ast.Compare) and len(test.ops) == 1 and type(test.ops[0]) in _INV_OP:
        return ast.copy_location(ast.Compare(left=test.left, ops=[_INV_OP[type(test.ops[0])]()], comparators=test.comparators), test)
    return ast.copy_location(ast.UnaryOp(op=ast.Not(), operand=test), test)


def normalise_loops(tree):
    """`while True: if C: break; REST` is the same loop as `while not C: REST` (the guard is re-evaluated on every
    iteration and on every continue in both forms).  Returns the number of loops rewritten."""
    n = 0
    for w in ast.walk(tree):
        if not isinstance(w, ast.While) or w.orelse:
            continue
        while isinstance(w.test, ast.Constant) and w.test.value is True and len(w.body) > 1 and isinstance(w.body[0], ast.If) \
                and not w.body[0].orelse and len(w.body[0].body) == 1 and isinstance(w.body[0].body[0], ast.Break):
            w.test = negate(w.body[0].test)
            w.body = w.body[1:]
            n += 1
    return n


def normalise_count_loops(tree):
    """`for v in itertools.count(a): BODY` (BODY without `continue` at its own level, no else) is
    `v = a; while True: BODY; v += 1`: v takes the same values, and after a `break` it is the current one in both forms."""
    n = 0
    count_names = set()
    mod_names = set()
    for st in ast.walk(tree):
        if isinstance(st, ast.ImportFrom) and st.module == "itertools":
            for a in st.names:
                if a.name == "count":
                    count_names.add(a.asname or a.name)
        elif isinstance(st, ast.Import):
            for a in st.names:
                if a.name == "itertools":
                    mod_names.add(a.asname or a.name)
    if not count_names and not mod_names:
        return 0

    def is_count(e):
        if not isinstance(e, ast.Call) or e.keywords or len(e.args) > 1:
            return False
        f = e.func
        return (isinstance(f, ast.Name) and f.id in count_names) or (isinstance(f, ast.Attribute) and f.attr == "count" and isinstance(f.value, ast.Name) and f.value.id in mod_names)

    for node in ast.walk(tree):
        for field in ("body", "orelse", "finalbody"):
            stmts = getattr(node, field, None)
            if not isinstance(stmts, list) or not stmts or not isinstance(stmts[0], ast.stmt):
                continue
            for i, st in enumerate(list(stmts)):
                if not (isinstance(st, ast.For) and not st.orelse and isinstance(st.target, ast.Name) and is_count(st.iter)):
                    continue
                if _loop_level_continue(st.body) or any(isinstance(x, ast.Name) and x.id == st.target.id and isinstance(x.ctx, ast.Store) for b in st.body for x in ast.walk(b)):
                    continue
                start = st.iter.args[0] if st.iter.args else ast.Constant(value=0)
                init = ast.Assign(targets=[ast.Name(id=st.target.id, ctx=ast.Store())], value=start)
                step = ast.AugAssign(target=ast.Name(id=st.target.id, ctx=ast.Store()), op=ast.Add(), value=ast.Constant(value=1))
                loop = ast.While(test=ast.Constant(value=True), body=list(st.body) + [step], orelse=[])
                for x in (init, loop):
                    ast.copy_location(x, st)
                    ast.fix_missing_locations(x)
                k = stmts.index(st)
                stmts[k:k + 1] = [init, loop]
                n += 1
    return n


def _loop_level_continue(stmts):
    for s_ in stmts:
        if isinstance(s_, ast.Continue):
            return True
        if isinstance(s_, (ast.For, ast.While, ast.FunctionDef, ast.AsyncFunctionDef, ast.ClassDef)):
            continue
        for field in ("body", "orelse", "finalbody"):
            sub = getattr(s_, field, None)
            if isinstance(sub, list) and sub and isinstance(sub[0], ast.stmt) and _loop_level_continue(sub):
                return True
        if isinstance(s_, ast.Try) and any(_loop_level_continue(h.body) for h in s_.handlers):
            return True
    return False


def normalise_next_loops(tree):
    """`while True: x = next(it, SENTINEL); if x is SENTINEL: POST; break; BODY` with SENTINEL a module-level `object()` is
    `for x in it: BODY` followed by POST, provided BODY cannot `break` and x is not read once the iterator is used up."""
    sentinels = set()
    for st in getattr(tree, "body", []):
        if isinstance(st, ast.Assign) and len(st.targets) == 1 and isinstance(st.targets[0], ast.Name) and isinstance(st.value, ast.Call) \
                and isinstance(st.value.func, ast.Name) and st.value.func.id == "object" and not st.value.args and not st.value.keywords:
            sentinels.add(st.targets[0].id)
    if not sentinels:
        return 0
    n = 0
    for fn in [f for f in ast.walk(tree) if isinstance(f, (ast.FunctionDef, ast.AsyncFunctionDef))]:
        for node in ast.walk(fn):
            for field in ("body", "orelse", "finalbody"):
                stmts = getattr(node, field, None)
                if not isinstance(stmts, list) or not stmts or not isinstance(stmts[0], ast.stmt):
                    continue
                for w in list(stmts):
                    if not (isinstance(w, ast.While) and not w.orelse and isinstance(w.test, ast.Constant) and w.test.value is True and len(w.body) >= 2):
                        continue
                    a, g = w.body[0], w.body[1]
                    if not (isinstance(a, ast.Assign) and len(a.targets) == 1 and isinstance(a.targets[0], ast.Name) and isinstance(a.value, ast.Call)
                            and isinstance(a.value.func, ast.Name) and a.value.func.id == "next" and len(a.value.args) == 2 and not a.value.keywords
                            and isinstance(a.value.args[0], ast.Name) and isinstance(a.value.args[1], ast.Name) and a.value.args[1].id in sentinels):
                        continue
                    x, it, sn = a.targets[0].id, a.value.args[0].id, a.value.args[1].id
                    t = g.test if isinstance(g, ast.If) else None
                    if not (isinstance(g, ast.If) and not g.orelse and isinstance(t, ast.Compare) and len(t.ops) == 1 and isinstance(t.ops[0], ast.Is)
                            and isinstance(t.left, ast.Name) and t.left.id == x and isinstance(t.comparators[0], ast.Name) and t.comparators[0].id == sn
                            and g.body and isinstance(g.body[-1], ast.Break)):
                        continue
                    post, body = g.body[:-1], w.body[2:]
                    if _loop_level_jumps_kind(body, ast.Break) or _loop_level_jumps_kind(post, (ast.Break, ast.Continue)):
                        continue
                    reads_outside = [y for y in ast.walk(fn) if isinstance(y, ast.Name) and y.id == x and isinstance(y.ctx, ast.Load)
                                     and not any(y is z for b in body for z in ast.walk(b)) and y is not t.left]
                    if reads_outside or any(isinstance(y, ast.Name) and y.id == it and isinstance(y.ctx, ast.Store) for b in body + post for y in ast.walk(b)):
                        continue
                    loop = ast.For(target=ast.Name(id=x, ctx=ast.Store()), iter=ast.Name(id=it, ctx=ast.Load()), body=body or [ast.Pass()], orelse=[])
                    ast.copy_location(loop, w)
                    ast.fix_missing_locations(loop)
                    k = stmts.index(w)
                    stmts[k:k + 1] = [loop] + post
                    n += 1
    return n


def _loop_level_jumps_kind(stmts, kinds):
    for s_ in stmts:
        if isinstance(s_, kinds):
            return True
        if isinstance(s_, (ast.For, ast.While, ast.FunctionDef, ast.AsyncFunctionDef, ast.ClassDef)):
            continue
        for field in ("body", "orelse", "finalbody"):
            sub = getattr(s_, field, None)
            if isinstance(sub, list) and sub and isinstance(sub[0], ast.stmt) and _loop_level_jumps_kind(sub, kinds):
                return True
        if isinstance(s_, ast.Try) and any(_loop_level_jumps_kind(h.body, kinds) for h in s_.handlers):
            return True
    return False


def normalise_reduce(tree):
    """`T = functools.reduce(lambda acc, x: E, ITER, INIT)` is the loop `acc = INIT; for x in ITER: acc = E; T = acc`
    (reduce with an initial value; argument evaluation order kept)."""
    names, mods = set(), set()
    for st in ast.walk(tree):
        if isinstance(st, ast.ImportFrom) and st.module == "functools":
            for a in st.names:
                if a.name == "reduce":
                    names.add(a.asname or a.name)
        elif isinstance(st, ast.Import):
            for a in st.names:
                if a.name == "functools":
                    mods.add(a.asname or a.name)
    if not names and not mods:
        return 0
    n = 0
    counter = [0]
    used_stores = {}
    for fn in [f for f in ast.walk(tree) if isinstance(f, (ast.FunctionDef, ast.AsyncFunctionDef))]:
        used = {x.id for x in ast.walk(fn) if isinstance(x, ast.Name)} | {a.arg for a in fn.args.posonlyargs + fn.args.args + fn.args.kwonlyargs}
        used_stores[id(fn)] = {x.id for x in ast.walk(fn) if isinstance(x, ast.Name) and isinstance(x.ctx, (ast.Store, ast.Del))} | {a.arg for a in fn.args.posonlyargs + fn.args.args + fn.args.kwonlyargs}
        for node in ast.walk(fn):
            for field in ("body", "orelse", "finalbody"):
                stmts = getattr(node, field, None)
                if not isinstance(stmts, list) or not stmts or not isinstance(stmts[0], ast.stmt):
                    continue
                for st in list(stmts):
                    if isinstance(st, ast.Assign) and len(st.targets) == 1:
                        mk = lambda v, st=st: ast.Assign(targets=[_clone(st.targets[0])], value=v)  # noqa: E731
                    elif isinstance(st, ast.Return) and st.value is not None:
                        mk = lambda v, st=st: ast.Return(value=v)  # noqa: E731
                    else:
                        continue
                    c = st.value
                    if not (isinstance(c, ast.Call) and not c.keywords and len(c.args) == 3):
                        continue
                    f = c.func
                    if not ((isinstance(f, ast.Name) and f.id in names) or (isinstance(f, ast.Attribute) and f.attr == "reduce" and isinstance(f.value, ast.Name) and f.value.id in mods)):
                        continue
                    lam = c.args[0]
                    if isinstance(lam, ast.Name) and lam.id not in used_stores.get(id(fn), set()):
                        # a module-level step function `def step(acc, x): return E` is the lambda acc, x: E
                        d_ = [d for d in tree.body if isinstance(d, ast.FunctionDef) and d.name == lam.id]
                        body_ = [b for b in d_[0].body if not (isinstance(b, ast.Expr) and isinstance(b.value, ast.Constant))] if len(d_) == 1 else []
                        if len(body_) == 1 and isinstance(body_[0], ast.Return) and body_[0].value is not None and not d_[0].decorator_list:
                            la_ = _clone(d_[0].args)
                            for a_ in la_.posonlyargs + la_.args + la_.kwonlyargs:
                                a_.annotation = None
                            lam = ast.Lambda(args=la_, body=_clone(body_[0].value))
                    if not isinstance(lam, ast.Lambda):
                        continue
                    a = lam.args
                    if len(a.args) != 2 or a.vararg or a.kwarg or a.kwonlyargs or a.defaults or a.posonlyargs:
                        continue
                    acc, x = a.args[0].arg, a.args[1].arg
                    counter[0] += 1
                    ren = {}
                    for nm in (acc, x):
                        if nm in used:
                            ren[nm] = f"_rd{counter[0]}_{nm}"
                    body = _Rename2(ren).visit(_clone(lam.body))
                    acc2, x2 = ren.get(acc, acc), ren.get(x, x)
                    pre = []
                    it = c.args[1]
                    if not pure(c.args[1]) and not pure(c.args[2]):
                        tmp = f"_rd{counter[0]}_it"
                        pre.append(ast.Assign(targets=[ast.Name(id=tmp, ctx=ast.Store())], value=c.args[1]))
                        it = ast.Name(id=tmp, ctx=ast.Load())
                    new = pre + [
                        ast.Assign(targets=[ast.Name(id=acc2, ctx=ast.Store())], value=c.args[2]),
                        ast.For(target=ast.Name(id=x2, ctx=ast.Store()), iter=it,
                                body=[ast.Assign(targets=[ast.Name(id=acc2, ctx=ast.Store())], value=body)], orelse=[]),
                        mk(ast.Name(id=acc2, ctx=ast.Load())),
                    ]
                    for y in new:
                        ast.copy_location(y, st)
                        ast.fix_missing_locations(y)
                    k = stmts.index(st)
                    stmts[k:k + 1] = new
                    n += 1
    return n


def normalise_search_loops(tree):
    """`X = None; for v in S: if P(v): X = v; break` is `X = next((v for v in S if P(v)), None)` when v is not used afterwards"""
    n = 0
    for fn in [f for f in ast.walk(tree) if isinstance(f, (ast.FunctionDef, ast.AsyncFunctionDef))]:
        for node in ast.walk(fn):
            for field in ("body", "orelse", "finalbody"):
                stmts = getattr(node, field, None)
                if not isinstance(stmts, list) or len(stmts) < 2 or not isinstance(stmts[0], ast.stmt):
                    continue
                i = 0
                while i + 1 < len(stmts):
                    a, f = stmts[i], stmts[i + 1]
                    i += 1
                    if not (isinstance(a, ast.Assign) and len(a.targets) == 1 and isinstance(a.targets[0], ast.Name) and isinstance(a.value, ast.Constant) and a.value.value is None):
                        continue
                    if not (isinstance(f, ast.For) and not f.orelse and isinstance(f.target, ast.Name) and len(f.body) == 1 and isinstance(f.body[0], ast.If)
                            and not f.body[0].orelse and len(f.body[0].body) == 2 and isinstance(f.body[0].body[1], ast.Break)):
                        continue
                    asg = f.body[0].body[0]
                    x, v = a.targets[0].id, f.target.id
                    if not (isinstance(asg, ast.Assign) and len(asg.targets) == 1 and isinstance(asg.targets[0], ast.Name) and asg.targets[0].id == x
                            and isinstance(asg.value, ast.Name) and asg.value.id == v):
                        continue
                    inside = {id(y) for y in ast.walk(f)}
                    if any(isinstance(y, ast.Name) and y.id == v and id(y) not in inside for y in ast.walk(fn)):
                        continue
                    if any(isinstance(y, ast.Name) and y.id == x for y in ast.walk(f.body[0].test)) or any(isinstance(y, ast.Name) and y.id == x for y in ast.walk(f.iter)):
                        continue
                    gen = ast.GeneratorExp(elt=ast.Name(id=v, ctx=ast.Load()), generators=[ast.comprehension(target=ast.Name(id=v, ctx=ast.Store()), iter=f.iter, ifs=[f.body[0].test], is_async=0)])
                    new = ast.Assign(targets=[ast.Name(id=x, ctx=ast.Store())], value=ast.Call(func=ast.Name(id="next", ctx=ast.Load()), args=[gen, ast.Constant(value=None)], keywords=[]))
                    ast.copy_location(new, a)
                    ast.fix_missing_locations(new)
                    stmts[i - 1:i + 1] = [new]
                    n += 1
    return n


def normalise_ifexp(tree):
    """`x = A if C else B` is the same statement as `if C: x = A` / `else: x = B`; likewise `return A if C else B`.
    The statement form gives every path-based rule one path per arm."""
    n = 0
    for node in ast.walk(tree):
        for field in ("body", "orelse", "finalbody"):
            stmts = getattr(node, field, None)
            if not isinstance(stmts, list) or not stmts or not isinstance(stmts[0], ast.stmt):
                continue
            for i, st in enumerate(stmts):
                if isinstance(st, ast.Assign) and len(st.targets) == 1 and isinstance(st.targets[0], ast.Name) and isinstance(st.value, ast.IfExp):
                    mk = lambda v, st=st: ast.copy_location(ast.Assign(targets=[ast.Name(id=st.targets[0].id, ctx=ast.Store())], value=v), st)
                elif isinstance(st, ast.Assign) and len(st.targets) == 1 and isinstance(st.targets[0], (ast.Tuple, ast.List)) and isinstance(st.value, ast.IfExp) \
                        and all(isinstance(e_, ast.Name) for e_ in st.targets[0].elts):
                    # a, b = X if C else Y
                    mk = lambda v, st=st: ast.copy_location(ast.Assign(targets=[_clone(st.targets[0])], value=v), st)
                elif isinstance(st, ast.Return) and isinstance(st.value, ast.IfExp):
                    mk = lambda v, st=st: ast.copy_location(ast.Return(value=v), st)
                elif (isinstance(st, (ast.Expr, ast.Return)) or (isinstance(st, ast.Assign) and len(st.targets) == 1 and isinstance(st.targets[0], ast.Name))) \
                        and isinstance(st.value, ast.Call) and pure(st.value.func) and not any(k.arg is None for k in st.value.keywords) \
                        and sum(1 for a_ in st.value.args if isinstance(a_, ast.IfExp)) == 1:
                    # f(.., A if C else B, ..) with a side-effect free callee and earlier arguments: the call is made once, with A or with B
                    call_ = st.value
                    k_ = next(i_ for i_, a_ in enumerate(call_.args) if isinstance(a_, ast.IfExp))
                    if not all(pure(a_) for a_ in call_.args[:k_]) or any(isinstance(a_, ast.Starred) for a_ in call_.args):
                        continue
                    ie = call_.args[k_]

                    def mk(v, st=st, call_=call_, k_=k_):
                        c2 = _clone(call_)
                        c2.args[k_] = v
                        if isinstance(st, ast.Return):
                            return ast.copy_location(ast.Return(value=c2), st)
                        if isinstance(st, ast.Assign):
                            return ast.copy_location(ast.Assign(targets=[_clone(st.targets[0])], value=c2), st)
                        return ast.copy_location(ast.Expr(value=c2), st)
                    new = ast.copy_location(ast.If(test=ie.test, body=[mk(ie.body)], orelse=[mk(ie.orelse)]), st)
                    ast.fix_missing_locations(new)
                    stmts[i] = new
                    n += 1
                    continue
                else:
                    continue
                ie = st.value
                new = ast.copy_location(ast.If(test=ie.test, body=[mk(ie.body)], orelse=[mk(ie.orelse)]), st)
                ast.fix_missing_locations(new)
                stmts[i] = new
                n += 1
    return n



# ------------------------------------------------------------------------------------------ generator helpers
class GenHelper:
    """a new private generator `def g(self, ...): PREFIX; loop: ... yield V ...` (one yield statement inside one loop, reached
    through `if` nesting only; no return; nothing after the loop).  Consuming it with a comprehension / list() / for statement is
    the loop itself with the consumer's code in place of the yield: the interleaving of generator and consumer is unchanged."""

    def __init__(self, fn, cls):
        self.fn, self.cls, self.name = fn, cls, fn.name
        a = fn.args
        allp = [x.arg for x in a.posonlyargs + a.args]
        self.self_name = allp[0] if cls is not None else None
        self.params = allp[1:] if cls is not None else allp
        nd = len(a.defaults)
        self.defaults = dict(zip(allp[len(allp) - nd:], a.defaults)) if nd else {}
        body = list(fn.body)
        if body and isinstance(body[0], ast.Expr) and isinstance(body[0].value, ast.Constant) and isinstance(body[0].value.value, str):
            body = body[1:]
        li = max(i_ for i_, s_ in enumerate(body) if isinstance(s_, (ast.While, ast.For)))
        self.prefix, self.loop, self.suffix = body[:li], body[li], body[li + 1:]
        self.locals = {n.id for n in ast.walk(fn) if isinstance(n, ast.Name) and isinstance(n.ctx, ast.Store)}
        self.free = {n.id for n in ast.walk(ast.Module(body=body, type_ignores=[])) if isinstance(n, ast.Name) and isinstance(n.ctx, ast.Load)} \
            - self.locals - set(allp)


def _gen_candidate(fn, cls):
    if fn.decorator_list or isinstance(fn, ast.AsyncFunctionDef):
        return None
    a = fn.args
    if a.kwonlyargs or a.kwarg or a.vararg or (cls is not None and not (a.posonlyargs + a.args)):
        return None
    body = list(fn.body)
    if body and isinstance(body[0], ast.Expr) and isinstance(body[0].value, ast.Constant) and isinstance(body[0].value.value, str):
        body = body[1:]
    # statements after the loop (no yield, no return, no loop): they run when the loop ends normally; a bare `return` inside the
    # loop skips them - which is what the loop's `else` clause expresses, provided the loop has no `break` of its own
    suffix = []
    while len(body) > 1 and isinstance(body[-1], (ast.Raise, ast.Assign, ast.AugAssign, ast.Expr, ast.Pass)) \
            and not any(isinstance(x, (ast.Yield, ast.YieldFrom)) for x in ast.walk(body[-1])):
        suffix.insert(0, body.pop())
    if not body or not isinstance(body[-1], (ast.While, ast.For)) or body[-1].orelse:
        return None
    if suffix and any(isinstance(x, ast.Return) for x in ast.walk(body[-1])) and _loop_level_jumps_kind(body[-1].body, (ast.Break,)):
        return None
    if not all(isinstance(s_, (ast.Assign, ast.AnnAssign, ast.AugAssign, ast.Expr, ast.Pass)) for s_ in body[:-1]):
        return None
    yields = [n for n in ast.walk(fn) if isinstance(n, (ast.Yield, ast.YieldFrom))]
    if len(yields) != 1 or not isinstance(yields[0], ast.Yield) or yields[0].value is None:
        return None
    for n in ast.walk(fn):
        if n is not fn and isinstance(n, (ast.Await, ast.Global, ast.Nonlocal, ast.FunctionDef, ast.AsyncFunctionDef, ast.ClassDef, ast.Lambda,
                                          ast.With)):
            return None
        if isinstance(n, ast.Try) and (n.finalbody or any(x is yields[0] for x in ast.walk(n))):
            return None  # the consumer must not run inside the generator's handlers
        if isinstance(n, ast.Return) and n.value is not None:
            return None
    # a bare `return` ends the generator; with the loop as the last statement that is leaving the loop - allowed only
    # directly in the loop (through ifs), where it can be spelled `break`
    def bare_returns_ok(stmts, top):
        for s_ in stmts:
            if isinstance(s_, ast.Return):
                if not top:
                    return False
            elif isinstance(s_, (ast.For, ast.While)):
                if any(isinstance(x, ast.Return) for x in ast.walk(s_)):
                    return False
            elif isinstance(s_, ast.If):
                if not bare_returns_ok(s_.body, top) or not bare_returns_ok(s_.orelse, top):
                    return False
            elif isinstance(s_, ast.Try):
                if not bare_returns_ok(s_.body, top) or not bare_returns_ok(s_.orelse, top) or not all(bare_returns_ok(h_.body, top) for h_ in s_.handlers):
                    return False
        return True
    if any(isinstance(x, ast.Return) for s_ in body[:-1] for x in ast.walk(s_)) or not bare_returns_ok(body[-1].body, True):
        return None
        if isinstance(n, ast.Call) and ((isinstance(n.func, ast.Name) and n.func.id == fn.name) or (isinstance(n.func, ast.Attribute) and n.func.attr == fn.name)):
            return None

    def find(stmts):
        for s_ in stmts:
            if isinstance(s_, ast.Expr) and s_.value is yields[0]:
                return True
            if isinstance(s_, ast.If) and (find(s_.body) or find(s_.orelse)):
                return True
        return False

    if not find(body[-1].body):
        return None
    return GenHelper(fn, cls)


def _loop_level_jumps(stmts):
    for s_ in stmts:
        if isinstance(s_, (ast.Break, ast.Continue)):
            return True
        if isinstance(s_, (ast.For, ast.While, ast.FunctionDef, ast.AsyncFunctionDef, ast.ClassDef)):
            continue
        for field in ("body", "orelse", "finalbody"):
            sub = getattr(s_, field, None)
            if isinstance(sub, list) and sub and isinstance(sub[0], ast.stmt) and _loop_level_jumps(sub):
                return True
        if isinstance(s_, ast.Try) and any(_loop_level_jumps(h.body) for h in s_.handlers):
            return True
    return False


class GenInliner:
    def __init__(self, gens, gen_methods):
        self.gens, self.gen_methods = gens, gen_methods
        self.counter = 0
        self.count = 0

    def _target(self, call, cls_name, local_names):
        if not isinstance(call, ast.Call):
            return None
        f = call.func
        if isinstance(f, ast.Name) and f.id in self.gens and f.id not in local_names:
            return self.gens[f.id]
        if isinstance(f, ast.Attribute) and isinstance(f.value, ast.Name) and f.value.id == "self" and cls_name is not None and (cls_name, f.attr) in self.gen_methods:
            return self.gen_methods[(cls_name, f.attr)]
        return None

    def _instantiate(self, h, call, consumer, st):
        """statements replacing the consuming statement; consumer(value expr) -> statements put where the yield is"""
        if any(k.arg is None for k in call.keywords) or any(isinstance(a_, ast.Starred) for a_ in call.args) or len(call.args) > len(h.params):
            return None
        given = dict(zip(h.params, call.args))
        for k in call.keywords:
            if k.arg not in h.params or k.arg in given:
                return None
            given[k.arg] = k.value
        self.counter += 1
        tag = f"_inl{9000 + self.counter}_"
        pre, mapping = [], {}
        for p_ in h.params:
            if p_ in given:
                a_ = given[p_]
            elif p_ in h.defaults:
                a_ = h.defaults[p_]
            else:
                return None
            if pure(a_) and p_ not in h.locals and isinstance(a_, (ast.Constant, ast.Name)):
                mapping[p_] = a_
            else:
                pre.append(ast.Assign(targets=[ast.Name(id=tag + p_, ctx=ast.Store())], value=_clone(a_)))
                if p_ in h.locals:
                    pass  # renamed below together with the other locals
                else:
                    mapping[p_] = ast.Name(id=tag + p_, ctx=ast.Load())
        rename = {l: tag + l for l in h.locals}
        if h.self_name and h.self_name != "self":
            mapping[h.self_name] = ast.Name(id="self", ctx=ast.Load())
        sub = _Subst(mapping, rename)
        prefix = [sub.visit(_clone(s_)) for s_ in h.prefix]
        loop = sub.visit(_clone(h.loop))

        def place(stmts):
            out = []
            for s_ in stmts:
                if isinstance(s_, ast.Expr) and isinstance(s_.value, ast.Yield):
                    out.extend(consumer(s_.value.value, tag))
                    continue
                if isinstance(s_, ast.Return):
                    out.append(ast.Break())  # end of the generator = leaving its (last) loop
                    continue
                if isinstance(s_, ast.If):
                    s_.body = place(s_.body)
                    s_.orelse = place(s_.orelse)
                elif isinstance(s_, ast.Try):
                    s_.body = place(s_.body)
                    s_.orelse = place(s_.orelse)
                    for h_ in s_.handlers:
                        h_.body = place(h_.body)
                out.append(s_)
            return out

        had_return = any(isinstance(x, ast.Return) for x in ast.walk(loop))
        loop.body = place(loop.body)
        suffix = [sub.visit(_clone(s_)) for s_ in h.suffix]
        if suffix and had_return:
            loop.orelse = suffix
            suffix = []
        out = pre + prefix + [loop] + suffix
        out = _plain_names(out, self._local_names, h)
        for n in out:
            for x in ast.walk(n):
                x.lineno = getattr(st, "lineno", 1)
                x.col_offset = getattr(st, "col_offset", 0)
                x.end_lineno = getattr(st, "end_lineno", x.lineno)
                x.end_col_offset = getattr(st, "end_col_offset", 0)
        self.count += 1
        return out

    def _expand(self, st, cls_name, local_names):
        self._local_names = local_names
        # for X in g(..): BODY
        if isinstance(st, ast.For) and not st.orelse:
            h = self._target(st.iter, cls_name, local_names)
            if h is None or (h.free & local_names) or _loop_level_jumps(st.body):
                return None
            return self._instantiate(h, st.iter, lambda v, tag: [ast.Assign(targets=[_clone(st.target)], value=v)] + _clone(st.body), st)
        # T = [ELT for X in g(..) if C] / T = list(g(..)) / return <either>
        if isinstance(st, ast.Assign) and len(st.targets) == 1 and isinstance(st.targets[0], ast.Name):
            tname, val, ret = st.targets[0].id, st.value, False
        elif isinstance(st, ast.AnnAssign) and isinstance(st.target, ast.Name) and st.value is not None:
            tname, val, ret = st.target.id, st.value, False
        elif isinstance(st, ast.Return) and st.value is not None:
            tname, val, ret = None, st.value, True
        else:
            return None
        if isinstance(val, ast.Call) and isinstance(val.func, ast.Name) and val.func.id == "list" and len(val.args) == 1 and not val.keywords:
            call, elt, ifs, target = val.args[0], None, [], None
        elif isinstance(val, ast.ListComp) and len(val.generators) == 1 and not val.generators[0].is_async:
            g = val.generators[0]
            call, elt, ifs, target = g.iter, val.elt, g.ifs, g.target
        else:
            return None
        h = self._target(call, cls_name, local_names)
        if h is None or (h.free & local_names):
            return None
        if tname is None:
            self.counter += 1
            tname = f"_inl{9000 + self.counter}_r"
        if any(isinstance(n, ast.Name) and n.id == tname for n in ast.walk(val)):
            return None

        def consumer(v, tag):
            if target is None:
                return [ast.Expr(value=ast.Call(func=ast.Attribute(value=ast.Name(id=tname, ctx=ast.Load()), attr="append", ctx=ast.Load()), args=[v], keywords=[]))]
            ren = {n.id: tag + "c_" + n.id for n in ast.walk(target) if isinstance(n, ast.Name)}
            r = _Rename2(ren)
            out = [ast.Assign(targets=[r.visit(_clone(target))], value=v)]
            app = ast.Expr(value=ast.Call(func=ast.Attribute(value=ast.Name(id=tname, ctx=ast.Load()), attr="append", ctx=ast.Load()),
                                          args=[r.visit(_clone(elt))], keywords=[]))
            if ifs:
                test = r.visit(_clone(ifs[0])) if len(ifs) == 1 else ast.BoolOp(op=ast.And(), values=[r.visit(_clone(c)) for c in ifs])
                out.append(ast.If(test=test, body=[app], orelse=[]))
            else:
                out.append(app)
            if isinstance(target, ast.Name) and pure(v):
                # the comprehension variable is a plain copy of a pure value: use the value itself
                cname = ren[target.id]
                sub_ = _Subst({cname: v}, {})
                out = [sub_.visit(x) for x in out[1:]]
            return out

        body = self._instantiate(h, call, consumer, st)
        if body is None:
            return None
        init = ast.copy_location(ast.Assign(targets=[ast.Name(id=tname, ctx=ast.Store())], value=ast.List(elts=[], ctx=ast.Load())), st)
        out = [init] + body
        if ret:
            out.append(ast.copy_location(ast.Return(value=ast.Name(id=tname, ctx=ast.Load())), st))
        for n in out:
            ast.fix_missing_locations(n)
        return out

    def run_body(self, stmts, cls_name, local_names):
        out = []
        for st in stmts:
            if isinstance(st, (ast.FunctionDef, ast.AsyncFunctionDef)):
                self.run_function(st, cls_name)
                out.append(st)
                continue
            if isinstance(st, ast.ClassDef):
                for m in st.body:
                    if isinstance(m, (ast.FunctionDef, ast.AsyncFunctionDef)):
                        self.run_function(m, st.name)
                out.append(st)
                continue
            rep = self._expand(st, cls_name, local_names)
            if rep is not None:
                out.extend(rep)
                continue
            for field in ("body", "orelse", "finalbody"):
                sub = getattr(st, field, None)
                if isinstance(sub, list) and sub and isinstance(sub[0], ast.stmt):
                    setattr(st, field, self.run_body(sub, cls_name, local_names))
            if isinstance(st, ast.Try):
                for h in st.handlers:
                    h.body = self.run_body(h.body, cls_name, local_names)
            out.append(st)
        return out

    def run_function(self, fn, cls_name):
        local_names = {a.arg for a in fn.args.posonlyargs + fn.args.args + fn.args.kwonlyargs}
        for n in ast.walk(fn):
            if isinstance(n, ast.Name) and isinstance(n.ctx, ast.Store):
                local_names.add(n.id)
        fn.body = self.run_body(fn.body, cls_name, local_names)


class _Rename2(ast.NodeTransformer):
    def __init__(self, mapping):
        self.mapping = mapping

    def visit_Name(self, node):
        if node.id in self.mapping:
            return ast.copy_location(ast.Name(id=self.mapping[node.id], ctx=node.ctx), node)
        return node


def _boolish(e):
    if isinstance(e, ast.Compare) or (isinstance(e, ast.UnaryOp) and isinstance(e.op, ast.Not)):
        return True
    if isinstance(e, ast.BoolOp):
        return all(_boolish(v) for v in e.values)
    if isinstance(e, ast.Constant) and isinstance(e.value, bool):
        return True
    if isinstance(e, ast.Call) and isinstance(e.func, ast.Name) and e.func.id in ("isinstance", "callable", "hasattr", "any", "all", "bool", "issubclass"):
        return True
    return False


def normalise_shortcircuit(tree):
    """`t = A or B` is `t = A` / `if not t: t = B` (and dually for `and`): each operand is still evaluated at most once and in
    order; the statement form shows path-based rules which operand is the value.  Only plain local targets that no later
    operand reads."""
    n = 0
    counter = [0]
    for node in ast.walk(tree):
        for field in ("body", "orelse", "finalbody"):
            stmts = getattr(node, field, None)
            if not isinstance(stmts, list) or not stmts or not isinstance(stmts[0], ast.stmt):
                continue
            i = 0
            while i < len(stmts):
                st = stmts[i]
                i += 1
                val = getattr(st, "value", None)
                if not isinstance(val, ast.BoolOp):
                    continue
                if all(pure(v) for v in val.values[1:]) and all(_boolish(v) for v in val.values):
                    continue  # a logical expression: its value is the truth value itself
                if isinstance(st, ast.Assign) and len(st.targets) == 1 and isinstance(st.targets[0], ast.Name):
                    t, tail = st.targets[0].id, []
                elif isinstance(st, ast.Return):
                    counter[0] += 1
                    t = f"_inl{8000 + counter[0]}_r"
                    tail = [ast.Return(value=ast.Name(id=t, ctx=ast.Load()))]
                else:
                    continue
                if any(isinstance(x, ast.Name) and x.id == t for v in val.values[1:] for x in ast.walk(v)):
                    continue
                new = [ast.Assign(targets=[ast.Name(id=t, ctx=ast.Store())], value=val.values[0])]
                for v in val.values[1:]:
                    test = ast.Name(id=t, ctx=ast.Load())
                    if isinstance(val.op, ast.Or):
                        test = ast.UnaryOp(op=ast.Not(), operand=test)
                    new.append(ast.If(test=test, body=[ast.Assign(targets=[ast.Name(id=t, ctx=ast.Store())], value=v)], orelse=[]))
                new += tail
                for x in new:
                    ast.copy_location(x, st)
                    ast.fix_missing_locations(x)
                stmts[i - 1:i] = new
                i += len(new) - 1
                n += 1
    return n


def normalise_class_consts(tree, known, other_trees=()):
    """a class-level assignment `NAME = E` that is new with respect to the pinned inventory, is never stored to again, is only
    read as self.NAME / cls.NAME / Class.NAME in this module (and nowhere in the other modules) and whose value uses no other
    class-level name is the module-level constant NAME = E (put in front of the class): reads become plain NAME."""
    n = 0
    mod_names = {t.id for st in tree.body for t in (st.targets if isinstance(st, ast.Assign) else ([st.target] if isinstance(st, ast.AnnAssign) else [])) if isinstance(t, ast.Name)}
    mod_names |= {st.name for st in tree.body if isinstance(st, (ast.FunctionDef, ast.AsyncFunctionDef, ast.ClassDef))}
    for st in tree.body:
        if isinstance(st, (ast.Import, ast.ImportFrom)):
            mod_names |= {(a.asname or a.name).split(".")[0] for a in st.names}
    for ci, cls in [(i, c) for i, c in enumerate(list(tree.body)) if isinstance(c, ast.ClassDef)]:
        decos = {norm_name(d) for d in cls.decorator_list}
        if any(norm_name(b).split(".")[-1] in ("Enum", "IntEnum", "IntFlag", "Flag", "NamedTuple", "Protocol", "TypedDict") for b in cls.bases):
            continue
        is_dc = bool(decos & {"dataclass", "dataclasses.dataclass"})
        level = {t.id for a in cls.body for t in (a.targets if isinstance(a, ast.Assign) else ([a.target] if isinstance(a, ast.AnnAssign) else [])) if isinstance(t, ast.Name)}
        level |= {a.name for a in cls.body if isinstance(a, (ast.FunctionDef, ast.AsyncFunctionDef, ast.ClassDef))}
        for a in list(cls.body):
            if isinstance(a, ast.Assign) and len(a.targets) == 1 and isinstance(a.targets[0], ast.Name):
                nm, val = a.targets[0].id, a.value
            elif isinstance(a, ast.AnnAssign) and isinstance(a.target, ast.Name) and a.value is not None:
                nm, val = a.target.id, a.value
            else:
                continue
            if is_dc and not (isinstance(a, ast.AnnAssign) and norm_name(a.annotation.value if isinstance(a.annotation, ast.Subscript) else a.annotation).split(".")[-1] == "ClassVar"):
                continue  # a dataclass field, not a class constant
            if f"{cls.name}.{nm}" in known or nm in mod_names:
                continue
            if any(isinstance(x, ast.Name) and x.id in level for x in ast.walk(val)):
                continue
            # every use in this module is a read through self / cls / the class; no other module touches the name
            uses = [x for x in ast.walk(tree) if isinstance(x, ast.Attribute) and x.attr == nm]
            if not uses or any(not isinstance(x.ctx, ast.Load) or not (isinstance(x.value, ast.Name) and x.value.id in ("self", "cls", cls.name)) for x in uses):
                continue
            if any(isinstance(x, ast.Name) and x.id == nm for x in ast.walk(tree) if x is not (a.targets[0] if isinstance(a, ast.Assign) else a.target)):
                continue
            if any((isinstance(x, ast.Attribute) and x.attr == nm) or (isinstance(x, ast.Name) and x.id == nm) for t2 in other_trees for x in ast.walk(t2)):
                continue
            # subclasses / other classes of this module defining the same attribute would shadow it
            if sum(1 for c2 in ast.walk(tree) if isinstance(c2, ast.ClassDef) for a2 in c2.body
                   for t2 in (a2.targets if isinstance(a2, ast.Assign) else ([a2.target] if isinstance(a2, ast.AnnAssign) else [])) if isinstance(t2, ast.Name) and t2.id == nm) != 1:
                continue
            cls.body.remove(a)
            if not cls.body:
                cls.body.append(ast.Pass())
            new = ast.Assign(targets=[ast.Name(id=nm, ctx=ast.Store())], value=val)
            ast.copy_location(new, a)
            tree.body.insert(tree.body.index(cls), new)
            mod_names.add(nm)

            class R(ast.NodeTransformer):
                def visit_Attribute(self, node):
                    self.generic_visit(node)
                    if node.attr == nm and isinstance(node.value, ast.Name) and node.value.id in ("self", "cls", cls.name):
                        return ast.copy_location(ast.Name(id=nm, ctx=ast.Load()), node)
                    return node
            R().visit(tree)
            ast.fix_missing_locations(tree)
            n += 1
    return n


def norm_name(e):
    if isinstance(e, ast.Call):
        e = e.func
    parts = []
    while isinstance(e, ast.Attribute):
        parts.append(e.attr)
        e = e.value
    if isinstance(e, ast.Name):
        parts.append(e.id)
    return ".".join(reversed(parts))


def _eval_order(node):
    """sub-expressions of node in (approximate) evaluation order: a node after its operands"""
    for ch in ast.iter_child_nodes(node):
        if isinstance(ch, (ast.Lambda, ast.expr_context, ast.operator, ast.unaryop, ast.cmpop, ast.boolop)):
            continue
        yield from _eval_order(ch)
    yield node


def _first_match_form(loop):
    """(PRE, the If, REST) when the loop body is `PRE; if C: T; break [else: F]; REST` with no other break/continue/return-free
    constraint violated (PRE/T/F/REST contain no break or continue of this loop, no yield, no nested def), else None"""
    idx = [k for k, b in enumerate(loop.body) if isinstance(b, ast.If) and b.body and isinstance(b.body[-1], ast.Break)]
    if len(idx) != 1:
        return None
    k = idx[0]
    iff = loop.body[k]
    pre, rest = loop.body[:k], loop.body[k + 1:]

    def clean(stmts):
        for b in stmts:
            for x in ast.walk(b):
                if isinstance(x, (ast.Break, ast.Continue, ast.Yield, ast.YieldFrom, ast.FunctionDef, ast.Lambda, ast.ClassDef)):
                    return False
        return True

    if not (clean(pre) and clean(iff.body[:-1]) and clean(iff.orelse) and clean(rest)):
        return None
    return pre, iff, rest


def _reads_after(fn, st, names):
    """is one of `names` read after statement st: in a statement that follows it in its block or in an enclosing block, or anywhere
    else inside a loop that encloses it (the loop may come round again)"""
    chain = []

    def find(node, trail):
        for field in ("body", "orelse", "finalbody"):
            stmts = getattr(node, field, None)
            if isinstance(stmts, list) and stmts and isinstance(stmts[0], ast.stmt):
                for i, x in enumerate(stmts):
                    if x is st:
                        chain.extend(trail + [(node, stmts, i)])
                        return True
                    if find(x, trail + [(node, stmts, i)]):
                        return True
        if isinstance(node, ast.Try):
            for h in node.handlers:
                for i, x in enumerate(h.body):
                    if x is st:
                        chain.extend(trail + [(h, h.body, i)])
                        return True
                    if find(x, trail + [(h, h.body, i)]):
                        return True
        return False

    if not find(fn, []):
        return True
    inside = {id(y) for y in ast.walk(st)}

    def reads(nodes):
        return any(isinstance(x, ast.Name) and x.id in names and isinstance(x.ctx, ast.Load) and id(x) not in inside for nd in nodes for x in ast.walk(nd))

    for holder, stmts, i in chain:
        if reads(stmts[i + 1:]):
            return True
        if isinstance(holder, (ast.For, ast.While, ast.AsyncFor)):
            if reads([holder]):
                return True
    return False


def normalise_table_unroll(tree):
    """a `for` statement or a list/set/dict comprehension that walks a small literal table - written in place, bound once to a local
    of the same function, or bound once at module level - is the sequence of its bodies with the table's entries written out:
        for pat, rep in ((self._A, ""), (self._B, " ")): s = pat.sub(rep, s)   ->   s = self._A.sub("", s); s = self._B.sub(" ", s)
        {k: getattr(o, m) for k, m in TABLE}                                   ->   {"k1": getattr(o, "m1"), "k2": getattr(o, "m2")}
    Conditions: entries are constants, names or attribute paths (evaluating them again has no effect); the body does not assign
    them, the loop variables are not used after the loop, no break/continue/else.  `getattr(x, "name")` with a literal identifier is
    `x.name`."""
    n = 0
    mod_tables = {}
    stores = {}
    for x in ast.walk(tree):
        if isinstance(x, ast.Name) and isinstance(x.ctx, (ast.Store, ast.Del)):
            stores[x.id] = stores.get(x.id, 0) + 1
    for st in tree.body:
        if isinstance(st, ast.Assign) and len(st.targets) == 1 and isinstance(st.targets[0], ast.Name) and isinstance(st.value, (ast.Tuple, ast.List)):
            if stores.get(st.targets[0].id) == 1:
                mod_tables[st.targets[0].id] = st.value
        elif isinstance(st, ast.AnnAssign) and isinstance(st.target, ast.Name) and isinstance(st.value, (ast.Tuple, ast.List)) and stores.get(st.target.id) == 1:
            mod_tables[st.target.id] = st.value

    mod_dicts = {}
    for st in tree.body:
        if isinstance(st, ast.Assign) and len(st.targets) == 1 and isinstance(st.targets[0], ast.Name) and isinstance(st.value, ast.Dict) and stores.get(st.targets[0].id) == 1 \
                and st.value.keys and all(isinstance(k_, ast.Constant) for k_ in st.value.keys) and len({repr(k_.value) for k_ in st.value.keys}) == len(st.value.keys):
            nm_ = st.targets[0].id
            mutated = any((isinstance(x, ast.Subscript) and isinstance(x.value, ast.Name) and x.value.id == nm_ and not isinstance(x.ctx, ast.Load))
                          or (isinstance(x, ast.Call) and isinstance(x.func, ast.Attribute) and isinstance(x.func.value, ast.Name) and x.func.value.id == nm_
                              and x.func.attr in ("update", "pop", "popitem", "clear", "setdefault")) for x in ast.walk(tree))
            if not mutated:
                mod_dicts[nm_] = st.value

    def simple(e):
        if isinstance(e, ast.Constant):
            return True
        while isinstance(e, ast.Attribute):
            e = e.value
        return isinstance(e, ast.Name)

    def rows_of(tab, target):
        if not isinstance(tab, (ast.Tuple, ast.List)) or not (1 <= len(tab.elts) <= 16):
            return None
        rows = []
        for e in tab.elts:
            if isinstance(target, ast.Name):
                if not simple(e):
                    return None
                rows.append({target.id: e})
            elif isinstance(target, ast.Tuple) and all(isinstance(t, ast.Name) for t in target.elts):
                if not isinstance(e, (ast.Tuple, ast.List)) or len(e.elts) != len(target.elts) or not all(simple(x) for x in e.elts):
                    return None
                rows.append({t.id: x for t, x in zip(target.elts, e.elts)})
            else:
                return None
        return rows

    def subst(node, row):
        class S(ast.NodeTransformer):
            def visit_Name(self, nd):
                if isinstance(nd.ctx, ast.Load) and nd.id in row:
                    return ast.copy_location(_clone(row[nd.id]), nd)
                return nd
        return S().visit(_clone(node))

    def entry_roots(rows):
        out = set()
        for r in rows:
            for e in r.values():
                if not isinstance(e, ast.Constant):
                    out.add(norm_name(e))
        return out

    def table_for(it, fn):
        """the literal behind the iterable, or None"""
        if isinstance(it, (ast.Tuple, ast.List)):
            return it
        if isinstance(it, ast.Name):
            if fn is not None:
                loc = [x for x in ast.walk(fn) if isinstance(x, ast.Name) and x.id == it.id and isinstance(x.ctx, (ast.Store, ast.Del))]
                params = {a.arg for a in fn.args.posonlyargs + fn.args.args + fn.args.kwonlyargs} | ({fn.args.vararg.arg} if fn.args.vararg else set()) | ({fn.args.kwarg.arg} if fn.args.kwarg else set())
                if it.id in params:
                    return None
                if loc:
                    if len(loc) != 1:
                        return None
                    asg = [b for b in fn.body if isinstance(b, (ast.Assign, ast.AnnAssign)) and (b.targets[0] if isinstance(b, ast.Assign) else b.target) is loc[0]]
                    if len(asg) == 1 and (not isinstance(asg[0], ast.Assign) or len(asg[0].targets) == 1) and asg[0].lineno < it.lineno:
                        return asg[0].value
                    return None
            return mod_tables.get(it.id)
        return None

    def local_binds(fn):
        return {x.id for x in ast.walk(fn) if isinstance(x, ast.Name) and isinstance(x.ctx, (ast.Store, ast.Del))} | {a.arg for a in fn.args.posonlyargs + fn.args.args + fn.args.kwonlyargs}

    fns = [f for f in ast.walk(tree) if isinstance(f, (ast.FunctionDef, ast.AsyncFunctionDef))]
    # module level: a comprehension over a literal table in a plain assignment (`T = {row[K]: row[V] for row in (A, B, C)}`)
    for st in tree.body:
        if isinstance(st, (ast.Assign, ast.AnnAssign)) and st.value is not None and isinstance(st.value, (ast.ListComp, ast.SetComp, ast.DictComp)):
            v = st.value
            if len(v.generators) == 1 and not v.generators[0].ifs and not v.generators[0].is_async:
                g = v.generators[0]
                tab = g.iter if isinstance(g.iter, (ast.Tuple, ast.List)) else (mod_tables.get(g.iter.id) if isinstance(g.iter, ast.Name) else None)
                if tab is None and isinstance(g.iter, ast.Call) and isinstance(g.iter.func, ast.Attribute) and g.iter.func.attr == "items" and not g.iter.args and not g.iter.keywords \
                        and isinstance(g.iter.func.value, ast.Name) and g.iter.func.value.id in mod_dicts:
                    # NAME.items() of a module-level literal mapping with distinct constant keys: its (key, value) rows in order
                    dd = mod_dicts[g.iter.func.value.id]
                    tab = ast.Tuple(elts=[ast.Tuple(elts=[k_, v_], ctx=ast.Load()) for k_, v_ in zip(dd.keys, dd.values)], ctx=ast.Load())
                rows = rows_of(tab, g.target) if tab is not None else None
                if rows is not None:
                    if isinstance(v, ast.DictComp):
                        new_v = ast.Dict(keys=[subst(v.key, r) for r in rows], values=[subst(v.value, r) for r in rows])
                    elif isinstance(v, ast.ListComp):
                        new_v = ast.List(elts=[subst(v.elt, r) for r in rows], ctx=ast.Load())
                    else:
                        new_v = ast.Set(elts=[subst(v.elt, r) for r in rows])
                    st.value = ast.copy_location(new_v, v)
                    ast.fix_missing_locations(st)
                    n += 1
    # module level: comprehensions nested inside a declaration (`X = Struct(.., Switch(k, {K(a): b for a, b in TABLE}))`)
    class MC(ast.NodeTransformer):
        def __init__(self):
            self.n = 0

        def visit_Lambda(self, node):
            return node

        def _rows(self, node):
            if len(node.generators) != 1 or node.generators[0].ifs or node.generators[0].is_async:
                return None
            g = node.generators[0]
            tab = g.iter if isinstance(g.iter, (ast.Tuple, ast.List)) else (mod_tables.get(g.iter.id) if isinstance(g.iter, ast.Name) else None)
            return rows_of(tab, g.target) if tab is not None else None

        def visit_DictComp(self, node):
            self.generic_visit(node)
            rows = self._rows(node)
            if rows is None:
                return node
            self.n += 1
            return ast.copy_location(ast.Dict(keys=[subst(node.key, r) for r in rows], values=[subst(node.value, r) for r in rows]), node)

        def visit_ListComp(self, node):
            self.generic_visit(node)
            rows = self._rows(node)
            if rows is None:
                return node
            self.n += 1
            return ast.copy_location(ast.List(elts=[subst(node.elt, r) for r in rows], ctx=ast.Load()), node)

    for st in tree.body:
        if isinstance(st, (ast.Assign, ast.AnnAssign)) and st.value is not None and not isinstance(st.value, (ast.ListComp, ast.SetComp, ast.DictComp)):
            mc = MC()
            st.value = mc.visit(st.value)
            if mc.n:
                ast.fix_missing_locations(st)
                n += mc.n
    for fn in fns:
        own = [x for x in ast.walk(fn)]
        # comprehensions
        class C(ast.NodeTransformer):
            def __init__(self):
                self.n = 0

            def _rows(self, node):
                if len(node.generators) != 1:
                    return None
                g = node.generators[0]
                if g.ifs or g.is_async:
                    return None
                tab = table_for(g.iter, fn)
                if tab is None:
                    return None
                rows = rows_of(tab, g.target)
                if rows is None:
                    return None
                if tab is not g.iter and not isinstance(g.iter, (ast.Tuple, ast.List)) and g.iter.id in mod_tables and (entry_roots(rows) and {r.split(".")[0] for r in entry_roots(rows)} & local_binds(fn)):
                    return None
                return rows

            def visit_ListComp(self, node):
                self.generic_visit(node)
                rows = self._rows(node)
                if rows is None:
                    return node
                self.n += 1
                return ast.copy_location(ast.List(elts=[subst(node.elt, r) for r in rows], ctx=ast.Load()), node)

            def visit_SetComp(self, node):
                self.generic_visit(node)
                rows = self._rows(node)
                if rows is None:
                    return node
                self.n += 1
                return ast.copy_location(ast.Set(elts=[subst(node.elt, r) for r in rows]), node)

            def visit_DictComp(self, node):
                self.generic_visit(node)
                rows = self._rows(node)
                if rows is None:
                    return node
                self.n += 1
                return ast.copy_location(ast.Dict(keys=[subst(node.key, r) for r in rows], values=[subst(node.value, r) for r in rows]), node)

            def visit_FunctionDef(self, node):
                if node is fn:
                    self.generic_visit(node)
                return node

            visit_AsyncFunctionDef = visit_FunctionDef

            def visit_Lambda(self, node):
                return node

        c = C()
        c.visit(fn)
        n += c.n
        # for statements
        for node in list(ast.walk(fn)):
            for field in ("body", "orelse", "finalbody"):
                stmts = getattr(node, field, None)
                if not isinstance(stmts, list) or not stmts or not isinstance(stmts[0], ast.stmt):
                    continue
                i = 0
                while i < len(stmts):
                    st = stmts[i]
                    i += 1
                    if not isinstance(st, ast.For):
                        continue
                    tab = table_for(st.iter, fn)
                    rows = rows_of(tab, st.target) if tab is not None else None
                    if rows is None:
                        continue
                    tnames = set(rows[0])
                    brk = _first_match_form(st)
                    if brk is not None:
                        # first-match search: `for row in TABLE: PRE; if C: T; break` [else: F; REST] ... `else: E` is the chain
                        # PRE1; if C1: T1 else: F1; REST1; PRE2; if C2: T2 else: ... E
                        pre, iff, rest = brk
                        roots = entry_roots(rows)
                        assigned = set()
                        for b in st.body:
                            for x in ast.walk(b):
                                if isinstance(x, (ast.Name, ast.Attribute)) and isinstance(x.ctx, (ast.Store, ast.Del)):
                                    assigned.add(norm_name(x))
                        later = _reads_after(fn, st, tnames)
                        if any(a == r or r.startswith(a + ".") for a in assigned for r in roots) or later or (assigned & tnames) \
                                or (isinstance(st.iter, ast.Name) and st.iter.id in mod_tables and tab is mod_tables[st.iter.id] and {r.split(".")[0] for r in roots} & local_binds(fn)):
                            continue
                        chain = [_clone(x) for x in st.orelse]
                        for r in reversed(rows):
                            new_if = ast.If(test=subst(iff.test, r), body=[subst(b, r) for b in iff.body[:-1]] or [ast.Pass()],
                                            orelse=[subst(b, r) for b in iff.orelse] + [subst(b, r) for b in rest] + chain)
                            ast.copy_location(new_if, st)
                            chain = [ast.copy_location(subst(b, r), st) for b in pre] + [new_if]
                        for x in chain:
                            ast.fix_missing_locations(x)
                        stmts[i - 1:i] = chain
                        i += len(chain) - 1
                        n += 1
                        continue
                    if st.orelse:
                        continue
                    if any(isinstance(x, (ast.Break, ast.Continue, ast.Yield, ast.YieldFrom, ast.FunctionDef, ast.Lambda, ast.ClassDef)) for b in st.body for x in ast.walk(b)):
                        continue
                    if any(isinstance(x, ast.Name) and x.id in tnames and isinstance(x.ctx, (ast.Store, ast.Del)) for b in st.body for x in ast.walk(b)):
                        continue
                    roots = entry_roots(rows)
                    assigned = set()
                    for b in st.body:
                        for x in ast.walk(b):
                            if isinstance(x, (ast.Name, ast.Attribute)) and isinstance(x.ctx, (ast.Store, ast.Del)):
                                assigned.add(norm_name(x))
                    if any(a == r or r.startswith(a + ".") for a in assigned for r in roots):
                        continue
                    if isinstance(st.iter, ast.Name) and st.iter.id in mod_tables and tab is mod_tables[st.iter.id] and {r.split(".")[0] for r in roots} & local_binds(fn):
                        continue
                    # loop variables must be dead after the loop
                    if _reads_after(fn, st, tnames):
                        continue
                    new = []
                    for r in rows:
                        for b in st.body:
                            nb = subst(b, r)
                            ast.copy_location(nb, st)
                            new.append(nb)
                    stmts[i - 1:i] = new
                    i += len(new) - 1
                    n += 1
    # getattr(x, "name") -> x.name
    class G(ast.NodeTransformer):
        def __init__(self):
            self.n = 0

        def visit_Call(self, node):
            self.generic_visit(node)
            if isinstance(node.func, ast.Name) and node.func.id == "getattr" and len(node.args) == 2 and not node.keywords and isinstance(node.args[1], ast.Constant) \
                    and isinstance(node.args[1].value, str) and node.args[1].value.isidentifier() and not node.args[1].value.startswith("__") and "getattr" not in stores:
                self.n += 1
                return ast.copy_location(ast.Attribute(value=node.args[0], attr=node.args[1].value, ctx=ast.Load()), node)
            return node

    if n:
        g = G()
        g.visit(tree)
        ast.fix_missing_locations(tree)
    return n


def normalise_try_getattr(tree):
    """`try: x = o.attr` / `except AttributeError: x = D` (nothing else; o a plain name, D a literal or an empty display) is
    `x = getattr(o, "attr", D)`"""
    n = 0

    def literal(d):
        return isinstance(d, ast.Constant) or (isinstance(d, (ast.Dict, ast.List, ast.Tuple, ast.Set)) and not getattr(d, "keys", None) and not getattr(d, "elts", None))

    for node in ast.walk(tree):
        for field in ("body", "orelse", "finalbody"):
            stmts = getattr(node, field, None)
            if not isinstance(stmts, list) or not stmts or not isinstance(stmts[0], ast.stmt):
                continue
            for i, st in enumerate(list(stmts)):
                if not (isinstance(st, ast.Try) and len(st.body) == 1 and len(st.handlers) == 1 and not st.orelse and not st.finalbody):
                    continue
                b, h = st.body[0], st.handlers[0]
                if not (isinstance(b, ast.Assign) and len(b.targets) == 1 and isinstance(b.targets[0], ast.Name) and isinstance(b.value, ast.Attribute)
                        and isinstance(b.value.value, ast.Name) and not b.value.attr.startswith("__")):
                    continue
                if not (isinstance(h.type, ast.Name) and h.type.id == "AttributeError" and h.name is None and len(h.body) == 1 and isinstance(h.body[0], ast.Assign)
                        and len(h.body[0].targets) == 1 and isinstance(h.body[0].targets[0], ast.Name) and h.body[0].targets[0].id == b.targets[0].id
                        and literal(h.body[0].value)):
                    continue
                new = ast.Assign(targets=[b.targets[0]], value=ast.Call(func=ast.Name(id="getattr", ctx=ast.Load()),
                                                                         args=[b.value.value, ast.Constant(value=b.value.attr), h.body[0].value], keywords=[]))
                ast.copy_location(new, st)
                ast.fix_missing_locations(new)
                stmts[stmts.index(st)] = new
                n += 1
    return n


def normalise_enumerate_live(tree):
    """`for i, v in enumerate(L): BODY` over a local list L that the function never resizes or rebinds after creating it, with v only
    read in BODY, is `for i in range(len(L)): v = L[i]; BODY` (a list iterator hands out the element stored at index i when the
    loop arrives there, and stops at the list's length)"""
    n = 0
    RESIZE = {"append", "extend", "insert", "pop", "remove", "clear", "sort", "reverse"}
    for fn in [f for f in ast.walk(tree) if isinstance(f, (ast.FunctionDef, ast.AsyncFunctionDef))]:
        for node in list(ast.walk(fn)):
            for field in ("body", "orelse", "finalbody"):
                stmts = getattr(node, field, None)
                if not isinstance(stmts, list) or not stmts or not isinstance(stmts[0], ast.stmt):
                    continue
                for st in list(stmts):
                    if not (isinstance(st, ast.For) and isinstance(st.iter, ast.Call) and isinstance(st.iter.func, ast.Name) and st.iter.func.id == "enumerate"
                            and len(st.iter.args) == 1 and not st.iter.keywords and isinstance(st.iter.args[0], ast.Name)
                            and isinstance(st.target, ast.Tuple) and len(st.target.elts) == 2 and all(isinstance(e, ast.Name) for e in st.target.elts)):
                        continue
                    L, iv, vv = st.iter.args[0].id, st.target.elts[0].id, st.target.elts[1].id
                    binds = [x for x in ast.walk(fn) if isinstance(x, ast.Name) and x.id == L and isinstance(x.ctx, (ast.Store, ast.Del))]
                    if len(binds) != 1 or any(a.arg == L for a in fn.args.posonlyargs + fn.args.args + fn.args.kwonlyargs):
                        continue
                    creators = [a for a in ast.walk(fn) if isinstance(a, ast.Assign) and len(a.targets) == 1 and a.targets[0] is binds[0]]
                    if len(creators) != 1 or not (isinstance(creators[0].value, (ast.List, ast.ListComp)) or (isinstance(creators[0].value, ast.BinOp) and isinstance(creators[0].value.op, ast.Mult)
                                                                                                       and isinstance(creators[0].value.left, ast.List))):
                        continue
                    resized = False
                    for x in ast.walk(fn):
                        if isinstance(x, ast.Call) and isinstance(x.func, ast.Attribute) and isinstance(x.func.value, ast.Name) and x.func.value.id == L and x.func.attr in RESIZE:
                            resized = True
                        if isinstance(x, ast.AugAssign) and isinstance(x.target, ast.Name) and x.target.id == L:
                            resized = True
                        if isinstance(x, ast.Delete) and any(isinstance(t, ast.Subscript) and isinstance(t.value, ast.Name) and t.value.id == L for t in x.targets):
                            resized = True
                        if isinstance(x, ast.Assign) and any(isinstance(t, ast.Subscript) and isinstance(t.slice, ast.Slice) and isinstance(t.value, ast.Name) and t.value.id == L for t in x.targets):
                            resized = True
                    # L must not escape (be passed or stored elsewhere) either: only subscripts, len(L) and the enumerate itself
                    for x in ast.walk(fn):
                        if isinstance(x, ast.Name) and x.id == L and isinstance(x.ctx, ast.Load):
                            par_ok = False
                            for y in ast.walk(fn):
                                if isinstance(y, ast.Subscript) and y.value is x:
                                    par_ok = True
                                elif isinstance(y, ast.Call) and isinstance(y.func, ast.Name) and y.func.id in ("len", "enumerate") and len(y.args) == 1 and y.args[0] is x:
                                    par_ok = True
                            if not par_ok:
                                resized = True
                    if resized:
                        continue
                    if any(isinstance(x, ast.Name) and x.id in (iv, vv) and isinstance(x.ctx, (ast.Store, ast.Del)) for b in st.body for x in ast.walk(b)):
                        continue
                    first = ast.Assign(targets=[ast.Name(id=vv, ctx=ast.Store())],
                                       value=ast.Subscript(value=ast.Name(id=L, ctx=ast.Load()), slice=ast.Name(id=iv, ctx=ast.Load()), ctx=ast.Load()))
                    st.iter = ast.Call(func=ast.Name(id="range", ctx=ast.Load()), args=[ast.Call(func=ast.Name(id="len", ctx=ast.Load()), args=[ast.Name(id=L, ctx=ast.Load())], keywords=[])], keywords=[])
                    st.target = ast.Name(id=iv, ctx=ast.Store())
                    ast.copy_location(first, st.body[0])
                    st.body.insert(0, first)
                    ast.fix_missing_locations(st)
                    n += 1
    return n


def normalise_comp_ifexp(tree):
    """`T = [A if C else B for v in S]` (one generator, no filter, T not mentioned inside) is the loop
    `T = []; for v in S: if C: T.append(A) else: T.append(B)`; the comprehension's variables are kept apart from the function's own
    names"""
    n = 0
    counter = [0]
    for fn in [f for f in ast.walk(tree) if isinstance(f, (ast.FunctionDef, ast.AsyncFunctionDef))]:
        for node in list(ast.walk(fn)):
            for field in ("body", "orelse", "finalbody"):
                stmts = getattr(node, field, None)
                if not isinstance(stmts, list) or not stmts or not isinstance(stmts[0], ast.stmt):
                    continue
                for st in list(stmts):
                    if isinstance(st, ast.Assign) and len(st.targets) == 1 and isinstance(st.targets[0], ast.Name):
                        tname, val = st.targets[0].id, st.value
                    elif isinstance(st, ast.AnnAssign) and isinstance(st.target, ast.Name) and st.value is not None:
                        tname, val = st.target.id, st.value
                    else:
                        continue
                    if not (isinstance(val, ast.ListComp) and len(val.generators) == 1 and not val.generators[0].ifs and not val.generators[0].is_async
                            and isinstance(val.elt, ast.IfExp)):
                        continue
                    if any(isinstance(x, ast.Name) and x.id == tname for x in ast.walk(val)) or any(isinstance(x, (ast.Lambda, ast.NamedExpr, ast.ListComp, ast.GeneratorExp, ast.SetComp, ast.DictComp)) for x in ast.walk(val.elt)):
                        continue
                    g = val.generators[0]
                    tnames = [x.id for x in ast.walk(g.target) if isinstance(x, ast.Name)]
                    outside = {x.id for x in ast.walk(fn) if isinstance(x, ast.Name) and not any(x is y for y in ast.walk(val))} | {a.arg for a in fn.args.posonlyargs + fn.args.args + fn.args.kwonlyargs}
                    counter[0] += 1
                    ren = {t: f"_cv{counter[0]}_{t}" for t in tnames if t in outside}
                    r = _Rename2(ren)

                    def app(e):
                        return ast.Expr(value=ast.Call(func=ast.Attribute(value=ast.Name(id=tname, ctx=ast.Load()), attr="append", ctx=ast.Load()), args=[r.visit(_clone(e))], keywords=[]))

                    iff = ast.If(test=r.visit(_clone(val.elt.test)), body=[app(val.elt.body)], orelse=[app(val.elt.orelse)])
                    loop = ast.For(target=r.visit(_clone(g.target)), iter=_clone(g.iter), body=[iff], orelse=[])
                    init = ast.Assign(targets=[ast.Name(id=tname, ctx=ast.Store())], value=ast.List(elts=[], ctx=ast.Load()))
                    for x in (init, loop):
                        ast.copy_location(x, st)
                        ast.fix_missing_locations(x)
                    k = stmts.index(st)
                    stmts[k:k + 1] = [init, loop]
                    n += 1
    return n


def normalise_match(tree):
    """`match S:` whose cases are value patterns (dotted names), literals, `Cls()` class patterns without sub-patterns, `|` of those, and
    a final wildcard - no guards, no captures - is the if / elif ladder `S == V` / `S is None` / `isinstance(S, Cls)` in the same
    order (that is how those patterns are defined to match); a subject that is not a plain name is evaluated once into a temporary"""
    n = [0]
    counter = [0]

    def test_of(pat, subj):
        if isinstance(pat, ast.MatchValue):
            v = pat.value
            base = v
            while isinstance(base, ast.Attribute):
                base = base.value
            if isinstance(v, ast.Constant) or (isinstance(v, ast.Attribute) and isinstance(base, ast.Name)) or (isinstance(v, ast.UnaryOp) and isinstance(v.operand, ast.Constant)):
                return ast.Compare(left=_clone(subj), ops=[ast.Eq()], comparators=[_clone(v)])
            return None
        if isinstance(pat, ast.MatchSingleton):
            return ast.Compare(left=_clone(subj), ops=[ast.Is()], comparators=[ast.Constant(value=pat.value)])
        if isinstance(pat, ast.MatchClass) and not pat.patterns and not pat.kwd_patterns and isinstance(pat.cls, (ast.Name, ast.Attribute)):
            return ast.Call(func=ast.Name(id="isinstance", ctx=ast.Load()), args=[_clone(subj), _clone(pat.cls)], keywords=[])
        if isinstance(pat, ast.MatchOr):
            ts = [test_of(q, subj) for q in pat.patterns]
            if any(t is None for t in ts):
                return None
            return ast.BoolOp(op=ast.Or(), values=ts)
        return None

    def convert(st):
        subj = st.subject
        pre = []
        if not isinstance(subj, ast.Name):
            base = subj
            while isinstance(base, ast.Attribute):
                base = base.value
            if not (isinstance(subj, ast.Attribute) and isinstance(base, ast.Name)):
                counter[0] += 1
                tmp = f"_match{counter[0]}"
                pre = [ast.Assign(targets=[ast.Name(id=tmp, ctx=ast.Store())], value=subj)]
                subj = ast.Name(id=tmp, ctx=ast.Load())
        chain = None
        cases = list(st.cases)
        tail = []
        if cases and isinstance(cases[-1].pattern, ast.MatchAs) and cases[-1].pattern.pattern is None and cases[-1].pattern.name is None and cases[-1].guard is None:
            tail = cases[-1].body
            cases = cases[:-1]
        tests = []
        for c in cases:
            if c.guard is not None:
                return None
            t = test_of(c.pattern, subj)
            if t is None:
                return None
            tests.append((t, c.body))
        if not tests:
            return None
        orelse = list(tail)
        for t, body in reversed(tests):
            node = ast.If(test=t, body=list(body), orelse=orelse)
            orelse = [node]
        out = pre + orelse
        for x in out:
            ast.copy_location(x, st)
            ast.fix_missing_locations(x)
        return out

    def walk(node):
        for field in ("body", "orelse", "finalbody"):
            stmts = getattr(node, field, None)
            if not isinstance(stmts, list) or not stmts or not isinstance(stmts[0], ast.stmt):
                continue
            i = 0
            while i < len(stmts):
                st = stmts[i]
                if isinstance(st, ast.Match):
                    new = convert(st)
                    if new is not None:
                        stmts[i:i + 1] = new
                        n[0] += 1
                        continue  # re-visit the replacement (nested matches)
                walk(st)
                i += 1
        if isinstance(node, ast.Try):
            for h in node.handlers:
                walk(h)
        if isinstance(node, ast.Match):
            for c in node.cases:
                walk(c)

    walk(tree)
    return n[0]


def normalise_walrus(tree):
    """`if (x := E) ...:` where the assignment expression is the first thing the test evaluates is `x = E` followed by the `if` on x;
    `while (x := E) ...: BODY` (no else) is `while True: x = E; if not (...): break; BODY`"""
    n = [0]

    def leftmost(test):
        """the NamedExpr evaluated first, unconditionally, in test - with the parent node and field holding it"""
        cur, hold = test, None
        while True:
            if isinstance(cur, ast.NamedExpr):
                return cur, hold
            if isinstance(cur, ast.UnaryOp):
                hold = (cur, "operand", None)
                cur = cur.operand
            elif isinstance(cur, ast.BoolOp):
                hold = (cur, "values", 0)
                cur = cur.values[0]
            elif isinstance(cur, ast.Compare):
                hold = (cur, "left", None)
                cur = cur.left
            elif isinstance(cur, ast.Call) and isinstance(cur.func, ast.Name) and cur.args and not any(isinstance(a, ast.Starred) for a in cur.args):
                hold = (cur, "args", 0)
                cur = cur.args[0]
            elif isinstance(cur, ast.Attribute):
                hold = (cur, "value", None)
                cur = cur.value
            elif isinstance(cur, ast.Subscript):
                hold = (cur, "value", None)
                cur = cur.value
            else:
                return None, None

    def split(test):
        ne, hold = leftmost(test)
        if ne is None or not isinstance(ne.target, ast.Name):
            return None
        assign = ast.Assign(targets=[ast.Name(id=ne.target.id, ctx=ast.Store())], value=ne.value)
        repl = ast.Name(id=ne.target.id, ctx=ast.Load())
        if hold is None:
            new_test = repl
        else:
            par, field, idx = hold
            if idx is None:
                setattr(par, field, repl)
            else:
                getattr(par, field)[idx] = repl
            new_test = test
        return assign, new_test

    def walk(node):
        for field in ("body", "orelse", "finalbody"):
            stmts = getattr(node, field, None)
            if not isinstance(stmts, list) or not stmts or not isinstance(stmts[0], ast.stmt):
                continue
            i = 0
            while i < len(stmts):
                st = stmts[i]
                if isinstance(st, ast.If):
                    r = split(st.test)
                    if r is not None:
                        a, t = r
                        ast.copy_location(a, st)
                        ast.fix_missing_locations(a)
                        st.test = t
                        ast.fix_missing_locations(st)
                        stmts.insert(i, a)
                        n[0] += 1
                        continue
                elif isinstance(st, ast.While) and not st.orelse:
                    r = split(st.test)
                    if r is not None:
                        a, t = r
                        brk = ast.If(test=ast.UnaryOp(op=ast.Not(), operand=t), body=[ast.Break()], orelse=[])
                        st.test = ast.Constant(value=True)
                        st.body = [a, brk] + st.body
                        for x in (a, brk):
                            ast.copy_location(x, st)
                            ast.fix_missing_locations(x)
                        n[0] += 1
                        continue
                walk(st)
                i += 1
        if isinstance(node, ast.Try):
            for h in node.handlers:
                walk(h)

    walk(tree)
    return n[0]


def normalise_suppress(tree):
    """`with contextlib.suppress(E1, E2): BODY` is `try: BODY` / `except (E1, E2): pass` (the tool never raises exception groups)"""
    n = [0]
    names = set()
    mods = set()
    for st in ast.walk(tree):
        if isinstance(st, ast.ImportFrom) and st.module == "contextlib":
            for a in st.names:
                if a.name == "suppress":
                    names.add(a.asname or a.name)
        elif isinstance(st, ast.Import):
            for a in st.names:
                if a.name == "contextlib":
                    mods.add(a.asname or a.name)
    if not names and not mods:
        return 0

    def is_suppress(e):
        return isinstance(e, ast.Call) and not e.keywords and e.args and not any(isinstance(a, ast.Starred) for a in e.args) and (
            (isinstance(e.func, ast.Name) and e.func.id in names) or (isinstance(e.func, ast.Attribute) and e.func.attr == "suppress" and isinstance(e.func.value, ast.Name) and e.func.value.id in mods))

    for node in ast.walk(tree):
        for field in ("body", "orelse", "finalbody"):
            stmts = getattr(node, field, None)
            if not isinstance(stmts, list) or not stmts or not isinstance(stmts[0], ast.stmt):
                continue
            for i, st in enumerate(list(stmts)):
                if isinstance(st, ast.With) and len(st.items) == 1 and st.items[0].optional_vars is None and is_suppress(st.items[0].context_expr):
                    args = st.items[0].context_expr.args
                    typ = args[0] if len(args) == 1 else ast.Tuple(elts=list(args), ctx=ast.Load())
                    new = ast.Try(body=st.body, handlers=[ast.ExceptHandler(type=typ, name=None, body=[ast.Pass()])], orelse=[], finalbody=[])
                    ast.copy_location(new, st)
                    ast.fix_missing_locations(new)
                    stmts[stmts.index(st)] = new
                    n[0] += 1
    return n[0]


def normalise_partial(tree, known):
    """`functools.partial(F, a, k=v)` with F a function defined in the same module (plain positional parameters) is the function of
    F's remaining required parameters `lambda r1, r2: F(a, r1, r2, k=v)`; when F is a new one-line helper `return E` the call is
    written out (`lambda r1: E[...]`).  The bound arguments must be constants or names that are not re-bound afterwards (partial
    takes their value when it is built, a lambda when it is called)."""
    names, mods = set(), set()
    for st in ast.walk(tree):
        if isinstance(st, ast.ImportFrom) and st.module == "functools":
            for a in st.names:
                if a.name == "partial":
                    names.add(a.asname or a.name)
        elif isinstance(st, ast.Import):
            for a in st.names:
                if a.name == "functools":
                    mods.add(a.asname or a.name)
    if not names and not mods:
        return 0
    defs = {}
    for d in tree.body:
        if isinstance(d, ast.FunctionDef):
            defs[d.name] = None if d.name in defs else d
    n = [0]

    def is_partial(e):
        return isinstance(e, ast.Call) and e.args and not any(isinstance(a, ast.Starred) for a in e.args) and all(k.arg for k in e.keywords) and (
            (isinstance(e.func, ast.Name) and e.func.id in names) or (isinstance(e.func, ast.Attribute) and e.func.attr == "partial" and isinstance(e.func.value, ast.Name) and e.func.value.id in mods))

    def simple(e):
        if isinstance(e, ast.Constant):
            return True
        while isinstance(e, ast.Attribute):
            e = e.value
        return isinstance(e, ast.Name)

    for fn in [None] + [f for f in ast.walk(tree) if isinstance(f, (ast.FunctionDef, ast.AsyncFunctionDef))]:
        scope = fn if fn is not None else tree
        stores = {}
        for x in ast.walk(scope):
            if isinstance(x, ast.Name) and isinstance(x.ctx, (ast.Store, ast.Del)):
                stores[x.id] = stores.get(x.id, 0) + 1

        class P(ast.NodeTransformer):
            def visit_FunctionDef(self, node):
                if node is fn or fn is None and False:
                    self.generic_visit(node)
                elif fn is None:
                    return node
                return node

            visit_AsyncFunctionDef = visit_FunctionDef

            def visit_Call(self, node):
                self.generic_visit(node)
                if not is_partial(node) or not isinstance(node.args[0], ast.Name):
                    return node
                F = defs.get(node.args[0].id)
                if F is None or F.decorator_list or F.args.vararg or F.args.kwarg or F.args.kwonlyargs or F.args.posonlyargs:
                    return node
                if fn is not None and node.args[0].id in stores:
                    return node
                bound_pos, bound_kw = node.args[1:], {k.arg: k.value for k in node.keywords}
                params = [a.arg for a in F.args.args]
                ndef = len(F.args.defaults)
                required = params[:len(params) - ndef] if ndef else list(params)
                if len(bound_pos) > len(params) or any(k not in params for k in bound_kw) or any(k in params[:len(bound_pos)] for k in bound_kw):
                    return node
                if not all(simple(a) for a in list(bound_pos) + list(bound_kw.values())):
                    return node
                for a in list(bound_pos) + list(bound_kw.values()):
                    b = a
                    while isinstance(b, ast.Attribute):
                        b = b.value
                    if isinstance(b, ast.Name) and stores.get(b.id, 0) > 1:
                        return node
                rest = [p_ for p_ in params[len(bound_pos):] if p_ not in bound_kw and p_ in required]
                # a keyword binding in the middle makes the later parameters keyword-only for the caller: keep to the plain case
                if any(p_ in bound_kw for p_ in params[len(bound_pos):len(bound_pos) + len(rest)]):
                    return node
                taken = {x.id for x in ast.walk(scope) if isinstance(x, ast.Name)}
                ren = {p_: (p_ if p_ not in taken else f"_pp_{p_}") for p_ in rest}
                largs = ast.arguments(posonlyargs=[], args=[ast.arg(arg=ren[p_]) for p_ in rest], vararg=None, kwonlyargs=[], kw_defaults=[], kwarg=None, defaults=[])
                body_ = [b for b in F.body if not (isinstance(b, ast.Expr) and isinstance(b.value, ast.Constant))]
                while body_ and isinstance(body_[0], ast.Delete) and all(isinstance(t, ast.Name) and t.id in params for t in body_[0].targets):
                    gone = {t.id for t in body_[0].targets}
                    if any(isinstance(x, ast.Name) and x.id in gone for b in body_[1:] for x in ast.walk(b)):
                        break
                    body_ = body_[1:]  # deleting an unused parameter has no effect
                new_helper = node.args[0].id not in known
                if new_helper and len(body_) == 1 and isinstance(body_[0], ast.Return) and body_[0].value is not None \
                        and not any(isinstance(x, (ast.Lambda, ast.NamedExpr, ast.Yield, ast.YieldFrom, ast.Await)) for x in ast.walk(body_[0].value)):
                    mapping = {}
                    for p_, a in zip(params, bound_pos):
                        mapping[p_] = a
                    mapping.update(bound_kw)
                    for p_ in rest:
                        mapping[p_] = ast.Name(id=ren[p_], ctx=ast.Load())
                    if all(p_ in mapping or True for p_ in params):
                        missing = [p_ for p_ in params if p_ not in mapping]
                        dmap = dict(zip(params[len(params) - ndef:], F.args.defaults)) if ndef else {}
                        if all(p_ in dmap and isinstance(dmap[p_], ast.Constant) for p_ in missing):
                            for p_ in missing:
                                mapping[p_] = dmap[p_]

                            class S(ast.NodeTransformer):
                                def visit_Name(self, nd):
                                    if isinstance(nd.ctx, ast.Load) and nd.id in mapping:
                                        return ast.copy_location(_clone(mapping[nd.id]), nd)
                                    return nd

                            lam = ast.Lambda(args=largs, body=S().visit(_clone(body_[0].value)))
                            n[0] += 1
                            return ast.copy_location(lam, node)
                call = ast.Call(func=ast.Name(id=node.args[0].id, ctx=ast.Load()),
                                args=[_clone(a) for a in bound_pos] + [ast.Name(id=ren[p_], ctx=ast.Load()) for p_ in rest],
                                keywords=[ast.keyword(arg=k, value=_clone(v)) for k, v in bound_kw.items()])
                n[0] += 1
                return ast.copy_location(ast.Lambda(args=largs, body=call), node)

        if fn is None:
            new_body = []
            for st in tree.body:
                if isinstance(st, (ast.FunctionDef, ast.AsyncFunctionDef, ast.ClassDef)):
                    new_body.append(st)
                else:
                    new_body.append(P().visit(st))
            tree.body = new_body
        else:
            tr = P()
            fn.body = [tr.visit(b) if not isinstance(b, (ast.FunctionDef, ast.AsyncFunctionDef, ast.ClassDef)) else b for b in fn.body]
    if n[0]:
        ast.fix_missing_locations(tree)
    return n[0]


def normalise_local_procs(tree, known):
    """a nested `def g(..)` that is new, is only ever called directly (`g(..)`) inside its enclosing function, binds none of the
    enclosing function's names and is not recursive is expanded at its call sites like a module-level helper: the names it reads from
    the enclosing scope are the same names at the call site (a closure reads them when it runs)"""
    n = 0
    for outer in [f for f in ast.walk(tree) if isinstance(f, (ast.FunctionDef, ast.AsyncFunctionDef))]:
        qual, par = [], outer
        while par is not None:
            if isinstance(par, (ast.FunctionDef, ast.AsyncFunctionDef, ast.ClassDef)):
                qual.append(par.name)
            par = getattr(par, "_parent", None)
        prefix = ".".join(reversed(qual))
        for g in [st for st in list(outer.body) if isinstance(st, ast.FunctionDef)]:
            if g.decorator_list or (prefix + "." + g.name) in known or g.name in known:
                continue
            uses = [x for st in outer.body if st is not g for x in ast.walk(st) if isinstance(x, ast.Name) and x.id == g.name]
            calls = [c for st in outer.body if st is not g for c in ast.walk(st) if isinstance(c, ast.Call) and isinstance(c.func, ast.Name) and c.func.id == g.name]
            if not uses or len(uses) != len(calls) or any(not isinstance(x.ctx, ast.Load) for x in uses):
                continue
            closures = [x for st in outer.body if st is not g for x in ast.walk(st) if isinstance(x, (ast.Lambda, ast.FunctionDef))
                        and any(isinstance(y, ast.Name) and y.id == g.name for y in ast.walk(x))]
            if closures:
                # used from another closure: fine when that is a sibling `def` of the same function which binds none of the names g
                # reads from outside itself (they then mean the same thing inside the sibling)
                g_own = {x.id for x in ast.walk(g) if isinstance(x, ast.Name) and isinstance(x.ctx, (ast.Store, ast.Del))} | {a.arg for a in g.args.posonlyargs + g.args.args + g.args.kwonlyargs}
                g_free = {x.id for x in ast.walk(g) if isinstance(x, ast.Name) and isinstance(x.ctx, ast.Load)} - g_own
                sib_ok = True
                for c_ in closures:
                    if not (isinstance(c_, ast.FunctionDef) and any(c_ is st for st in outer.body)) or c_.decorator_list:
                        sib_ok = False
                        break
                    c_own = {x.id for x in ast.walk(c_) if isinstance(x, ast.Name) and isinstance(x.ctx, (ast.Store, ast.Del))} \
                        | {a.arg for x in ast.walk(c_) if isinstance(x, (ast.FunctionDef, ast.Lambda)) for a in x.args.posonlyargs + x.args.args + x.args.kwonlyargs}
                    if (g_free & c_own) or any(isinstance(x, (ast.Nonlocal, ast.Global)) for x in ast.walk(c_)) \
                            or any(isinstance(x, (ast.Lambda, ast.FunctionDef)) and x is not c_ and any(isinstance(y, ast.Name) and y.id == g.name for y in ast.walk(x)) for x in ast.walk(c_)):
                        sib_ok = False
                        break
                if not sib_ok:
                    continue
            if any(isinstance(x, (ast.Nonlocal, ast.Global, ast.Yield, ast.YieldFrom, ast.Await)) for x in ast.walk(g)):
                continue
            g_locals = {x.id for x in ast.walk(g) if isinstance(x, ast.Name) and isinstance(x.ctx, (ast.Store, ast.Del))} | {a.arg for a in g.args.posonlyargs + g.args.args + g.args.kwonlyargs}
            h = _candidate(g, None)
            if h is None:
                continue
            h.free = set()  # what it reads from the enclosing function is in scope where it is expanded
            inl = Inliner({g.name: h}, {})
            body = [st for st in outer.body if st is not g]
            local_names = {a.arg for a in outer.args.posonlyargs + outer.args.args + outer.args.kwonlyargs}
            for x in ast.walk(ast.Module(body=body, type_ignores=[])):
                if isinstance(x, ast.Name) and isinstance(x.ctx, ast.Store):
                    local_names.add(x.id)
            local_names.discard(g.name)
            inl._cur_fn_body = body
            new_body = inl.run_body([_clone(b) for b in body], None, local_names)
            left = [x for st in new_body for x in ast.walk(st) if isinstance(x, ast.Name) and x.id == g.name]
            if left or not inl.count:
                continue  # not every call could be expanded: leave the function as it is
            outer.body = new_body or [ast.Pass()]
            ast.fix_missing_locations(outer)
            n += inl.count
    return n


def normalise_chain_loops(tree):
    """`for T in itertools.chain(A, B): BODY` (BODY without break / else; the chain written in the header or bound once to a local
    used nowhere else) is `for T in A: BODY` followed by `for T in B: BODY`;  `for T in (E for v in S): BODY` is
    `for v' in S: T = E; BODY` (v' a fresh name: the generator's variable is its own)"""
    n = 0
    cnames, mods = set(), set()
    for st in ast.walk(tree):
        if isinstance(st, ast.ImportFrom) and st.module == "itertools":
            for a in st.names:
                if a.name == "chain":
                    cnames.add(a.asname or a.name)
        elif isinstance(st, ast.Import):
            for a in st.names:
                if a.name == "itertools":
                    mods.add(a.asname or a.name)

    def is_chain(e):
        return isinstance(e, ast.Call) and not e.keywords and len(e.args) >= 2 and not any(isinstance(a, ast.Starred) for a in e.args) and (
            (isinstance(e.func, ast.Name) and e.func.id in cnames) or (isinstance(e.func, ast.Attribute) and e.func.attr == "chain" and isinstance(e.func.value, ast.Name) and e.func.value.id in mods))

    counter = [0]
    for fn in [f for f in ast.walk(tree) if isinstance(f, (ast.FunctionDef, ast.AsyncFunctionDef))]:
        changed = True
        while changed:
            changed = False
            for node in list(ast.walk(fn)):
                for field in ("body", "orelse", "finalbody"):
                    stmts = getattr(node, field, None)
                    if not isinstance(stmts, list) or not stmts or not isinstance(stmts[0], ast.stmt):
                        continue
                    for st in list(stmts):
                        if not isinstance(st, ast.For) or st.orelse:
                            continue
                        it = st.iter
                        drop = None
                        if isinstance(it, ast.Name):
                            binds = [a for a in ast.walk(fn) if isinstance(a, ast.Assign) and len(a.targets) == 1 and isinstance(a.targets[0], ast.Name) and a.targets[0].id == it.id]
                            uses = [x for x in ast.walk(fn) if isinstance(x, ast.Name) and x.id == it.id]
                            if len(binds) == 1 and len(uses) == 2 and binds[0] in getattr(fn, "body", []) and (is_chain(binds[0].value) or isinstance(binds[0].value, ast.GeneratorExp)):
                                # nothing between the binding and the loop may run the generator's source: only allow when the loop
                                # is in the same block or one level down (a try body) and no statement in between calls next()/iterates
                                it, drop = binds[0].value, binds[0]
                        if is_chain(it):
                            if any(isinstance(x, ast.Break) for b in st.body for x in ast.walk(b)):
                                continue
                            loops = []
                            for part in it.args:
                                lp = ast.For(target=_clone(st.target), iter=part, body=[_clone(b) for b in st.body], orelse=[])
                                ast.copy_location(lp, st)
                                ast.fix_missing_locations(lp)
                                loops.append(lp)
                            k = stmts.index(st)
                            stmts[k:k + 1] = loops
                        elif isinstance(it, ast.GeneratorExp) and (len(it.generators) > 1 or it.generators[0].ifs) and not any(g_.is_async for g_ in it.generators) \
                                and not _loop_level_jumps_kind(st.body, (ast.Break,)) \
                                and not any(isinstance(x, (ast.NamedExpr, ast.Yield, ast.YieldFrom, ast.Await)) for x in ast.walk(it)):
                            # several for / if clauses: the nested loops they abbreviate (`continue` in BODY goes on with the next element
                            # either way; `break` would not, hence excluded)
                            counter[0] += 1
                            gen_names = {x.id for g_ in it.generators for x in ast.walk(g_.target) if isinstance(x, ast.Name)}
                            same = isinstance(it.elt, ast.Name) and isinstance(st.target, ast.Name) and it.elt.id == st.target.id
                            outside = {x.id for x in ast.walk(fn) if isinstance(x, ast.Name) and not any(x is y for y in ast.walk(it))}
                            ren = {nm: f"_gv{counter[0]}_{nm}" for nm in gen_names if nm in outside and not (same and nm == st.target.id)}
                            r = _Rename2(ren)
                            inner = ([] if same and st.target.id not in ren else [ast.Assign(targets=[st.target], value=r.visit(_clone(it.elt)))]) + st.body
                            for g_ in reversed(it.generators):
                                for c_ in reversed(g_.ifs):
                                    inner = [ast.If(test=r.visit(_clone(c_)), body=inner, orelse=[])]
                                inner = [ast.For(target=r.visit(_clone(g_.target)), iter=(r.visit(_clone(g_.iter)) if g_ is not it.generators[0] else g_.iter), body=inner, orelse=[])]
                            lp = inner[0]
                            for x in ast.walk(lp):
                                if not hasattr(x, "lineno") and isinstance(x, (ast.stmt, ast.expr)):
                                    ast.copy_location(x, st)
                            ast.copy_location(lp, st)
                            ast.fix_missing_locations(lp)
                            stmts[stmts.index(st)] = lp
                        elif isinstance(it, ast.GeneratorExp) and len(it.generators) == 1 and not it.generators[0].ifs and not it.generators[0].is_async:
                            g = it.generators[0]
                            counter[0] += 1
                            ren = {x.id: f"_gv{counter[0]}_{x.id}" for x in ast.walk(g.target) if isinstance(x, ast.Name)}
                            r = _Rename2(ren)
                            asg = ast.Assign(targets=[st.target], value=r.visit(_clone(it.elt)))
                            lp = ast.For(target=r.visit(_clone(g.target)), iter=g.iter, body=[asg] + st.body, orelse=[])
                            for x in (asg, lp):
                                ast.copy_location(x, st)
                                ast.fix_missing_locations(x)
                            stmts[stmts.index(st)] = lp
                        else:
                            continue
                        if drop is not None:
                            for holder in ast.walk(fn):
                                for f2 in ("body", "orelse", "finalbody"):
                                    b2 = getattr(holder, f2, None)
                                    if isinstance(b2, list) and drop in b2:
                                        b2.remove(drop)
                                        if not b2:
                                            b2.append(ast.Pass())
                        n += 1
                        changed = True
                        break
                    if changed:
                        break
                if changed:
                    break
    return n


def normalise_value_functions(tree, known):
    """a new module-level `def g(a, b): return E` / `def g(a, b): a.x = b` (one statement) that is handed around as a value
    (`f(.., g, ..)`) is, at those places, the function `lambda a, b: E` / `lambda a, b: setattr(a, "x", b)` (both return what the
    def returns: E, or None)"""
    n = 0
    for g in [st for st in tree.body if isinstance(st, ast.FunctionDef)]:
        if g.decorator_list or g.name in known or g.args.vararg or g.args.kwarg or g.args.kwonlyargs or g.args.defaults:
            continue
        body = [b for b in g.body if not (isinstance(b, ast.Expr) and isinstance(b.value, ast.Constant))]
        params = {a.arg for a in g.args.posonlyargs + g.args.args}
        if len(body) != 1:
            continue
        b = body[0]
        if isinstance(b, ast.Return) and b.value is not None:
            expr = b.value
        elif isinstance(b, ast.Assign) and len(b.targets) == 1 and isinstance(b.targets[0], ast.Attribute) and isinstance(b.targets[0].value, ast.Name) \
                and b.targets[0].value.id in params and not b.targets[0].attr.startswith("__"):
            expr = ast.Call(func=ast.Name(id="setattr", ctx=ast.Load()), args=[_clone(b.targets[0].value), ast.Constant(value=b.targets[0].attr), _clone(b.value)], keywords=[])
            for x in ast.walk(expr):
                if isinstance(x, ast.Name):
                    x.ctx = ast.Load()
        elif isinstance(b, ast.Expr) and isinstance(b.value, ast.Call) and isinstance(b.value.func, ast.Name) and b.value.func.id in ("setattr", "delattr"):
            expr = b.value
        else:
            continue
        if any(isinstance(x, (ast.Yield, ast.YieldFrom, ast.Await, ast.NamedExpr, ast.Lambda)) for x in ast.walk(expr)) or any(isinstance(x, ast.Name) and x.id == g.name for x in ast.walk(expr)):
            continue
        stores = [x for x in ast.walk(tree) if isinstance(x, ast.Name) and x.id == g.name and isinstance(x.ctx, (ast.Store, ast.Del))]
        if stores:
            continue
        callee_ids = {id(c.func) for c in ast.walk(tree) if isinstance(c, ast.Call)}
        value_uses = [x for x in ast.walk(tree) if isinstance(x, ast.Name) and x.id == g.name and isinstance(x.ctx, ast.Load) and id(x) not in callee_ids]
        if not value_uses:
            continue
        largs = _clone(g.args)
        for a_ in largs.posonlyargs + largs.args:
            a_.annotation = None
            a_.type_comment = None
        lam = ast.Lambda(args=largs, body=expr)
        ids = {id(x) for x in value_uses}

        class R(ast.NodeTransformer):
            def visit_Name(self, node):
                if id(node) in ids:
                    return ast.copy_location(_clone(lam), node)
                return node

        R().visit(tree)
        n += len(value_uses)
    if n:
        ast.fix_missing_locations(tree)
    return n


def normalise_local_lambdas(tree, known):
    """a nested `def g(a, b): [del b]; return E` that is new with respect to the pinned inventory and whose name is only read in the
    enclosing function is the value `lambda a, b: E` (deleting an unused parameter has no effect); uses of g become that lambda."""
    n = 0
    for outer in [f for f in ast.walk(tree) if isinstance(f, (ast.FunctionDef, ast.AsyncFunctionDef))]:
        qual = []
        par = outer
        while par is not None:
            if isinstance(par, (ast.FunctionDef, ast.AsyncFunctionDef, ast.ClassDef)):
                qual.append(par.name)
            par = getattr(par, "_parent", None)
        prefix = ".".join(reversed(qual))
        for g in [st for st in list(outer.body) if isinstance(st, ast.FunctionDef)]:
            if g.decorator_list or (prefix + "." + g.name) in known or g.name in known:
                continue
            body = list(g.body)
            if body and isinstance(body[0], ast.Expr) and isinstance(body[0].value, ast.Constant) and isinstance(body[0].value.value, str):
                body = body[1:]
            params = {a.arg for a in g.args.posonlyargs + g.args.args + g.args.kwonlyargs}
            while body and isinstance(body[0], ast.Delete) and all(isinstance(t, ast.Name) and t.id in params for t in body[0].targets):
                deleted = {t.id for t in body[0].targets}
                if any(isinstance(x, ast.Name) and x.id in deleted for st in body[1:] for x in ast.walk(st)):
                    break
                body = body[1:]
            if len(body) == 1 and isinstance(body[0], ast.Expr) and isinstance(body[0].value, ast.Call) and isinstance(body[0].value.func, ast.Name) \
                    and body[0].value.func.id in ("setattr", "delattr"):
                # the call returns None, like falling off the end of the def
                body = [ast.Return(value=body[0].value)]
            # `t = E1; return E2(t)` with t assigned once and read once, in evaluation order, is `return E2(E1)`
            while len(body) >= 2 and isinstance(body[0], ast.Assign) and len(body[0].targets) == 1 and isinstance(body[0].targets[0], ast.Name) \
                    and body[0].targets[0].id not in params:
                t_ = body[0].targets[0].id
                rest_names = [x for st in body[1:] for x in ast.walk(st) if isinstance(x, ast.Name) and x.id == t_]
                nxt = body[1]
                nxt_val = nxt.value if isinstance(nxt, (ast.Assign, ast.Return)) else None
                if len(rest_names) != 1 or not isinstance(rest_names[0].ctx, ast.Load) or nxt_val is None:
                    break
                order = [x for x in _eval_order(nxt_val)]
                pure_before = True
                for x in order:
                    if x is rest_names[0]:
                        break
                    if isinstance(x, (ast.Call, ast.Await, ast.Yield, ast.YieldFrom)):
                        pure_before = False
                if not any(x is rest_names[0] for x in order) or not pure_before:
                    break
                val_ = body[0].value

                class _S(ast.NodeTransformer):
                    def visit_Name(self, node):
                        if node.id == t_ and isinstance(node.ctx, ast.Load):
                            return ast.copy_location(_clone(val_), node)
                        return node

                    def visit_Lambda(self, node):
                        return node

                body = [_S().visit(_clone(nxt))] + body[2:]
            if len(body) != 1 or not isinstance(body[0], ast.Return) or body[0].value is None:
                continue
            expr = body[0].value
            if any(isinstance(x, (ast.Yield, ast.YieldFrom, ast.Await, ast.NamedExpr)) for x in ast.walk(expr)):
                continue
            if any(isinstance(x, ast.Name) and x.id == g.name for x in ast.walk(expr)):
                continue
            uses = [x for st in outer.body if st is not g for x in ast.walk(st) if isinstance(x, ast.Name) and x.id == g.name]
            if not uses or any(not isinstance(x.ctx, ast.Load) for x in uses):
                continue
            largs = _clone(g.args)
            for a_ in largs.posonlyargs + largs.args + largs.kwonlyargs + ([largs.vararg] if largs.vararg else []) + ([largs.kwarg] if largs.kwarg else []):
                a_.annotation = None  # a lambda's parameters carry no annotations
                a_.type_comment = None
            lam = ast.Lambda(args=largs, body=expr)

            class R(ast.NodeTransformer):
                def visit_Name(self, node):
                    if node.id == g.name and isinstance(node.ctx, ast.Load):
                        return ast.copy_location(_clone(lam), node)
                    return node

            new_body = []
            for st in outer.body:
                if st is g:
                    continue
                new_body.append(R().visit(st))
            outer.body = new_body or [ast.Pass()]
            ast.fix_missing_locations(outer)
            n += 1
    return n


# ------------------------------------------------------------------------------------------ entry point
def normalise_new_consts(tree, known):
    """a module-level `NAME = V` that is new with respect to the pinned inventory, bound exactly once, with V a literal constant or
    a tuple display of constants / plain (dotted) names: every read of NAME in this module is V written out (tuples and constants
    are immutable, the names inside are read at the same places as long as they are module-level names bound before)"""
    stores = {}
    for x in ast.walk(tree):
        if isinstance(x, ast.Name) and isinstance(x.ctx, (ast.Store, ast.Del)):
            stores[x.id] = stores.get(x.id, 0) + 1
        elif isinstance(x, (ast.FunctionDef, ast.AsyncFunctionDef, ast.ClassDef)):
            stores[x.name] = stores.get(x.name, 0) + 1
        elif isinstance(x, ast.arg):
            stores[x.arg] = stores.get(x.arg, 0) + 1
        elif isinstance(x, (ast.Import, ast.ImportFrom)):
            for a in x.names:
                nm_ = (a.asname or a.name).split(".")[0]
                stores[nm_] = stores.get(nm_, 0) + 1
        elif isinstance(x, ast.ExceptHandler) and x.name:
            stores[x.name] = stores.get(x.name, 0) + 1
        elif isinstance(x, (ast.Global, ast.Nonlocal)):
            for nm_ in x.names:
                stores[nm_] = stores.get(nm_, 0) + 2

    def const(e):
        return isinstance(e, ast.Constant) or (isinstance(e, ast.UnaryOp) and isinstance(e.op, (ast.USub, ast.UAdd)) and isinstance(e.operand, ast.Constant))

    def simple(e):
        if const(e):
            return True
        while isinstance(e, ast.Attribute):
            e = e.value
        return isinstance(e, ast.Name) and stores.get(e.id) == 1 and e.id in bound_before

    n = 0
    bound_before = set()
    for st in tree.body:
        for x in ast.walk(st) if not isinstance(st, (ast.FunctionDef, ast.AsyncFunctionDef, ast.ClassDef)) else ():
            if isinstance(x, ast.Name) and isinstance(x.ctx, ast.Store):
                pass
        tgt = None
        if isinstance(st, ast.Assign) and len(st.targets) == 1 and isinstance(st.targets[0], ast.Name):
            tgt, val = st.targets[0].id, st.value
        elif isinstance(st, ast.AnnAssign) and isinstance(st.target, ast.Name) and st.value is not None:
            tgt, val = st.target.id, st.value
        if tgt is not None and ("=" + tgt) not in known and stores.get(tgt) == 1 and tgt.startswith("_") \
                and (const(val) or (isinstance(val, ast.Tuple) and 1 <= len(val.elts) <= 8 and all(simple(e) for e in val.elts))):
            class R(ast.NodeTransformer):
                def __init__(self):
                    self.n = 0

                def visit_Name(self, node):
                    if node.id == tgt and isinstance(node.ctx, ast.Load):
                        self.n += 1
                        return ast.copy_location(_clone(val), node)
                    return node
            r = R()
            for other in tree.body:
                if other is not st:
                    r.visit(other)
            n += r.n
        elif tgt is not None and ("=" + tgt) not in known and stores.get(tgt) == 1 and tgt.startswith("_") and isinstance(val, ast.Dict) and 1 <= len(val.keys) <= 8 \
                and all(k_ is not None and simple(k_) for k_ in val.keys) and not any(
                    isinstance(x, ast.Call) and isinstance(x.func, ast.Attribute) and isinstance(x.func.value, ast.Name) and x.func.value.id == tgt
                    and x.func.attr in ("update", "pop", "popitem", "clear", "setdefault", "__setitem__", "__delitem__") for x in ast.walk(tree)) \
                and not any(isinstance(x, ast.Subscript) and isinstance(x.value, ast.Name) and x.value.id == tgt and not isinstance(x.ctx, ast.Load) for x in ast.walk(tree)):
            # a new constant mapping: `x in NAME` asks whether x is one of its keys
            keys_ = ast.Tuple(elts=[_clone(k_) for k_ in val.keys], ctx=ast.Load())

            class RD(ast.NodeTransformer):
                def __init__(self):
                    self.n = 0

                def visit_Compare(self, node):
                    self.generic_visit(node)
                    if len(node.ops) == 1 and isinstance(node.ops[0], (ast.In, ast.NotIn)) and isinstance(node.comparators[0], ast.Name) and node.comparators[0].id == tgt:
                        node.comparators = [ast.copy_location(_clone(keys_), node.comparators[0])]
                        self.n += 1
                    return node
            rd = RD()
            for other in tree.body:
                if other is not st:
                    rd.visit(other)
            n += rd.n
        # names available to later statements
        if isinstance(st, (ast.FunctionDef, ast.AsyncFunctionDef, ast.ClassDef)):
            bound_before.add(st.name)
        elif isinstance(st, (ast.Import, ast.ImportFrom)):
            bound_before |= {(a.asname or a.name).split(".")[0] for a in st.names}
        else:
            bound_before |= {x.id for x in ast.walk(st) if isinstance(x, ast.Name) and isinstance(x.ctx, ast.Store)}
    if n:
        ast.fix_missing_locations(tree)
    return n


def normalise_dict_build(tree, known=()):
    """`D = {..}` directly followed by `D.update({..})` / `D.update(dict.fromkeys((k1, k2), V))` / `D[k] = v` (keys plain names or
    constants, V a plain name or constant) is the one display with those entries appended (a later equal key replaces the value and
    keeps the first position in both spellings).  When the very next statement is the only other mention of D in its scope, the
    display is written there in place of D."""
    n = 0

    def simple(e):
        if isinstance(e, ast.Constant):
            return True
        while isinstance(e, ast.Attribute):
            e = e.value
        return isinstance(e, ast.Name)

    scopes = [(tree, tree.body, True)] + [(f, f.body, False) for f in ast.walk(tree) if isinstance(f, (ast.FunctionDef, ast.AsyncFunctionDef))]
    for scope, body, is_mod in scopes:
        i = 0
        while i < len(body):
            st = body[i]
            i += 1
            if not (isinstance(st, ast.Assign) and len(st.targets) == 1 and isinstance(st.targets[0], ast.Name) and isinstance(st.value, ast.Dict)
                    and all(k is not None for k in st.value.keys)):
                continue
            d = st.targets[0].id
            if is_mod and ("=" + d) in known:
                continue
            j = i
            merged = 0
            while j < len(body):
                nx = body[j]
                add = None
                if isinstance(nx, ast.Expr) and isinstance(nx.value, ast.Call) and isinstance(nx.value.func, ast.Attribute) and nx.value.func.attr == "update" \
                        and isinstance(nx.value.func.value, ast.Name) and nx.value.func.value.id == d and len(nx.value.args) == 1 and not nx.value.keywords:
                    a = nx.value.args[0]
                    if isinstance(a, ast.Dict) and all(k is not None for k in a.keys) and not any(isinstance(x, ast.Name) and x.id == d for x in ast.walk(a)):
                        add = list(zip(a.keys, a.values))
                    elif isinstance(a, ast.Call) and isinstance(a.func, ast.Attribute) and a.func.attr == "fromkeys" and isinstance(a.func.value, ast.Name) and a.func.value.id == "dict" \
                            and len(a.args) == 2 and not a.keywords and isinstance(a.args[0], (ast.Tuple, ast.List)) and all(simple(k) for k in a.args[0].elts) and simple(a.args[1]):
                        add = [(k, _clone(a.args[1])) for k in a.args[0].elts]
                elif isinstance(nx, ast.Assign) and len(nx.targets) == 1 and isinstance(nx.targets[0], ast.Subscript) and isinstance(nx.targets[0].value, ast.Name) \
                        and nx.targets[0].value.id == d and simple(nx.targets[0].slice) and not any(isinstance(x, ast.Name) and x.id == d for x in ast.walk(nx.value)):
                    add = [(nx.targets[0].slice, nx.value)]
                if add is None:
                    break
                for k, v in add:
                    st.value.keys.append(k)
                    st.value.values.append(v)
                del body[j]
                merged += 1
            n += merged
            # single use in the next statement
            if i < len(body) and not isinstance(body[i], (ast.FunctionDef, ast.AsyncFunctionDef, ast.ClassDef, ast.For, ast.While, ast.If, ast.Try, ast.With)):
                uses = [x for x in ast.walk(scope) if isinstance(x, ast.Name) and x.id == d]
                here = [x for x in ast.walk(body[i]) if isinstance(x, ast.Name) and x.id == d and isinstance(x.ctx, ast.Load)]
                inside_fn = any(isinstance(y, (ast.Lambda, ast.FunctionDef, ast.GeneratorExp, ast.ListComp, ast.SetComp, ast.DictComp)) and any(z is here[0] for z in ast.walk(y))
                                for y in ast.walk(body[i])) if here else True
                if len(here) == 1 and len(uses) == 2 and not inside_fn and (not is_mod or merged or not d.startswith("__")):
                    tgt = here[0]

                    class R(ast.NodeTransformer):
                        def visit_Name(self, node):
                            return ast.copy_location(st.value, node) if node is tgt else node
                    body[i] = R().visit(body[i])
                    body.remove(st)
                    i -= 1
                    n += 1
        if not body:
            body.append(ast.Pass())
    if n:
        ast.fix_missing_locations(tree)
    return n


def normalise_record_consts(tree, known):
    """a new private `class R(NamedTuple)` with plain fields and one-expression methods, and new module-level constants
    `X = R(c0, k=c1, ..)` built from constant expressions: `X.field` is that expression, `X.method(a)` is the method's expression with
    the fields and the (side-effect free) arguments written in; a local bound once to X (`line = X`) stands for X."""
    classes = {}
    for st in tree.body:
        if isinstance(st, ast.ClassDef) and st.name not in known and st.name.startswith("_") and len(st.bases) == 1 and not st.decorator_list and not st.keywords:
            b = st.bases[0]
            if not ((isinstance(b, ast.Name) and b.id == "NamedTuple") or (isinstance(b, ast.Attribute) and b.attr == "NamedTuple")):
                continue
            fields, methods, ok = [], {}, True
            for m in st.body:
                if isinstance(m, ast.AnnAssign) and isinstance(m.target, ast.Name):
                    fields.append((m.target.id, m.value))
                elif isinstance(m, ast.FunctionDef) and not m.decorator_list and not m.name.startswith("__"):
                    body = [x for x in m.body if not (isinstance(x, ast.Expr) and isinstance(x.value, ast.Constant))]
                    a = m.args
                    if len(body) == 1 and isinstance(body[0], ast.Return) and body[0].value is not None and a.args and not (a.vararg or a.kwarg or a.kwonlyargs or a.defaults or a.posonlyargs) \
                            and not any(isinstance(x, (ast.Lambda, ast.NamedExpr, ast.Yield, ast.YieldFrom, ast.Await, ast.GeneratorExp, ast.ListComp, ast.SetComp, ast.DictComp)) for x in ast.walk(body[0])):
                        methods[m.name] = (m, body[0].value)
                    else:
                        ok = False
                elif isinstance(m, ast.Pass) or (isinstance(m, ast.Expr) and isinstance(m.value, ast.Constant)):
                    pass
                else:
                    ok = False
            if ok and fields:
                classes[st.name] = (fields, methods)
    if not classes:
        return 0
    stores = {}
    for x in ast.walk(tree):
        if isinstance(x, ast.Name) and isinstance(x.ctx, (ast.Store, ast.Del)):
            stores[x.id] = stores.get(x.id, 0) + 1

    def const_expr(e):
        return all(isinstance(x, (ast.Constant, ast.BinOp, ast.UnaryOp, ast.operator, ast.unaryop, ast.Load, ast.Tuple)) for x in ast.walk(e))

    insts = {}
    for st in tree.body:
        if isinstance(st, ast.Assign) and len(st.targets) == 1 and isinstance(st.targets[0], ast.Name) and isinstance(st.value, ast.Call) and isinstance(st.value.func, ast.Name) \
                and st.value.func.id in classes and ("=" + st.targets[0].id) not in known and stores.get(st.targets[0].id) == 1:
            fields, methods = classes[st.value.func.id]
            c = st.value
            if any(isinstance(a, ast.Starred) for a in c.args) or any(k.arg is None for k in c.keywords) or len(c.args) > len(fields):
                continue
            vals = dict(zip([f for f, _ in fields], c.args))
            bad = False
            for k in c.keywords:
                if k.arg in vals or k.arg not in dict(fields):
                    bad = True
                vals[k.arg] = k.value
            for f, d in fields:
                if f not in vals:
                    if d is None:
                        bad = True
                    else:
                        vals[f] = d
            if bad or not all(const_expr(v) for v in vals.values()):
                continue
            insts[st.targets[0].id] = (vals, methods)
    if not insts:
        return 0
    n = [0]
    for fn in [f for f in ast.walk(tree) if isinstance(f, (ast.FunctionDef, ast.AsyncFunctionDef))]:
        # local aliases bound once to an instance
        alias = {}
        for a in ast.walk(fn):
            if isinstance(a, ast.Assign) and len(a.targets) == 1 and isinstance(a.targets[0], ast.Name) and isinstance(a.value, ast.Name) and a.value.id in insts:
                nm = a.targets[0].id
                n_st = sum(1 for x in ast.walk(fn) if isinstance(x, ast.Name) and x.id == nm and isinstance(x.ctx, (ast.Store, ast.Del)))
                if n_st == 1 and nm not in {p_.arg for p_ in fn.args.posonlyargs + fn.args.args + fn.args.kwonlyargs} and a in fn.body:
                    alias[nm] = a.value.id
        params = {p_.arg for p_ in fn.args.posonlyargs + fn.args.args + fn.args.kwonlyargs}
        local_st = {x.id for x in ast.walk(fn) if isinstance(x, ast.Name) and isinstance(x.ctx, (ast.Store, ast.Del))} | params

        def inst_of(e):
            if isinstance(e, ast.Name):
                if e.id in alias:
                    return alias[e.id]
                if e.id in insts and e.id not in local_st:
                    return e.id
            return None

        class R(ast.NodeTransformer):
            def visit_Call(self, node):
                self.generic_visit(node)
                f = node.func
                if isinstance(f, ast.Attribute) and inst_of(f.value) is not None:
                    vals, methods = insts[inst_of(f.value)]
                    if f.attr in methods and not node.keywords and not any(isinstance(a, ast.Starred) for a in node.args) and all(pure(a) for a in node.args):
                        m, expr = methods[f.attr]
                        ps = [p_.arg for p_ in m.args.args]
                        if len(node.args) == len(ps) - 1:
                            bind = dict(zip(ps[1:], node.args))
                            selfn = ps[0]

                            class S(ast.NodeTransformer):
                                def visit_Attribute(self, nd):
                                    if isinstance(nd.value, ast.Name) and nd.value.id == selfn and nd.attr in vals:
                                        return ast.copy_location(_clone(vals[nd.attr]), nd)
                                    self.generic_visit(nd)
                                    return nd

                                def visit_Name(self, nd):
                                    if nd.id in bind and isinstance(nd.ctx, ast.Load):
                                        return ast.copy_location(_clone(bind[nd.id]), nd)
                                    return nd
                            e2 = S().visit(_clone(expr))
                            if not any(isinstance(x, ast.Name) and x.id == selfn for x in ast.walk(e2)):
                                n[0] += 1
                                return ast.copy_location(e2, node)
                return node

            def visit_Attribute(self, node):
                self.generic_visit(node)
                if isinstance(node.ctx, ast.Load) and inst_of(node.value) is not None:
                    vals, methods = insts[inst_of(node.value)]
                    if node.attr in vals:
                        n[0] += 1
                        return ast.copy_location(_clone(vals[node.attr]), node)
                return node

        before = n[0]
        fn.body = [R().visit(b) for b in fn.body]
        if n[0] > before:
            # aliases no longer read are dropped
            for nm in list(alias):
                if not any(isinstance(x, ast.Name) and x.id == nm and isinstance(x.ctx, ast.Load) for x in ast.walk(fn)):
                    fn.body = [b for b in fn.body if not (isinstance(b, ast.Assign) and len(b.targets) == 1 and isinstance(b.targets[0], ast.Name) and b.targets[0].id == nm)] or [ast.Pass()]
    if n[0]:
        ast.fix_missing_locations(tree)
    return n[0]


def normalise_local_records(tree, known):
    """inside a function: `w = R(a, k=b, ..)` with R a new private NamedTuple class with plain fields, side-effect-free arguments
    over names that are bound only once in the function, w bound once and only ever read as `w.field`: each `w.field` is the
    argument given for that field (building the tuple has no effect of its own)"""
    classes = {}
    for st in tree.body:
        if isinstance(st, ast.ClassDef) and st.name not in known and st.name.startswith("_") and len(st.bases) == 1 and not st.decorator_list and not st.keywords:
            b = st.bases[0]
            if not ((isinstance(b, ast.Name) and b.id == "NamedTuple") or (isinstance(b, ast.Attribute) and b.attr == "NamedTuple")):
                continue
            fields, ok = [], True
            for m in st.body:
                if isinstance(m, ast.AnnAssign) and isinstance(m.target, ast.Name):
                    fields.append((m.target.id, m.value))
                elif isinstance(m, ast.FunctionDef) and m.name not in ("__new__", "__init__", "__getattribute__", "__getattr__"):
                    pass
                elif isinstance(m, ast.Pass) or (isinstance(m, ast.Expr) and isinstance(m.value, ast.Constant)):
                    pass
                else:
                    ok = False
            if ok and fields:
                classes[st.name] = fields
    if not classes:
        return 0
    n = 0
    for fn in [f for f in ast.walk(tree) if isinstance(f, (ast.FunctionDef, ast.AsyncFunctionDef))]:
        nstores = {}
        for x in ast.walk(fn):
            if isinstance(x, ast.Name) and isinstance(x.ctx, (ast.Store, ast.Del)):
                nstores[x.id] = nstores.get(x.id, 0) + 1
        params = {a.arg for a in fn.args.posonlyargs + fn.args.args + fn.args.kwonlyargs}
        for a in [x for x in fn.body if isinstance(x, ast.Assign)]:
            if not (len(a.targets) == 1 and isinstance(a.targets[0], ast.Name) and isinstance(a.value, ast.Call) and isinstance(a.value.func, ast.Name) and a.value.func.id in classes):
                continue
            w, c, fields = a.targets[0].id, a.value, classes[a.value.func.id]
            if nstores.get(w) != 1 or w in params or any(isinstance(x, ast.Starred) for x in c.args) or any(k.arg is None for k in c.keywords) or len(c.args) > len(fields):
                continue
            vals = dict(zip([f for f, _ in fields], c.args))
            bad = False
            for k in c.keywords:
                if k.arg in vals or k.arg not in dict(fields):
                    bad = True
                vals[k.arg] = k.value
            for f, d in fields:
                if f not in vals:
                    if d is None or not isinstance(d, ast.Constant):
                        bad = True
                    else:
                        vals[f] = d
            if bad or not all(pure(v) for v in vals.values()):
                continue
            arg_names = {x.id for v in vals.values() for x in ast.walk(v) if isinstance(x, ast.Name)}
            if any((nstores.get(nm, 0) + (1 if nm in params else 0)) > 1 for nm in arg_names) or any(isinstance(x, (ast.Attribute, ast.Subscript)) and isinstance(x.ctx, ast.Store) for x in ast.walk(fn)):
                continue
            loads = [x for x in ast.walk(fn) if isinstance(x, ast.Name) and x.id == w and isinstance(x.ctx, ast.Load)]
            attrs = [x for x in ast.walk(fn) if isinstance(x, ast.Attribute) and isinstance(x.value, ast.Name) and x.value.id == w and isinstance(x.ctx, ast.Load) and x.attr in vals]
            if not loads or len(loads) != len(attrs):
                continue
            if any(isinstance(y, (ast.Lambda, ast.FunctionDef)) and y is not fn and any(z is x for z in ast.walk(y)) for x in loads for y in ast.walk(fn)):
                continue

            class R(ast.NodeTransformer):
                def visit_Attribute(self, node):
                    if isinstance(node.value, ast.Name) and node.value.id == w and isinstance(node.ctx, ast.Load) and node.attr in vals:
                        return ast.copy_location(_clone(vals[node.attr]), node)
                    self.generic_visit(node)
                    return node
            fn.body = [R().visit(b) for b in fn.body if b is not a] or [ast.Pass()]
            n += 1
    if n:
        ast.fix_missing_locations(tree)
    return n


def normalise_jump_thread(tree):
    """an if/elif/else (or try/except) whose branches set a flag-like local v to a constant or to a private sentinel, directly
    followed by `if <test on v>: X [else: Y]` (test: v is None / v is not None / v / not v / v is [not] SENTINEL): the second
    decision is taken at the end of each branch; where v's value is known it is the branch taken outright.  Same statements
    executed in the same order on every path.  A sentinel is a module-level `NAME = object()` bound once that is only ever
    assigned to plain locals, returned, or compared with is / is not: the result of a call is then never that object."""
    n = [0]
    # private sentinels
    sentinels = set()
    for st in tree.body:
        if isinstance(st, ast.Assign) and len(st.targets) == 1 and isinstance(st.targets[0], ast.Name) and isinstance(st.value, ast.Call) \
                and isinstance(st.value.func, ast.Name) and st.value.func.id == "object" and not st.value.args and not st.value.keywords:
            nm = st.targets[0].id
            ok = nm.startswith("_")
            for x in ast.walk(tree):
                if isinstance(x, ast.Name) and x.id == nm and x is not st.targets[0]:
                    par = getattr(x, "_jt_parent", None)
                    ok = ok and isinstance(x.ctx, ast.Load)
            sentinels.add(nm) if ok else None
    if sentinels:
        for node in ast.walk(tree):
            for ch in ast.iter_child_nodes(node):
                ch._jt_parent = node
        for nm in list(sentinels):
            for x in ast.walk(tree):
                if isinstance(x, ast.Name) and x.id == nm and isinstance(x.ctx, ast.Load):
                    par = getattr(x, "_jt_parent", None)
                    fine = (isinstance(par, ast.Assign) and par.value is x and all(isinstance(t_, ast.Name) for t_ in par.targets)) \
                        or (isinstance(par, ast.Compare) and len(par.ops) == 1 and isinstance(par.ops[0], (ast.Is, ast.IsNot))) \
                        or (isinstance(par, ast.Return) and par.value is x)
                    if not fine:
                        sentinels.discard(nm)
        for node in ast.walk(tree):
            if hasattr(node, "_jt_parent"):
                del node._jt_parent
        # a function that still returns the sentinel makes call results suspect
        for nm in list(sentinels):
            if any(isinstance(r, ast.Return) and isinstance(r.value, ast.Name) and r.value.id == nm for r in ast.walk(tree)):
                sentinels.discard(nm)

    def test_var(t):
        neg = False
        while isinstance(t, ast.UnaryOp) and isinstance(t.op, ast.Not):
            t, neg = t.operand, not neg
        if isinstance(t, ast.Name):
            return t.id, ("truthy", None), neg
        if isinstance(t, ast.Compare) and len(t.ops) == 1 and isinstance(t.left, ast.Name) and isinstance(t.ops[0], (ast.Is, ast.IsNot)):
            c = t.comparators[0]
            if isinstance(c, ast.Constant) and c.value is None:
                return t.left.id, ("none", None), neg != isinstance(t.ops[0], ast.IsNot)
            if isinstance(c, ast.Name) and c.id in sentinels:
                return t.left.id, ("sentinel", c.id), neg != isinstance(t.ops[0], ast.IsNot)
        return None

    def small(sts):
        return len(sts) <= 3 and not any(isinstance(x, (ast.For, ast.While, ast.FunctionDef, ast.AsyncFunctionDef, ast.ClassDef, ast.Try, ast.With, ast.Lambda)) for st in sts for x in ast.walk(st))

    def leaves(sts, out, look=None):
        """(list to append to, statements in which v was last bound)"""
        last = sts[-1] if sts else None
        if isinstance(last, ast.If) and last.orelse:
            leaves(last.body, out)
            leaves(last.orelse, out)
        elif isinstance(last, ast.Try) and not last.finalbody and last.handlers:
            for h in last.handlers:
                leaves(h.body, out)
            if last.orelse:
                leaves(last.orelse, out)
            else:
                out.append((last, last.body))  # normal completion of the body: a new else clause
        elif isinstance(last, (ast.While, ast.For)) and last.orelse and _breaks_are_leaf_ends(last.body):
            # the loop is left either through one of its `break`s or through its else clause
            for bl in _break_leaves(last.body):
                out.append((("before-break", bl), bl[:-1]))
            leaves(last.orelse, out)
        else:
            out.append((sts, look if look is not None else sts))

    def known(leaf, v):
        """('jump',) | ('const', value) | ('sentinel', name) | ('call',) | None for the last binding of v in the leaf"""
        if leaf and isinstance(leaf[-1], (ast.Break, ast.Continue, ast.Return, ast.Raise)):
            return ("jump",)
        for st in reversed(leaf):
            if not isinstance(st, (ast.Assign, ast.AugAssign, ast.AnnAssign, ast.Expr, ast.Pass)):
                return None
            stores = [x for x in ast.walk(st) if isinstance(x, ast.Name) and x.id == v and isinstance(x.ctx, (ast.Store, ast.Del))]
            if not stores:
                continue
            if isinstance(st, ast.Assign) and len(st.targets) == 1 and isinstance(st.targets[0], ast.Name):
                if isinstance(st.value, ast.Constant):
                    return ("const", st.value.value)
                if isinstance(st.value, ast.Name) and st.value.id in sentinels:
                    return ("sentinel", st.value.id)
                if isinstance(st.value, ast.Call):
                    return ("call",)
            return None
        return None

    def decide(k, kind, neg):
        """truth of the test for a known binding, or None"""
        what, arg = kind
        truth = None
        if k[0] == "const":
            if what == "none":
                truth = k[1] is None
            elif what == "truthy":
                truth = bool(k[1])
            elif what == "sentinel":
                truth = False  # a literal constant is not the sentinel object
        elif k[0] == "sentinel":
            if what == "sentinel":
                truth = k[1] == arg
            elif what == "none":
                truth = False
            elif what == "truthy":
                truth = True  # a plain object() is truthy
        elif k[0] == "call" and what == "sentinel":
            truth = False  # the sentinel never leaves this module's locals: no call returns it
        if truth is None:
            return None
        return (not truth) if neg else truth

    def _break_leaves(sts):
        out_ = []
        if sts and isinstance(sts[-1], ast.Break):
            out_.append(sts)
        for s_ in sts:
            if isinstance(s_, ast.If):
                out_ += _break_leaves(s_.body) + _break_leaves(s_.orelse)
        return out_

    def _breaks_are_leaf_ends(sts):
        """every break of this loop level is the last statement of an if-branch (or of the body), reached through ifs only"""
        n_br = sum(1 for s_ in sts for x in ([s_] if not isinstance(s_, (ast.For, ast.While, ast.FunctionDef)) else []) for y in ast.walk(x) if isinstance(y, ast.Break)
                   and not any(isinstance(z, (ast.For, ast.While)) and any(w is y for w in ast.walk(z)) for z in ast.walk(x) if z is not x or isinstance(x, (ast.For, ast.While))))
        return n_br == len(_break_leaves(sts)) and n_br >= 1 and not any(isinstance(x, (ast.Try, ast.With)) and any(isinstance(y, ast.Break) for y in ast.walk(x)) for s_ in sts for x in ast.walk(s_))

    def run(sts):
        i = 0
        while i + 1 < len(sts):
            a, b = sts[i], sts[i + 1]
            i += 1
            if isinstance(a, ast.If) and not a.orelse and isinstance(b, ast.If) and isinstance(a.test, ast.Name) and isinstance(b.test, ast.Name) and a.test.id == b.test.id \
                    and not any(isinstance(x, ast.Name) and x.id == a.test.id and isinstance(x.ctx, (ast.Store, ast.Del)) for st_ in a.body for x in ast.walk(st_)) \
                    and not any(isinstance(x, (ast.Nonlocal, ast.Global)) for x in ast.walk(tree) if a.test.id in getattr(x, "names", ())):
                # `if v: A` then `if v: B else: C` with v a local that A leaves alone: one decision
                a.body = a.body + b.body
                a.orelse = b.orelse
                del sts[i]
                i -= 1
                n[0] += 1
                continue
            if not ((isinstance(a, ast.If) and a.orelse) or (isinstance(a, ast.Try) and not a.finalbody and a.handlers)
                    or (isinstance(a, (ast.While, ast.For)) and a.orelse)) or not isinstance(b, ast.If):
                continue
            tv = test_var(b.test)
            if tv is None or not small(b.body) or not small(b.orelse):
                continue
            v, kind, neg = tv
            lv = []
            leaves([a], lv)
            ks = [known(look, v) for _tgt, look in lv]
            ds = [decide(k, kind, neg) if k is not None and k[0] != "jump" else None for k in ks]
            if not any(d is not None for d in ds) or len(lv) > 6:
                continue
            # code put in front of a loop's `break` runs inside that loop: only when it is decided and has no jump of its own
            blocked = False
            for (tgt, _look), k, d in zip(lv, ks, ds):
                if isinstance(tgt, tuple) and tgt[0] == "before-break":
                    add_ = (b.body if d else b.orelse) if d is not None else None
                    if add_ is None or any(isinstance(x, (ast.Break, ast.Continue)) for s_ in add_ for x in ast.walk(s_)):
                        blocked = True
            if blocked:
                continue
            for (tgt, _look), k, d in zip(lv, ks, ds):
                if k is not None and k[0] == "jump":
                    continue
                add = [_clone(x) for x in (b.body if d else b.orelse)] if d is not None else [_clone(b)]
                if isinstance(tgt, ast.Try):
                    tgt.orelse = add  # (an empty else clause is no else clause)
                elif isinstance(tgt, tuple) and tgt[0] == "before-break":
                    tgt[1][-1:-1] = add
                else:
                    tgt.extend(add)
            del sts[i]
            i -= 1
            n[0] += 1

    for node in ast.walk(tree):
        for field in ("body", "orelse", "finalbody"):
            sts = getattr(node, field, None)
            if isinstance(sts, list) and sts and isinstance(sts[0], ast.stmt):
                run(sts)
        if isinstance(node, ast.Try):
            for h in node.handlers:
                run(h.body)
    if n[0]:
        ast.fix_missing_locations(tree)
    return n[0]


def normalise_loop_fusion(tree):
    """`while True: <while C: B.. (some if-branches end in `break`) else: break>; R` is the single loop `while C: B..` with R put in
    place of each of those `break`s: the inner scan resumes exactly where the outer loop would have restarted it, and the
    outer loop ends exactly when C fails.  (R without break / continue; the inner loop's else clause is the bare `break`.)"""
    n = [0]

    def leaves_(sts, acc):
        if sts and isinstance(sts[-1], ast.Break):
            acc.append(sts)
        for s_ in sts:
            if isinstance(s_, ast.If):
                leaves_(s_.body, acc)
                leaves_(s_.orelse, acc)

    for node in ast.walk(tree):
        for field in ("body", "orelse", "finalbody"):
            sts = getattr(node, field, None)
            if not isinstance(sts, list):
                continue
            for k, w in enumerate(sts):
                if not (isinstance(w, ast.While) and isinstance(w.test, ast.Constant) and w.test.value is True and not w.orelse and w.body):
                    continue
                inner = w.body[0]
                rest = w.body[1:]
                if not (isinstance(inner, ast.While) and len(inner.orelse) >= 1 and isinstance(inner.orelse[-1], ast.Break)
                        and all(isinstance(x, (ast.Assign, ast.Pass)) and all(isinstance(t_, ast.Name) for t_ in getattr(x, "targets", [])) and isinstance(getattr(x, "value", ast.Constant(value=0)), ast.Constant)
                                for x in inner.orelse[:-1])):
                    continue
                if any(isinstance(x, (ast.Break, ast.Continue, ast.Return)) for s_ in rest for x in ast.walk(s_)) and any(isinstance(x, (ast.Break, ast.Continue)) for s_ in rest for x in ast.walk(s_)):
                    continue
                acc = []
                leaves_(inner.body, acc)
                total_breaks = sum(1 for s_ in inner.body for x in ast.walk(s_) if isinstance(x, ast.Break)
                                   and not any(isinstance(z, (ast.For, ast.While)) and any(q is x for q in ast.walk(z)) for z in ast.walk(s_)))
                if not acc or total_breaks != len(acc) or any(isinstance(x, (ast.Try, ast.With, ast.For, ast.While)) and any(isinstance(y, ast.Break) for y in ast.walk(x)) for s_ in inner.body for x in ast.walk(s_)):
                    continue
                # constants set on the way out (flags) are dead once the loops are one: they were only read by the decision that is now taken in place
                flags = {t_.id for x in inner.orelse[:-1] for t_ in getattr(x, "targets", [])}
                outside_reads = [x for x in ast.walk(tree) if isinstance(x, ast.Name) and x.id in flags and isinstance(x.ctx, ast.Load)]
                if outside_reads:
                    continue
                for lf in acc:
                    lf[-1:] = [_clone(x) for x in rest] or [ast.Pass()]
                fused = ast.While(test=inner.test, body=inner.body, orelse=[])
                ast.copy_location(fused, w)
                sts[k] = fused
                n[0] += 1
    if n[0]:
        ast.fix_missing_locations(tree)
    return n[0]


def normalise_map_lambda(tree):
    """`any(map(lambda v: E, S))` / `all(..)` is `any((E for v in S))`: S is evaluated once before the first element either way and
    E is evaluated per element, lazily, in order"""
    n = [0]

    class R(ast.NodeTransformer):
        def visit_Call(self, node):
            self.generic_visit(node)
            if isinstance(node.func, ast.Name) and node.func.id in ("any", "all") and len(node.args) == 1 and not node.keywords:
                m = node.args[0]
                if isinstance(m, ast.Call) and isinstance(m.func, ast.Name) and m.func.id == "map" and len(m.args) == 2 and not m.keywords \
                        and isinstance(m.args[0], ast.Lambda) and not any(isinstance(a_, ast.Starred) for a_ in m.args):
                    lam = m.args[0]
                    a = lam.args
                    if len(a.args) == 1 and not (a.posonlyargs or a.kwonlyargs or a.vararg or a.kwarg or a.defaults) \
                            and not any(isinstance(x, (ast.Yield, ast.YieldFrom, ast.Await, ast.NamedExpr)) for x in ast.walk(lam.body)):
                        gen = ast.GeneratorExp(elt=lam.body, generators=[ast.comprehension(target=ast.Name(id=a.args[0].arg, ctx=ast.Store()), iter=m.args[1], ifs=[], is_async=0)])
                        node.args = [ast.copy_location(gen, m)]
                        n[0] += 1
            return node

    R().visit(tree)
    if n[0]:
        ast.fix_missing_locations(tree)
    return n[0]


def normalise_local_consts(tree):
    """a local bound once, at the top level of its function, to a constant expression - literals, ALL-CAPS names (constants of the
    package, never bound inside the function) and arithmetic over them - stands for that expression: written in at every read.
    (Evaluating it again gives the same value; nothing is evaluated in a different order that could have an effect.)"""
    import re as _re
    n = 0
    for fn in [f for f in ast.walk(tree) if isinstance(f, (ast.FunctionDef, ast.AsyncFunctionDef))]:
        stores = {}
        for x in ast.walk(fn):
            if isinstance(x, ast.Name) and isinstance(x.ctx, (ast.Store, ast.Del)):
                stores[x.id] = stores.get(x.id, 0) + 1
            elif isinstance(x, ast.arg):
                stores[x.arg] = stores.get(x.arg, 0) + 1
            elif isinstance(x, (ast.Global, ast.Nonlocal)):
                for nm in x.names:
                    stores[nm] = stores.get(nm, 0) + 2
        if any(isinstance(x, (ast.FunctionDef, ast.AsyncFunctionDef, ast.Lambda, ast.ClassDef)) and x is not fn for x in ast.walk(fn)):
            continue  # closures may read the local later: left alone

        def const_expr(e, known):
            if isinstance(e, ast.Constant):
                return isinstance(e.value, (int, float)) and not isinstance(e.value, bool)
            if isinstance(e, ast.Name):
                return (bool(_re.fullmatch(r"[A-Z][A-Z0-9_]*", e.id)) and e.id not in stores) or e.id in known
            if isinstance(e, ast.BinOp) and isinstance(e.op, (ast.Add, ast.Sub, ast.Mult, ast.FloorDiv)):
                return const_expr(e.left, known) and const_expr(e.right, known)
            if isinstance(e, ast.UnaryOp) and isinstance(e.op, (ast.USub, ast.UAdd)):
                return const_expr(e.operand, known)
            return False
        known = {}
        for st in fn.body:
            if isinstance(st, ast.Assign) and len(st.targets) == 1 and isinstance(st.targets[0], ast.Name) and stores.get(st.targets[0].id) == 1 \
                    and not _re.fullmatch(r"[A-Z][A-Z0-9_]*", st.targets[0].id) and const_expr(st.value, known):
                known[st.targets[0].id] = st.value
        if not known:
            continue
        # only worth it when one of them stands for a named constant of the package (a plain `i = 0` is left alone)
        if not any(isinstance(x, ast.Name) for v in known.values() for x in ast.walk(v)):
            continue

        def expand(e, depth=0):
            class S(ast.NodeTransformer):
                def visit_Name(self, node):
                    if isinstance(node.ctx, ast.Load) and node.id in known and depth < 6:
                        return ast.copy_location(expand(_clone(known[node.id]), depth + 1), node)
                    return node
            return S().visit(e)
        new_body = []
        for st in fn.body:
            if isinstance(st, ast.Assign) and len(st.targets) == 1 and isinstance(st.targets[0], ast.Name) and st.targets[0].id in known and st.value is known[st.targets[0].id]:
                n += 1
                continue
            new_body.append(expand(st))
        fn.body = new_body or [ast.Pass()]
    if n:
        ast.fix_missing_locations(tree)
    return n


def normalise_return_sinking(tree):
    """a function that ends in `while True:` (no else) whose every exit is `return E` with one and the same side-effect-free E, all at
    loop level (through ifs only): the returns are `break`s and `return E` follows the loop (E is evaluated in the same state)"""
    n = 0
    for fn in [f for f in ast.walk(tree) if isinstance(f, (ast.FunctionDef, ast.AsyncFunctionDef))]:
        if not fn.body or not isinstance(fn.body[-1], ast.While):
            continue
        w = fn.body[-1]
        if not (isinstance(w.test, ast.Constant) and w.test.value is True) or w.orelse:
            continue
        rets = []

        def collect(sts):
            for st in sts:
                if isinstance(st, ast.Return):
                    rets.append((sts, st))
                elif isinstance(st, ast.If):
                    collect(st.body)
                    collect(st.orelse)
        collect(w.body)
        all_rets = [x for x in ast.walk(w) if isinstance(x, ast.Return)]
        if not rets or len(all_rets) != len(rets) or any(isinstance(x, (ast.Break, ast.Yield, ast.YieldFrom)) for x in ast.walk(w)):
            continue
        if any(r.value is None or not pure(r.value) for _l, r in rets) or len({ast.dump(r.value) for _l, r in rets}) != 1:
            continue
        final = ast.copy_location(ast.Return(value=_clone(rets[0][1].value)), rets[-1][1])
        for lst, r in rets:
            lst[lst.index(r)] = ast.copy_location(ast.Break(), r)
        fn.body.append(final)
        n += 1
    if n:
        ast.fix_missing_locations(tree)
    return n


def normalise_and_if(tree):
    """`if A and B: S` without an else branch is `if A: if B: S` (the operands are evaluated in the same order and S runs
    exactly when all of them are true); path-based rules then see one decision per operand"""
    n = 0
    for node in ast.walk(tree):
        if isinstance(node, ast.If) and not node.orelse and isinstance(node.test, ast.BoolOp) and isinstance(node.test.op, ast.And) and len(node.test.values) >= 2:
            vals = node.test.values
            inner = node.body
            for v in reversed(vals[1:]):
                nif = ast.If(test=v, body=inner, orelse=[])
                ast.copy_location(nif, v)
                inner = [nif]
            node.test = vals[0]
            node.body = inner
            n += 1
    if n:
        ast.fix_missing_locations(tree)
    return n


def normalise_module_unpack(tree):
    """module level `A, B, C = T` where T is a literal tuple of constants, or a (once bound) name for one, or the
    construction `NT(c0, c1, ..)` of a typing.NamedTuple class of this module (iterating it yields the fields in
    declaration order): the individual bindings `A = c0; B = c1; ..`"""
    binds, classes = {}, {}
    for st in tree.body:
        if isinstance(st, ast.Assign):
            for t in st.targets:
                for n in ast.walk(t):
                    if isinstance(n, ast.Name):
                        binds.setdefault(n.id, []).append(st.value if t is n else None)
        elif isinstance(st, ast.AnnAssign) and isinstance(st.target, ast.Name):
            binds.setdefault(st.target.id, []).append(st.value)
        elif isinstance(st, ast.ClassDef):
            classes.setdefault(st.name, []).append(st)
            binds.setdefault(st.name, []).append(None)
        elif isinstance(st, (ast.FunctionDef, ast.AsyncFunctionDef)):
            binds.setdefault(st.name, []).append(None)
    nested_store = {n.id for st in tree.body if not isinstance(st, (ast.Assign, ast.AnnAssign)) for n in ast.walk(st)
                    if isinstance(n, ast.Name) and isinstance(n.ctx, ast.Store) and isinstance(st, (ast.If, ast.Try, ast.For, ast.While, ast.With))}
    glob = {x for n in ast.walk(tree) if isinstance(n, ast.Global) for x in n.names}

    def once(name):
        return len(binds.get(name, [])) == 1 and name not in nested_store and name not in glob

    def const(e):
        return isinstance(e, ast.Constant) or (isinstance(e, ast.UnaryOp) and isinstance(e.op, (ast.USub, ast.UAdd)) and isinstance(e.operand, ast.Constant))

    def nt_fields(cls):
        if len(cls.bases) != 1 or cls.keywords or cls.decorator_list:
            return None
        b = cls.bases[0]
        if not ((isinstance(b, ast.Name) and b.id == "NamedTuple") or (isinstance(b, ast.Attribute) and b.attr == "NamedTuple" and isinstance(b.value, ast.Name) and b.value.id == "typing")):
            return None
        fields = []
        for st in cls.body:
            if isinstance(st, ast.AnnAssign) and isinstance(st.target, ast.Name):
                fields.append((st.target.id, st.value))
            elif isinstance(st, (ast.FunctionDef, ast.Pass)) or (isinstance(st, ast.Expr) and isinstance(st.value, ast.Constant)):
                if isinstance(st, ast.FunctionDef) and st.name in ("__new__", "__iter__", "__init__"):
                    return None
            else:
                return None
        return fields

    def elems(e, depth=0):
        if isinstance(e, ast.Tuple) and all(const(x) for x in e.elts):
            return list(e.elts)
        if isinstance(e, ast.Name) and depth < 3 and once(e.id) and binds[e.id][0] is not None:
            return elems(binds[e.id][0], depth + 1)
        if isinstance(e, ast.Call) and isinstance(e.func, ast.Name) and e.func.id in classes and once(e.func.id) \
                and not any(isinstance(a, ast.Starred) for a in e.args) and all(k.arg for k in e.keywords):
            fields = nt_fields(classes[e.func.id][0])
            if fields is None or len(e.args) > len(fields):
                return None
            vals = dict(zip([f for f, _ in fields], e.args))
            for k in e.keywords:
                if k.arg in vals or k.arg not in dict(fields):
                    return None
                vals[k.arg] = k.value
            out = []
            for f, d in fields:
                v = vals.get(f, d)
                if v is None or not const(v):
                    return None
                out.append(v)
            return out
        return None

    cnt = 0
    out = []
    for st in tree.body:
        if isinstance(st, ast.Assign) and len(st.targets) == 1 and isinstance(st.targets[0], (ast.Tuple, ast.List)) \
                and all(isinstance(t, ast.Name) for t in st.targets[0].elts) and len({t.id for t in st.targets[0].elts}) == len(st.targets[0].elts):
            vs = elems(st.value)
            if vs is not None and len(vs) == len(st.targets[0].elts):
                for t, v in zip(st.targets[0].elts, vs):
                    a = ast.Assign(targets=[ast.Name(id=t.id, ctx=ast.Store())], value=_clone(v))
                    ast.copy_location(a, st)
                    ast.fix_missing_locations(a)
                    out.append(a)
                cnt += 1
                continue
        out.append(st)
    if cnt:
        tree.body = out
    return cnt


def normalise_renamed(tree):
    """construct's `Renamed(X, newname="n")` / `Renamed(X, "n")` is what `"n" / X` evaluates to (Construct.__rtruediv__
    with a str): spell it as the division the declarations use"""
    imp = False
    for st in tree.body:
        if isinstance(st, ast.ImportFrom) and st.module in ("construct", "construct.core") and any(a.name == "Renamed" and a.asname is None for a in st.names):
            imp = True
    if not imp:
        return 0
    for n in ast.walk(tree):
        if isinstance(n, (ast.FunctionDef, ast.ClassDef)) and n.name == "Renamed":
            return 0
        if isinstance(n, ast.Name) and n.id == "Renamed" and isinstance(n.ctx, ast.Store):
            return 0
    cnt = [0]

    class R(ast.NodeTransformer):
        def visit_Call(self, node):
            self.generic_visit(node)
            if isinstance(node.func, ast.Name) and node.func.id == "Renamed" and not any(isinstance(a, ast.Starred) for a in node.args):
                kws = {k.arg: k.value for k in node.keywords}
                if None in kws or set(kws) - {"newname"}:
                    return node
                name = kws.get("newname")
                if name is None and len(node.args) == 2:
                    sub, name = node.args
                elif name is not None and len(node.args) == 1:
                    sub = node.args[0]
                else:
                    return node
                if isinstance(name, ast.Constant) and isinstance(name.value, str):
                    cnt[0] += 1
                    return ast.copy_location(ast.BinOp(left=name, op=ast.Div(), right=sub), node)
            return node

    R().visit(tree)
    if cnt[0]:
        ast.fix_missing_locations(tree)
    return cnt[0]


def normalise_private_bases(trees, inv):
    """a new private class B(X) (not in the pinned inventory) whose only use in the whole program is as the single base of one class
    C(B) of the same module, with no name defined in both bodies: C(X) with B's body in front of its own is the same class as far
    as instances of C go (same attributes found in the same order, `super()` inside either body still continues at X)."""
    n = {}
    for path, tree in trees.items():
        known = inv.get(path)
        if known is None:
            continue
        changed = True
        while changed:
            changed = False
            classes = [c for c in tree.body if isinstance(c, ast.ClassDef)]
            for b in classes:
                if b.name in known or not b.name.startswith("_") or b.decorator_list or b.keywords or len(b.bases) != 1:
                    continue
                refs = 0
                for t2 in trees.values():
                    for x in ast.walk(t2):
                        if (isinstance(x, ast.Name) and x.id == b.name) or (isinstance(x, ast.Attribute) and x.attr == b.name) \
                                or (isinstance(x, ast.alias) and x.name == b.name) or (isinstance(x, ast.Constant) and x.value == b.name):
                            refs += 1
                subs = [c for c in classes if c is not b and any(isinstance(x, ast.Name) and x.id == b.name for x in c.bases)]
                if refs != 1 or len(subs) != 1:
                    continue
                c = subs[0]
                if len(c.bases) != 1 or c.keywords or tree.body.index(c) < tree.body.index(b):
                    continue

                def names(cls):
                    out = set()
                    for st in cls.body:
                        if isinstance(st, (ast.FunctionDef, ast.AsyncFunctionDef, ast.ClassDef)):
                            out.add(st.name)
                        else:
                            out |= {x.id for x in ast.walk(st) if isinstance(x, ast.Name) and isinstance(x.ctx, ast.Store)}
                    return out
                both = names(b) & names(c)
                if both:
                    # a method of B that C overrides is never reached through an instance of C - unless C asks for it via super()
                    fb = {st.name for st in b.body if isinstance(st, ast.FunctionDef)}
                    fc = {st.name for st in c.body if isinstance(st, ast.FunctionDef)}
                    sup = {x.attr for x in ast.walk(c) if isinstance(x, ast.Attribute) and isinstance(x.value, ast.Call) and isinstance(x.value.func, ast.Name)
                           and x.value.func.id == "super"}
                    if not (both <= fb and both <= fc) or (both & sup) or any(isinstance(x, ast.Name) and x.id == "super" and not isinstance(getattr(x, "ctx", None), ast.Load)
                                                                              for x in ast.walk(c)):
                        continue
                    b.body = [st for st in b.body if not (isinstance(st, ast.FunctionDef) and st.name in both)] or [ast.Pass()]
                # explicit two-argument super(B, self) / references to __class__ would change meaning
                if any(isinstance(x, ast.Name) and x.id == "__class__" for x in ast.walk(b)):
                    continue
                doc = lambda st: isinstance(st, ast.Expr) and isinstance(st.value, ast.Constant) and isinstance(st.value.value, str)  # noqa: E731
                bb = [st for st in b.body if not isinstance(st, ast.Pass) and not doc(st)]
                cb = [st for st in c.body if not isinstance(st, ast.Pass)]
                c.body = (cb[:1] if cb and doc(cb[0]) else []) + bb + (cb[1:] if cb and doc(cb[0]) else cb) or [ast.Pass()]
                c.bases = b.bases
                tree.body.remove(b)
                n[path] = n.get(path, 0) + 1
                changed = True
                break
        if path in n:
            ast.fix_missing_locations(tree)
    return n


def normalise_program(trees):
    """trees: path -> ast.Module (mutated in place).  Returns {path: number of inlined call sites}."""
    reshaped = {}
    inv_pb = inventory()
    if inv_pb:
        for path_, k_ in normalise_private_bases(trees, inv_pb).items():
            reshaped[path_] = reshaped.get(path_, 0) + k_
    for path, tree in trees.items():
        n_ = normalise_match(tree)
        n_ += normalise_walrus(tree)
        n_ += normalise_suppress(tree)
        n_ += normalise_return_sinking(tree)
        n_ += normalise_local_consts(tree)
        n_ += normalise_module_unpack(tree)
        n_ += normalise_straight_factories(tree)
        n_ += normalise_count_loops(tree)
        n_ += normalise_search_loops(tree)
        n_ += normalise_reduce(tree)
        n_ += normalise_next_loops(tree)
        n_ += normalise_loops(tree)
        k_ = normalise_ifexp(tree)
        while k_:
            n_ += k_
            k_ = normalise_ifexp(tree)
        n_ += normalise_shortcircuit(tree)
        n_ += normalise_chain_loops(tree)
        n_ += normalise_table_unroll(tree)
        n_ += normalise_try_getattr(tree)
        n_ += normalise_enumerate_live(tree)
        n_ += normalise_comp_ifexp(tree)
        if n_:
            reshaped[path] = n_
    inv0 = inventory()
    if inv0:
        for path, tree in trees.items():
            known0 = inv0.get(path)
            if known0 is None:
                kr_ = normalise_renamed(tree)
                if kr_:
                    reshaped[path] = reshaped.get(path, 0) + kr_
                continue
            for x_ in ast.walk(tree):
                for ch_ in ast.iter_child_nodes(x_):
                    ch_._parent = x_
            k_ = normalise_class_consts(tree, set(known0), [t2 for p2, t2 in trees.items() if p2 != path])
            k_ += normalise_new_consts(tree, set(known0))
            k_ += normalise_record_consts(tree, set(known0))
            k_ += normalise_partial(tree, set(known0))
            k_ += normalise_local_lambdas(tree, set(known0))
            k_ += normalise_local_procs(tree, set(known0))
            k_ += normalise_value_functions(tree, set(known0))
            for x_ in ast.walk(tree):
                if hasattr(x_, "_parent"):
                    del x_._parent
            k_ += normalise_renamed(tree)
            if k_:
                reshaped[path] = reshaped.get(path, 0) + k_
    inv = inventory()
    if not inv:
        return reshaped
    # program-wide method name census (a method helper must have a unique name)
    method_names = {}
    for path, tree in trees.items():
        for cls in [n for n in ast.walk(tree) if isinstance(n, ast.ClassDef)]:
            for st in cls.body:
                if isinstance(st, (ast.FunctionDef, ast.AsyncFunctionDef)):
                    method_names[st.name] = method_names.get(st.name, 0) + 1
    stats = {}
    for path, tree in trees.items():
        known = inv.get(path)
        if known is None:
            continue
        helpers, methods = {}, {}
        gens, gen_methods = {}, {}
        for st in tree.body:
            if isinstance(st, ast.FunctionDef) and st.name not in known:
                g_ = _gen_candidate(st, None)
                if g_ is not None:
                    gens[st.name] = g_
            elif isinstance(st, ast.ClassDef):
                for m in st.body:
                    if isinstance(m, ast.FunctionDef) and f"{st.name}.{m.name}" not in known and method_names.get(m.name) == 1 \
                            and not (m.name.startswith("__") and m.name.endswith("__")):
                        g_ = _gen_candidate(m, st)
                        if g_ is not None:
                            gen_methods[(st.name, m.name)] = g_
        gen_total = 0
        if gens or gen_methods:
            gi = GenInliner(gens, gen_methods)
            tree.body = gi.run_body(tree.body, None, set())
            gen_total = gi.count
        for st in tree.body:
            if isinstance(st, ast.FunctionDef) and st.name not in known:
                h = _candidate(st, None)
                if h is not None:
                    helpers[st.name] = h
            elif isinstance(st, ast.ClassDef):
                for m in st.body:
                    if isinstance(m, ast.FunctionDef) and f"{st.name}.{m.name}" not in known and method_names.get(m.name) == 1 \
                            and not (m.name.startswith("__") and m.name.endswith("__")):
                        h = _candidate(m, st)
                        if h is not None:
                            methods[(st.name, m.name)] = h
        if not helpers and not methods and not gen_total:
            continue
        total = gen_total
        for _round in range(4):
            inl = Inliner(helpers, methods)
            inl.run_module(tree)
            total += inl.count
            if not inl.count:
                break
            # helpers may have been rewritten (nested helper calls): rebuild their tail forms
            for name, h in list(helpers.items()):
                nh = _candidate(h.fn, None)
                if nh is None:
                    helpers.pop(name)
                else:
                    helpers[name] = nh
            for key, h in list(methods.items()):
                nh = _candidate(h.fn, h.cls)
                if nh is None:
                    methods.pop(key)
                else:
                    methods[key] = nh
        if total:
            # a new private helper that is no longer referenced anywhere (fully folded into its callers) is dropped, so that
            # whole-program rules see the code where the pinned tree has it
            imported = set()
            for p2, t2 in trees.items():
                if p2 == path:
                    continue
                for n in ast.walk(t2):
                    if isinstance(n, ast.ImportFrom):
                        imported |= {a.name for a in n.names}
                    elif isinstance(n, ast.Attribute):
                        imported.add(n.attr)
            cand = {h.fn for h in list(helpers.values()) + list(methods.values()) + list(gens.values()) + list(gen_methods.values())}
            for fn_ in cand:
                nm = fn_.name
                if not nm.startswith("_") or nm in imported:
                    continue
                refs = 0
                for n in ast.walk(tree):
                    if n is fn_:
                        continue
                    if isinstance(n, ast.Name) and n.id == nm:
                        refs += 1
                    elif isinstance(n, ast.Attribute) and n.attr == nm:
                        refs += 1
                inside = sum(1 for n in ast.walk(fn_) if (isinstance(n, ast.Name) and n.id == nm) or (isinstance(n, ast.Attribute) and n.attr == nm))
                if refs - inside == 0:
                    for holder in ast.walk(tree):
                        body = getattr(holder, "body", None)
                        if isinstance(body, list) and fn_ in body:
                            body.remove(fn_)
                            if not body:
                                body.append(ast.Pass())
        ast.fix_missing_locations(tree)
        if total:
            stats[path] = total
            # the expansions may themselves contain the shapes the reshaping passes normalise
            normalise_count_loops(tree)
            normalise_reduce(tree)
            normalise_loops(tree)
            while normalise_ifexp(tree):
                pass
            normalise_shortcircuit(tree)
            normalise_table_unroll(tree)
            normalise_try_getattr(tree)
            normalise_dict_build(tree, known)
            normalise_local_records(tree, known)
            normalise_jump_thread(tree)
            normalise_loop_fusion(tree)
            ast.fix_missing_locations(tree)
    for path, tree in trees.items():
        if path in stats and normalise_renamed(tree):
            ast.fix_missing_locations(tree)
        normalise_map_lambda(tree)
    for path, n_ in reshaped.items():
        stats[path] = stats.get(path, 0) + n_
    return stats
