"""Closed evaluator for literal module-level initialisers (never calls repo code;
single-return repo helpers with constant arguments are interpreted symbolically)."""
import ast
from fractions import Fraction


_STRING_CONSTS = {"ascii_uppercase": "ABCDEFGHIJKLMNOPQRSTUVWXYZ", "ascii_lowercase": "abcdefghijklmnopqrstuvwxyz", "digits": "0123456789",
                  "ascii_letters": "abcdefghijklmnopqrstuvwxyzABCDEFGHIJKLMNOPQRSTUVWXYZ", "hexdigits": "0123456789abcdefABCDEF", "octdigits": "01234567"}


class NotConst(Exception):
    pass


class EnumVal:
    __slots__ = ("cls", "name", "value")

    def __init__(self, cls, name, value):
        self.cls, self.name, self.value = cls, name, value

    def __eq__(self, o):
        return isinstance(o, EnumVal) and (self.cls, self.name) == (o.cls, o.name)

    def __hash__(self):
        return hash((self.cls, self.name))

    def __repr__(self):
        return f"{self.cls}.{self.name}"

    def __int__(self):
        return int(self.value)


class StructVal:
    """value of struct.Struct(<constant format>)"""

    def __init__(self, fmt):
        self.fmt = fmt

    def __repr__(self):
        return f"struct.Struct({self.fmt!r})"


class RegexVal:
    """value of re.compile(pattern, flags) with both folded"""

    def __init__(self, pattern, flags):
        self.pattern, self.flags = pattern, int(flags)
        # global inline flags written at the head of the pattern ("(?i)...") are flags of the compiled regex
        try:
            import re as _re
            import re._parser as _sp
            st_ = _sp.parse(pattern, self.flags).state.flags
            self.flags |= st_ & (_re.I | _re.M | _re.S | _re.X | _re.A)
        except Exception:
            pass

    def __repr__(self):
        return f"re.compile({self.pattern!r}, {self.flags})"


_RE_FLAGS = ("I", "IGNORECASE", "M", "MULTILINE", "S", "DOTALL", "X", "VERBOSE", "A", "ASCII", "U", "UNICODE", "L", "LOCALE")


class LambdaVal:
    def __init__(self, node, mod):
        self.node, self.mod = node, mod


class Folder:
    def __init__(self, prog):
        self.prog = prog
        self._enum_cache = {}

    # ------------------------------------------------------------------ enums
    def enum_members(self, cls):
        """ordered dict name -> value for an enum class (IntEnum/Enum), else None"""
        key = id(cls)
        if key in self._enum_cache:
            return self._enum_cache[key]
        is_enum = False
        for b in cls.bases:
            t = ast.unparse(b)
            if t.split(".")[-1] in ("IntEnum", "Enum", "IntFlag", "Flag"):
                is_enum = True
        if not is_enum:
            self._enum_cache[key] = None
            return None
        members = {}
        auto = 0
        for st in cls.body:
            if isinstance(st, ast.Assign) and len(st.targets) == 1 and isinstance(st.targets[0], ast.Name):
                nm = st.targets[0].id
                v = st.value
                if isinstance(v, ast.Call) and ast.unparse(v.func) in ("enum.auto", "auto"):
                    auto += 1
                    members[nm] = auto
                else:
                    try:
                        val = self.ev(v, cls._module)
                    except NotConst:
                        continue
                    members[nm] = val
                    if isinstance(val, int):
                        auto = val
        self._enum_cache[key] = members
        return members

    # ------------------------------------------------------------------ names
    def name(self, mod, name, depth=0):
        r = self.prog.resolve(mod, name)
        if r is None:
            raise NotConst(f"unbound {name}")
        if r[0] == "assign":
            return self.ev(r[1], r[2], depth + 1)
        if r[0] == "class":
            return ("class", r[1])
        if r[0] == "func":
            return ("func", r[1])
        raise NotConst(f"{name} is {r[0]}")

    def const_of(self, mod):
        def f(name):
            try:
                v = self.name(mod, name)
            except NotConst:
                raise KeyError(name)
            if isinstance(v, (int, float, Fraction, bool)):
                return v
            if isinstance(v, EnumVal) and isinstance(v.value, int):
                return v.value
            if isinstance(v, (str, bytes)) and len(v) <= 64:
                return v
            raise KeyError(name)

        f.mod = mod
        return f

    # ------------------------------------------------------------ expressions
    def ev(self, node, mod, depth=0, local=None):
        if depth > 40:
            raise NotConst("depth")
        local = local or {}
        ev = lambda n: self.ev(n, mod, depth + 1, local)
        if isinstance(node, ast.Constant):
            return node.value
        if isinstance(node, ast.Name):
            if node.id in local:
                return local[node.id]
            if node.id in ("True", "False", "None"):
                return {"True": True, "False": False, "None": None}[node.id]
            return self.name(mod, node.id, depth)
        if isinstance(node, ast.Tuple):
            return tuple(ev(e) for e in node.elts)
        if isinstance(node, ast.List):
            return [ev(e) for e in node.elts]
        if isinstance(node, ast.Set):
            return {ev(e) for e in node.elts}
        if isinstance(node, ast.Dict):
            out = {}
            for k, v in zip(node.keys, node.values):
                if k is None:
                    raise NotConst("dict unpack")
                out[ev(k)] = ev(v)
            return out
        if isinstance(node, ast.UnaryOp):
            v = ev(node.operand)
            if isinstance(node.op, ast.USub):
                return -v
            if isinstance(node.op, ast.UAdd):
                return +v
            if isinstance(node.op, ast.Not):
                return not v
            if isinstance(node.op, ast.Invert):
                return ~v
        if isinstance(node, ast.BinOp):
            a, b = ev(node.left), ev(node.right)
            if isinstance(a, EnumVal):
                a = a.value
            if isinstance(b, EnumVal):
                b = b.value
            try:
                op = node.op
                if isinstance(op, ast.Add):
                    return a + b
                if isinstance(op, ast.Sub):
                    return a - b
                if isinstance(op, ast.Mult):
                    return a * b
                if isinstance(op, ast.Div):
                    if isinstance(a, int) and isinstance(b, int):
                        return Fraction(a, b)
                    return a / b
                if isinstance(op, ast.FloorDiv):
                    return a // b
                if isinstance(op, ast.Mod):
                    return a % b
                if isinstance(op, ast.LShift):
                    return a << b
                if isinstance(op, ast.RShift):
                    return a >> b
                if isinstance(op, ast.BitAnd):
                    return a & b
                if isinstance(op, ast.BitOr):
                    return a | b
                if isinstance(op, ast.BitXor):
                    return a ^ b
                if isinstance(op, ast.Pow):
                    return a ** b
            except Exception as e:
                raise NotConst(f"binop failed: {e}")
        if isinstance(node, ast.Attribute):
            if isinstance(node.value, ast.Name) and node.value.id == "re" and node.attr in _RE_FLAGS:
                import re as _re
                return int(getattr(_re, node.attr))
            if isinstance(node.value, ast.Name) and node.attr in _STRING_CONSTS:
                # string.ascii_uppercase etc.: fixed by the language (the name must be the imported stdlib module)
                r_ = None
                try:
                    r_ = self.prog.resolve(mod, node.value.id)
                except Exception:
                    r_ = None
                if r_ is not None and r_[0] in ("ext", "import", "module") and (str(r_[1]) == "string" or str(r_[1]).endswith(".string") or str(r_[1]) == "string." ):
                    return _STRING_CONSTS[node.attr]
                if r_ is not None and r_[0] == "ext" and "string" in str(r_[1:]):
                    return _STRING_CONSTS[node.attr]
            # Enum member: Cls.MEMBER
            if isinstance(node.value, ast.Name):
                try:
                    base = self.name(mod, node.value.id, depth)
                except NotConst:
                    base = None
                if isinstance(base, tuple) and base[0] == "class":
                    mem = self.enum_members(base[1])
                    if mem is not None and node.attr in mem:
                        return EnumVal(base[1].name, node.attr, mem[node.attr])
                    # class-level constant
                    for st in base[1].body:
                        if isinstance(st, ast.Assign) and any(isinstance(t, ast.Name) and t.id == node.attr for t in st.targets):
                            return self.ev(st.value, base[1]._module, depth + 1)
                        if isinstance(st, ast.AnnAssign) and isinstance(st.target, ast.Name) and st.target.id == node.attr and st.value is not None:
                            return self.ev(st.value, base[1]._module, depth + 1)
            v = ev(node.value)
            if isinstance(v, EnumVal) and node.attr == "value":
                return v.value
            if isinstance(v, EnumVal) and node.attr == "name":
                return v.name
            raise NotConst("attribute " + ast.unparse(node))
        if isinstance(node, ast.Subscript):
            base = ev(node.value)
            if isinstance(node.slice, ast.Slice):
                lo = ev(node.slice.lower) if node.slice.lower else None
                hi = ev(node.slice.upper) if node.slice.upper else None
                st = ev(node.slice.step) if node.slice.step else None
                return base[lo:hi:st]
            idx = ev(node.slice)
            try:
                return base[idx]
            except Exception as e:
                raise NotConst(f"subscript: {e}")
        if isinstance(node, ast.Lambda):
            return LambdaVal(node, mod)
        if isinstance(node, ast.IfExp):
            return ev(node.body) if ev(node.test) else ev(node.orelse)
        if isinstance(node, ast.Compare) and len(node.ops) == 1:
            a, b = ev(node.left), ev(node.comparators[0])
            op = node.ops[0]
            table = {ast.Eq: lambda: a == b, ast.NotEq: lambda: a != b, ast.Lt: lambda: a < b, ast.LtE: lambda: a <= b,
                     ast.Gt: lambda: a > b, ast.GtE: lambda: a >= b, ast.In: lambda: a in b, ast.NotIn: lambda: a not in b}
            if type(op) in table:
                return table[type(op)]()
        if isinstance(node, ast.Call):
            return self._call(node, mod, depth, local)
        if isinstance(node, ast.GeneratorExp) or isinstance(node, ast.ListComp):
            return list(self._comp(node, mod, depth, local))
        if isinstance(node, ast.DictComp):
            pair = ast.Tuple(elts=[node.key, node.value], ctx=ast.Load())
            fake = ast.ListComp(elt=pair, generators=node.generators)
            return {k: v for k, v in self._comp(fake, mod, depth, local)}
        if isinstance(node, ast.JoinedStr):
            raise NotConst("f-string")
        raise NotConst("expr " + type(node).__name__)

    def _iterable(self, v):
        """what iterating the value yields: an enum class yields its members in definition order"""
        if isinstance(v, tuple) and len(v) == 2 and v[0] == "class":
            mem = self.enum_members(v[1])
            if mem is None:
                raise NotConst("iteration over a class")
            seen, out = set(), []
            for nm, val in mem.items():
                key = (type(val).__name__, val) if isinstance(val, (int, str)) else id(val)
                if key in seen:
                    continue  # an alias of an earlier member is not yielded
                seen.add(key)
                out.append(EnumVal(v[1].name, nm, val))
            return out
        if isinstance(v, (list, tuple, range, dict, str, bytes, set, frozenset)):
            return v
        raise NotConst("iteration over " + type(v).__name__)

    def _comp(self, node, mod, depth, local):
        if len(node.generators) != 1:
            raise NotConst("nested comprehension")
        g = node.generators[0]
        it = self._iterable(self.ev(g.iter, mod, depth + 1, local))
        names = None
        if isinstance(g.target, (ast.Tuple, ast.List)) and all(isinstance(e_, ast.Name) for e_ in g.target.elts):
            names = [e_.id for e_ in g.target.elts]
        elif not isinstance(g.target, ast.Name):
            raise NotConst("comp target")
        for x in it:
            l2 = dict(local or {})
            if names is not None:
                xs = tuple(x)
                if len(xs) != len(names):
                    raise NotConst("comp unpack")
                l2.update(zip(names, xs))
            else:
                l2[g.target.id] = x
            if all(self.ev(c, mod, depth + 1, l2) for c in g.ifs):
                yield self.ev(node.elt, mod, depth + 1, l2)

    def _call(self, node, mod, depth, local):
        f = node.func
        ev = lambda n: self.ev(n, mod, depth + 1, local)
        kw = {k.arg: ev(k.value) for k in node.keywords if k.arg}
        if isinstance(f, ast.Name):
            n = f.id
            if n in ("len", "ord", "chr", "int", "abs", "min", "max", "sum", "bytes", "tuple", "list", "float", "bool", "str", "round"):
                args = [ev(a) for a in node.args]
                try:
                    return {"len": len, "ord": ord, "chr": chr, "int": int, "abs": abs, "min": min, "max": max,
                            "sum": sum, "bytes": bytes, "tuple": tuple, "list": list, "float": float, "bool": bool,
                            "str": str, "round": round}[n](*args, **kw)
                except Exception as e:
                    raise NotConst(f"{n}(): {e}")
            if n == "range":
                return range(*[ev(a) for a in node.args])
            if n in ("zip", "enumerate", "dict") and n not in local and self.prog.resolve(mod, n) is None:
                args = [self._iterable(ev(a)) if (n != "dict" or not isinstance(ev(a), dict)) else ev(a) for a in node.args]
                try:
                    if n == "zip" and not kw:
                        return list(zip(*args))
                    if n == "enumerate":
                        return list(enumerate(*args, **kw))
                    if n == "dict":
                        return dict(*args, **kw)
                except Exception as e:
                    raise NotConst(f"{n}(): {e}")
            # single-return repo helper with constant args
            if n not in local:
                r = self.prog.resolve(mod, n)
                if r and r[0] == "assign" and isinstance(r[1], ast.Call) and depth < 30 and not any(isinstance(a_, ast.Starred) for a_ in list(r[1].args) + list(node.args)) \
                        and all(k_.arg for k_ in list(r[1].keywords) + list(node.keywords)) and r[1].args \
                        and ((isinstance(r[1].func, ast.Name) and r[1].func.id == "partial") or (isinstance(r[1].func, ast.Attribute) and r[1].func.attr == "partial"
                                                                                                   and isinstance(r[1].func.value, ast.Name) and r[1].func.value.id == "functools")):
                    # NAME = functools.partial(F, a, k=v); NAME(x, j=w) is F(a, x, k=v, j=w) (a later keyword wins)
                    pc = r[1]
                    kws = {k_.arg: k_.value for k_ in pc.keywords}
                    kws.update({k_.arg: k_.value for k_ in node.keywords})
                    if r[2] is mod or not node.args and not node.keywords or all(isinstance(a_, ast.Constant) for a_ in list(node.args) + [k_.value for k_ in node.keywords]):
                        synth = ast.Call(func=pc.args[0], args=list(pc.args[1:]) + list(node.args), keywords=[ast.keyword(arg=k_, value=v_) for k_, v_ in kws.items()])
                        ast.copy_location(synth, node)
                        ast.fix_missing_locations(synth)
                        return self._call(synth, r[2], depth + 1, local)
                if r and r[0] == "func":
                    fn = r[1]
                    body = [s for s in fn.body if not (isinstance(s, ast.Expr) and isinstance(s.value, ast.Constant))]
                    straight = body and isinstance(body[-1], ast.Return) and body[-1].value is not None and all(
                        isinstance(s, ast.Assign) and len(s.targets) == 1 and (isinstance(s.targets[0], ast.Name) or (
                            isinstance(s.targets[0], (ast.Tuple, ast.List)) and all(isinstance(e_, ast.Name) for e_ in s.targets[0].elts))) for s in body[:-1])
                    if straight and not fn.args.kwonlyargs and not fn.args.kwarg and not fn.decorator_list:
                        params = [a.arg for a in fn.args.args]
                        vals = [ev(a) for a in node.args]
                        l2 = {}
                        for p, a in zip(params, vals):
                            l2[p] = a
                        if len(vals) > len(params):
                            if not fn.args.vararg:
                                raise NotConst("too many arguments")
                            l2[fn.args.vararg.arg] = tuple(vals[len(params):])
                        elif fn.args.vararg:
                            l2[fn.args.vararg.arg] = ()
                        nd = len(fn.args.defaults)
                        for p, d in zip(params[len(params) - nd:], fn.args.defaults):
                            if p not in l2:
                                l2[p] = self.ev(d, r[2], depth + 1)
                        for k, v in kw.items():
                            l2[k] = v
                        if any(p not in l2 for p in params):
                            raise NotConst("missing argument")
                        for s_ in body[:-1]:
                            v_ = self.ev(s_.value, r[2], depth + 1, l2)
                            if isinstance(s_.targets[0], ast.Name):
                                l2[s_.targets[0].id] = v_
                            else:
                                # (a, b) = <sequence of as many values>
                                if not isinstance(v_, (tuple, list)) or len(v_) != len(s_.targets[0].elts):
                                    raise NotConst("unpacking")
                                for e_, x_ in zip(s_.targets[0].elts, v_):
                                    l2[e_.id] = x_
                        return self.ev(body[-1].value, r[2], depth + 1, l2)
            raise NotConst("call " + n)
        if isinstance(f, ast.Attribute):
            if f.attr == "compile" and isinstance(f.value, ast.Name) and f.value.id == "re" and node.args:
                pat = ev(node.args[0])
                flags = 0
                if len(node.args) > 1:
                    flags = ev(node.args[1])
                if "flags" in kw:
                    flags = kw["flags"]
                if not isinstance(pat, (str, bytes)) or not isinstance(flags, int):
                    raise NotConst("re.compile arguments")
                return RegexVal(pat, flags)
            if f.attr == "Struct" and isinstance(f.value, ast.Name) and f.value.id == "struct" and len(node.args) == 1 and not kw:
                r_ = self.prog.resolve(mod, "struct")
                fmt_ = ev(node.args[0])
                if r_ is not None and r_[0] == "ext" and isinstance(fmt_, (str, bytes)):
                    return StructVal(fmt_)
            if f.attr in ("unpack", "pack", "unpack_from") and not kw:
                try:
                    sv_ = ev(f.value)
                except NotConst:
                    sv_ = None
                if isinstance(sv_, StructVal):
                    import struct as _struct
                    try:
                        return getattr(_struct.Struct(sv_.fmt), f.attr)(*[ev(a) for a in node.args])
                    except Exception as e:
                        raise NotConst(f"Struct.{f.attr}: {e}")
            if f.attr in ("unpack", "pack", "calcsize") and isinstance(f.value, ast.Name) and f.value.id == "struct" and not kw:
                # struct.unpack(<const format>, <const bytes>): a pure function of its arguments
                r_ = self.prog.resolve(mod, "struct")
                if r_ is not None and r_[0] == "ext":
                    import struct as _struct
                    args = [ev(a) for a in node.args]
                    try:
                        return getattr(_struct, f.attr)(*args)
                    except Exception as e:
                        raise NotConst(f"struct.{f.attr}: {e}")
            if f.attr == "fromhex" and isinstance(f.value, ast.Name) and f.value.id == "bytes" and len(node.args) == 1 and not kw:
                v = ev(node.args[0])
                try:
                    return bytes.fromhex(v)
                except Exception as e:
                    raise NotConst(f"bytes.fromhex: {e}")
            if f.attr == "join":
                sep = ev(f.value)
                items = ev(node.args[0])
                return sep.join(items)
            if f.attr == "to_bytes":
                v = ev(f.value)
                args = [ev(a) for a in node.args]
                return int(v).to_bytes(*args, **kw)
            if f.attr == "from_bytes" and isinstance(f.value, ast.Name) and f.value.id == "int":
                args = [ev(a) for a in node.args]
                return int.from_bytes(*args, **kw)
            if f.attr in ("keys", "values", "items"):
                v = ev(f.value)
                if isinstance(v, dict):
                    return list(getattr(v, f.attr)())
            if f.attr in ("upper", "lower", "strip", "encode", "title"):
                v = ev(f.value)
                if isinstance(v, (str, bytes)):
                    return getattr(v, f.attr)(*[ev(a) for a in node.args])
        raise NotConst("call " + ast.unparse(f))
