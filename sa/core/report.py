"""Obligations, findings, the per-run context handed to rules."""
import ast

from .loader import AnalysisError, Program, norm, qual, where, enclosing_function, enclosing_class
from .consts import Folder


class Ob:
    __slots__ = ("rule", "file", "qual", "line", "what", "ok", "detail", "inst")

    def __init__(self, rule, file, qual, line, what, ok, detail, inst):
        self.rule, self.file, self.qual, self.line = rule, file, qual, line
        self.what, self.ok, self.detail, self.inst = what, bool(ok), detail, inst

    def key(self):
        return f"{self.rule}|{self.file}|{self.qual}|{self.inst}"

    def loc(self):
        return f"{self.file}:{self.line}"

    def as_dict(self):
        return {"rule": self.rule, "at": self.loc(), "in": self.qual, "obligation": self.what,
                "instance": self.inst, "discharged": self.ok, **({"detail": self.detail} if self.detail else {})}


class Ctx:
    def __init__(self, sources):
        self.sources = sources
        self.prog = Program(sources)
        self.folder = Folder(self.prog)
        from . import terms as _terms
        _terms.SIGS = self.prog.signatures()  # keyword arguments of package callables are rendered positionally
        _terms.SIGS.setdefault("open", ("file", "mode", "buffering", "encoding", "errors", "newline"))
        _terms.SIGS.setdefault("pad", ("array", "pad_width", "mode"))  # numpy.pad
        # dataclass name -> its field names (only names that denote one dataclass in the whole package)
        dcf = {}
        for m_ in self.prog.modules.values():
            for q_, c_ in m_.classes.items():
                try:
                    fl_ = tuple(f_[0] for f_ in self.prog.dataclass_fields(c_))
                except Exception:
                    fl_ = ()
                is_dc = any((isinstance(d, ast.Name) and d.id == "dataclass") or (isinstance(d, ast.Call) and isinstance(d.func, ast.Name) and d.func.id == "dataclass") for d in c_.decorator_list)
                if not is_dc:
                    continue
                dcf[c_.name] = None if c_.name in dcf else fl_
        _terms.DC_FIELDS = {k: v for k, v in dcf.items() if v}
        self.obs = []
        self.notes = []
        self.analysed = {}  # rule -> free-form facts about what was analysed
        self._cfgs = {}
        self._pyx = None

    # ------------------------------------------------------------- recording
    def locate(self, node):
        """(file, qualname, line) of an AST node"""
        file = "?"
        n = node
        q = None
        while n is not None:
            if q is None and isinstance(n, (ast.FunctionDef, ast.AsyncFunctionDef, ast.ClassDef)):
                q = getattr(n, "_qualname", n.name)
            if hasattr(n, "_module"):
                file = n._module.path
                break
            n = getattr(n, "_parent", None)
        if file == "?":
            n = node
            while n is not None and not isinstance(n, ast.Module):
                n = getattr(n, "_parent", None)
            file = getattr(n, "_path", "?") if n is not None else "?"
        return file, q or "<module>", getattr(node, "_orig_lineno", getattr(node, "lineno", 0))

    def ob(self, rule, node, what, ok, detail="", inst=None, file=None, qualname=None, line=None):
        """Record one obligation instance.  `node` is the protected construct (AST node) or None
        when file/qualname/line are given explicitly.  `inst` is the stable instance label (defaults
        to the normalised text of the node)."""
        if node is not None:
            f, q, ln = self.locate(node)
            file = file or f
            qualname = qualname or q
            line = line if line is not None else ln
            if inst is None:
                inst = norm(node) if not isinstance(node, (ast.FunctionDef, ast.ClassDef, ast.AsyncFunctionDef)) else "<def>"
        o = Ob(rule, file or "?", qualname or "?", line or 0, what, ok, detail, inst if inst is not None else what)
        self.obs.append(o)
        return o.ok

    def note(self, text):
        self.notes.append(text)

    def fact(self, rule, key, value):
        self.analysed.setdefault(rule, {})[key] = value

    # --------------------------------------------------------------- helpers
    def fn(self, path, qualname, rule="anchor"):
        return self.prog.function(path, qualname, rule)

    def cfg(self, fn, rule="cfg"):
        from .cfg import CFG
        k = id(fn)
        if k not in self._cfgs:
            self._cfgs[k] = CFG(fn, rule)
        return self._cfgs[k]

    def const(self, path, name, rule="anchor"):
        """Folded module-level constant (AnalysisError if missing / not foldable)."""
        from .consts import NotConst
        m = self.prog.module(path)
        try:
            return self.folder.name(m, name)
        except NotConst as e:
            raise AnalysisError(rule, f"{path}:{name}", f"constant cannot be folded: {e}")

    def pyx(self):
        if self._pyx is None:
            from .pyx import load_pyx
            self._pyx = load_pyx(self.sources)
        return self._pyx
