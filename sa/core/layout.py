"""E-LAY: abstract interpreter for the `construct` DSL as this repository uses it.
Evaluates struct declarations from the AST alone (no import of the package, no
import of construct) into layouts: ordered named fields with offset, width,
signedness, endianness and wrapper chain."""
import ast
import copy
from fractions import Fraction

from .loader import AnalysisError, dotted, where
from .consts import NotConst, EnumVal, LambdaVal


class Unknown(Exception):
    pass


# ------------------------------------------------------------------- layouts
class L:
    size = None
    tag = "?"

    def core(self):
        return self

    def wrappers(self):
        return []


class Prim(L):
    def __init__(s, n, kind, signed=None, endian=None, extra=None):
        s.size, s.kind, s.signed, s.endian, s.extra = n, kind, signed, endian, extra
        s.tag = kind

    def desc(s):
        if s.kind == "int":
            return f"int{s.size * 8}{'s' if s.signed else 'u'}{s.endian if s.size > 1 else ''}"
        if s.kind == "bits":
            return f"bits{s.size}"
        return f"{s.kind}{s.size}"

    __repr__ = desc


class Struct(L):
    tag = "Struct"

    def __init__(s, fields):
        s.fields = fields  # list of (name|None, layout)

    @property
    def size(s):
        return ssum(f[1].size for f in s.fields)

    def field(s, name):
        for n, f in s.fields:
            if n == name:
                return f
        return None

    def static_prefix(s):
        """bytes consumed by the leading fields whose size is a known constant"""
        t = 0
        for n, f in s.fields:
            z = f.size
            if isinstance(z, int):
                t += z
            elif isinstance(f.core(), Struct) and z is None:
                t += f.core().static_prefix()
                break
            else:
                break
        return t

    def desc(s):
        return f"Struct({len(s.fields)})"

    __repr__ = desc


class Arr(L):
    tag = "Array"

    def __init__(s, count, elem):
        s.count, s.elem = count, elem

    @property
    def size(s):
        return smul(s.count, s.elem.size)

    def desc(s):
        return f"{s.elem.desc()}[{s.count}]"

    __repr__ = desc


class Wrap(L):
    def __init__(s, tag, inner, extra=None, node=None):
        s.tag, s.inner, s.extra, s.node = tag, inner, extra, node

    @property
    def size(s):
        return s.inner.size

    def core(s):
        return s.inner.core()

    def wrappers(s):
        return [s.tag] + s.inner.wrappers()

    def static_prefix(s):
        c = s.core()
        return c.static_prefix() if isinstance(c, Struct) else (s.size if isinstance(s.size, int) else 0)

    def field(s, name):
        c = s.core()
        return c.field(name) if isinstance(c, Struct) else None

    def desc(s):
        return f"{s.tag}({s.inner.desc()})"

    __repr__ = desc


class Fixed(L):
    def __init__(s, n, inner, tag="FixedSized"):
        s.size, s.inner, s.tag = n, inner, tag

    def desc(s):
        return f"{s.tag}({s.size},{s.inner.desc()})"

    __repr__ = desc


class Zero(L):
    size = 0

    def __init__(s, tag, extra=None, node=None, env=None):
        s.tag, s.extra, s.node, s.env = tag, extra, node, env

    def desc(s):
        return f"{s.tag}"

    __repr__ = desc


class Dyn(L):
    size = None

    def __init__(s, tag, parts=(), node=None, env=None):
        s.tag, s.parts, s.node, s.env = tag, parts, node, env

    def static_prefix(s):
        return 0

    def desc(s):
        return f"{s.tag}(" + ",".join(p.desc() if isinstance(p, L) else str(p) for p in s.parts) + ")"

    __repr__ = desc


class BitsS(L):
    tag = "Bitwise"

    def __init__(s, inner):
        s.inner = inner

    @property
    def size(s):
        b = s.inner.size
        if b is None or isinstance(b, dict):
            return None
        return Fraction(b, 8) if b % 8 else b // 8

    def desc(s):
        return f"Bitwise({s.inner.desc()})"

    __repr__ = desc


class Sym:
    def __init__(s, name):
        s.name = name

    def __repr__(s):
        return "$" + s.name

    def __eq__(s, o):
        return isinstance(o, Sym) and o.name == s.name

    def __hash__(s):
        return hash(s.name)


def ssum(xs):
    t = 0
    for x in xs:
        if x is None:
            return None
        t = sadd(t, x)
    return t


def sadd(a, b):
    if isinstance(a, dict) or isinstance(b, dict):
        a = a if isinstance(a, dict) else {(): a}
        b = b if isinstance(b, dict) else {(): b}
        r = dict(a)
        for k, v in b.items():
            r[k] = r.get(k, 0) + v
        return {k: v for k, v in r.items() if v != 0 or k == ()}
    return a + b


def smul(c, n):
    if n is None or c is None:
        return None
    if isinstance(c, Sym):
        if isinstance(n, dict):
            return None
        return {(c.name,): n}
    if isinstance(c, dict):
        return None
    if isinstance(n, dict):
        return {k: v * c for k, v in n.items()}
    return c * n


def size_at(size, **vals):
    """evaluate a symbolic size {(): c, ('sym',): k} at sym=value"""
    if not isinstance(size, dict):
        return size
    t = 0
    for k, v in size.items():
        m = v
        for s in k:
            if s not in vals:
                return None
            m *= vals[s]
        t += m
    return t


INTS = {}
for _bits, _nm in ((8, "Int8"), (16, "Int16"), (24, "Int24"), (32, "Int32"), (64, "Int64")):
    for _sg in "us":
        for _en in "lbn":
            INTS[f"{_nm}{_sg}{_en}"] = (_bits // 8, _sg == "s", "l" if _en == "n" else _en)
INTS["Byte"] = (1, False, "b")
INTS["Short"] = (2, False, "b")
INTS["Int"] = (4, False, "b")
INTS["Long"] = (8, False, "b")

CONSTRUCT_MODS = ("construct", "construct.core", "construct.lib", "construct.expr", "construct.lib.containers")


class Env:
    def __init__(self, mod, local=None, parent=None):
        self.mod, self.local, self.parent = mod, local or {}, parent

    def get_local(self, name):
        e = self
        while e:
            if name in e.local:
                return e.local[name]
            e = e.parent
        return None


class Layouts:
    def __init__(self, ctx):
        self.ctx = ctx
        self.prog = ctx.prog
        self.folder = ctx.folder
        self._cache = {}

    # ----------------------------------------------------------------- API
    def const_of(self, mod, depth=0):
        """name -> number: module constants, including those computed from construct sizes (X.sizeof() sums)"""
        base_const_of = self.folder.const_of(mod)

        def const_of(name):
            try:
                return base_const_of(name)
            except KeyError:
                r_ = self.prog.resolve(mod, name)
                if r_ and r_[0] == "assign" and depth < 3:
                    try:
                        v_ = self.const(r_[1], Env(r_[2]))
                    except Exception:
                        raise KeyError(name)
                    if isinstance(v_, int) and not isinstance(v_, bool):
                        return v_
                raise KeyError(name)

        return const_of

    def of_name(self, mod, name):
        key = (mod.name, name)
        if key not in self._cache:
            self._cache[key] = unn(self.eval_con(ast.Name(id=name, ctx=ast.Load()), Env(mod)))
        return self._cache[key]

    def of_path(self, path, name):
        return self.of_name(self.prog.module(path), name)

    def of_expr(self, mod, node, local=None):
        return unn(self.eval_con(node, Env(mod, local)))

    def flatten(self, lay, prefix="", off=0, out=None):
        """-> list of (dotted name, offset, size, leaf description, wrappers)"""
        out = [] if out is None else out
        core = lay.core()
        if isinstance(core, Struct):
            for nm, f in core.fields:
                sz = f.size
                fc = f.core()
                if nm is not None:
                    out.append((prefix + nm, off, sz, self._leafdesc(f), tuple(f.wrappers())))
                if isinstance(fc, Struct):
                    self.flatten(fc, prefix + (nm + "." if nm is not None else ""), off, out)
                elif isinstance(fc, BitsS) and isinstance(fc.inner.core(), Struct):
                    boff = 0
                    for bn, bf in fc.inner.core().fields:
                        if bn is not None:
                            out.append((prefix + (nm + "." if nm else "") + bn, f"{off}+bit{boff}", f"{bf.size}b", self._leafdesc(bf), tuple(bf.wrappers())))
                        boff += bf.size if isinstance(bf.size, int) else 0
                elif isinstance(fc, Arr) and isinstance(fc.elem.core(), Struct) and nm is not None:
                    self.flatten(fc.elem.core(), prefix + nm + "[].", off, out)
                if sz is None or off is None:
                    off = None
                else:
                    off = sadd(off, sz)
        return out

    def _leafdesc(self, f):
        c = f.core()
        if isinstance(c, Arr):
            return c.desc()
        if isinstance(c, (Prim, Zero, Dyn, Fixed, BitsS)):
            return c.desc()
        return c.desc()

    def _beta(self, A, call, env):
        """inside a construct factory: the expression arguments with the factory's own parameters replaced by the plain names /
        attribute paths / constants they are bound to at this call (same module), so that `lambda obj, ctx: int_type(obj)` under
        int_type = AkaiMidiOutput reads `lambda obj, ctx: AkaiMidiOutput(obj)`"""
        binds = {}
        e = env
        while e:
            for k, v in e.local.items():
                if k in binds:
                    continue
                if isinstance(v, tuple) and len(v) == 2 and isinstance(v[0], ast.AST) and isinstance(v[1], Env) and v[1].mod is env.mod:
                    x = v[0]
                    base = x
                    while isinstance(base, ast.Attribute):
                        base = base.value
                    if isinstance(x, ast.Constant) or (isinstance(base, ast.Name) and v[1].get_local(base.id) is None):
                        binds[k] = x
                    elif not any(isinstance(n_, ast.Name) and v[1].get_local(n_.id) is not None for n_ in ast.walk(x)):
                        # a local name for a constant expression over module-level constants
                        try:
                            self.folder.ev(x, env.mod)
                            binds[k] = x
                        except Exception:
                            pass
            e = e.parent
        if not binds or not isinstance(call, ast.Call):
            return A, call
        used = {n.id for a in A[1:] for n in ast.walk(a) if isinstance(n, ast.Name)} | {n.id for k in call.keywords for n in ast.walk(k.value) if isinstance(n, ast.Name)}
        if not (used & set(binds)):
            return A, call
        from .loader import clone as _cl

        class S(ast.NodeTransformer):
            def visit_Lambda(self, node):
                shadow = {a.arg for a in node.args.args}
                saved = {k: binds.pop(k) for k in list(binds) if k in shadow}
                self.generic_visit(node)
                binds.update(saved)
                return node

            def visit_Name(self, node):
                if isinstance(node.ctx, ast.Load) and node.id in binds:
                    return ast.copy_location(_cl(binds[node.id]), node)
                return node

        call2 = _cl(call)
        new_args = [call2.args[0]] if call2.args else []
        for i_, a in enumerate(call2.args[1:], start=1):
            new_args.append(S().visit(a))
        call2.args = new_args
        for k in call2.keywords:
            if k.arg not in ("subcon",):
                k.value = S().visit(k.value)
        ast.fix_missing_locations(call2)
        # the sub-construct argument keeps its original node (it is described structurally, by identity)
        if call.args:
            call2.args[0] = call.args[0]
        A2 = list(call2.args) if len(call2.args) == len(A) else [A[0]] + [S().visit(_cl(a)) for a in A[1:]]
        return A2, call2

    # ------------------------------------------------------------ constants
    def _sum_items(self, arg, env, depth=0):
        """[(expression, env)] the summands of sum(arg) when arg is a literal table (possibly through one name or a
        one-generator comprehension over a literal table); None otherwise"""
        if isinstance(arg, (ast.Tuple, ast.List)) and not any(isinstance(e_, ast.Starred) for e_ in arg.elts):
            return [(e_, env) for e_ in arg.elts]
        if isinstance(arg, ast.Name) and depth < 3 and env.get_local(arg.id) is None:
            r_ = self.prog.resolve(env.mod, arg.id)
            if r_ and r_[0] == "assign":
                return self._sum_items(r_[1], Env(r_[2]), depth + 1)
        if isinstance(arg, (ast.GeneratorExp, ast.ListComp)) and len(arg.generators) == 1 and not arg.generators[0].ifs \
                and isinstance(arg.generators[0].target, ast.Name) and not arg.generators[0].is_async:
            rows = self._sum_items(arg.generators[0].iter, env, depth + 1)
            if rows is None or any(e_ is not env for _, e_ in rows):
                return None
            name = arg.generators[0].target.id

            class _S(ast.NodeTransformer):
                def __init__(self, row):
                    self.row = row

                def visit_Name(self, n_):
                    return copy.deepcopy(self.row) if n_.id == name and isinstance(n_.ctx, ast.Load) else n_

            out = []
            for row, _ in rows:
                e2 = _S(row).visit(copy.deepcopy(arg.elt))
                ast.fix_missing_locations(e2)
                out.append((e2, env))
            return out
        return None

    def const(self, node, env):
        """constant or Sym for context-dependent expressions"""
        if isinstance(node, ast.Name):
            v = env.get_local(node.id)
            if v is not None:
                if isinstance(v, tuple) and len(v) == 2 and isinstance(v[0], ast.AST):
                    return self.const(v[0], v[1])
                return v
        if isinstance(node, ast.Call) and not node.keywords and len(node.args) == 1 and isinstance(node.args[0], ast.Constant) and isinstance(node.args[0].value, str) \
                and ((isinstance(node.func, ast.Name) and node.func.id == "attrgetter") or (isinstance(node.func, ast.Attribute) and node.func.attr == "attrgetter"
                                                                                           and isinstance(node.func.value, ast.Name) and node.func.value.id == "operator")) \
                and all(x.isidentifier() for x in node.args[0].value.split(".")):
            return Sym(node.args[0].value)  # attrgetter("a.b") as a context function is this.a.b
        if isinstance(node, ast.Lambda):
            p = this_path(node.body, {a.arg for a in node.args.args})
            if p:
                return Sym(p)
            try:
                v_ = self.const(node.body, env)
            except Unknown:
                v_ = None
            if v_ is None or (isinstance(v_, Sym) and v_.name.startswith("<")):
                # context-dependent: the canonical (E-AFF) form of the expression, not its spelling
                try:
                    return Sym("<" + Describer(self).canon(node, env.mod) + ">")
                except Exception:
                    if v_ is None:
                        return Sym("<" + " ".join(ast.unparse(node.body).split())[:50] + ">")
            return v_
        if isinstance(node, (ast.Attribute, ast.Subscript)):
            p = this_path(node, {"this", "obj_"})
            if p:
                return Sym(p)
        if isinstance(node, ast.Call) and isinstance(node.func, ast.Attribute) and node.func.attr == "sizeof":
            return self.eval_con(node.func.value, env).size if not isinstance(self.eval_con(node.func.value, env), tuple) else unn(self.eval_con(node.func.value, env)).size
        if isinstance(node, ast.Call) and isinstance(node.func, ast.Name) and node.func.id == "len_":
            return Sym("len(" + " ".join(ast.unparse(node.args[0]).split()) + ")")
        if isinstance(node, ast.Call) and isinstance(node.func, ast.Name) and node.func.id == "sum" and len(node.args) == 1 and not node.keywords:
            # sum over a literal table of static sizes: sum((A.sizeof(), ..)), sum(TABLE), sum(x.sizeof() for x in (A, ..))
            items = self._sum_items(node.args[0], env)
            if items is not None:
                vals = [self.const(it_, e_) for it_, e_ in items]
                if all(isinstance(v_, int) and not isinstance(v_, bool) for v_ in vals):
                    return sum(vals)
        if isinstance(node, ast.BinOp):
            try:
                a, b = self.const(node.left, env), self.const(node.right, env)
            except Unknown:
                raise
            if isinstance(a, Sym) or isinstance(b, Sym):
                return Sym("<" + " ".join(ast.unparse(node).split())[:60] + ">")
            try:
                return self.folder.ev(ast.BinOp(left=_lit(a), op=node.op, right=_lit(b)), env.mod)
            except (NotConst, Exception) as e:
                raise Unknown(f"const binop: {e}")
        local = {}
        e = env
        while e:
            for k, v in e.local.items():
                if k not in local and not isinstance(v, (tuple, L)):
                    local[k] = v
            e = e.parent
        try:
            v = self.folder.ev(node, env.mod, local=local)
        except NotConst as ex:
            raise Unknown(f"const `{' '.join(ast.unparse(node).split())[:60]}`: {ex}")
        if isinstance(v, LambdaVal):
            return self.const(v.node, Env(v.mod))
        if isinstance(v, tuple) and len(v) == 2 and v[0] == "func" and isinstance(v[1], ast.FunctionDef) and isinstance(node, ast.Name):
            # a named function used where a context lambda is expected: its canonical (E-AFF) form, like a lambda's
            fn_ = v[1]
            ps_ = [a.arg for a in fn_.args.args]
            rets_ = [x for x in ast.walk(fn_) if isinstance(x, ast.Return)]
            if ps_ and len(rets_) == 1 and rets_[0].value is not None:
                p = this_path(rets_[0].value, {ps_[0]}) if len(fn_.body) == 1 else None
                if p:
                    return Sym(p)
                try:
                    txt = Describer(self).canon(node, env.mod)
                except Exception:
                    txt = None
                if txt and not txt.startswith("func:"):
                    return Sym("<" + txt + ">")
        return v

    # ------------------------------------------------------------ constructs
    def lookup(self, name, env):
        v = env.get_local(name)
        if v is not None:
            return ("local", v)
        r = self.prog.resolve(env.mod, name)
        return r

    def eval_con(self, node, env, depth=0):
        if depth > 60:
            raise Unknown("depth")
        if isinstance(node, ast.BinOp) and isinstance(node.op, ast.Div):
            try:
                nm = self.const(node.left, env)
            except Unknown:
                nm = None
            if isinstance(nm, str):
                return ("named", nm, unn(self.eval_con(node.right, env, depth + 1)))
        if isinstance(node, ast.Subscript):
            inner = unn(self.eval_con(node.value, env, depth + 1))
            cnt = self.const(node.slice, env)
            return Arr(cnt, inner)
        if isinstance(node, ast.Name):
            b = self.lookup(node.id, env)
            if b is None:
                raise Unknown("unbound " + node.id)
            if b[0] == "local":
                v = b[1]
                if isinstance(v, L):
                    return v
                if isinstance(v, tuple) and isinstance(v[0], ast.AST):
                    return self.eval_con(v[0], v[1], depth + 1)
                raise Unknown(f"local {node.id} is not a construct")
            if b[0] == "assign":
                return self.eval_con(b[1], Env(b[2]), depth + 1)
            if b[0] == "ext":
                n = b[2]
                if b[1] not in CONSTRUCT_MODS:
                    raise Unknown(f"external name {node.id} from {b[1]}")
                if n in INTS:
                    sz, sg, en = INTS[n]
                    return Prim(sz, "int", sg, en)
                if n == "Pass":
                    return Zero("Pass")
                if n == "Tell":
                    return Zero("Tell")
                if n == "GreedyBytes":
                    return Dyn("GreedyBytes")
                if n == "Nibble":
                    return Prim(4, "bits")
                if n == "Bit":
                    return Prim(1, "bits")
                if n == "Octet":
                    return Prim(8, "bits")
                raise Unknown("construct name " + n)
            if b[0] == "class":
                cls = b[1]
                if any(getattr(d, "id", "") == "_singleton" for d in cls.decorator_list):
                    return self.instantiate(cls, None, env, depth)
            raise Unknown(f"name {node.id}: {b[0]}")
        if isinstance(node, ast.Call):
            f = node.func
            if isinstance(f, ast.Attribute) and f.attr == "compile" and not node.args:
                r_ = self.eval_con(f.value, env, depth + 1)
                try:
                    unn(r_)._compiled = True  # the layout is the same; remembered for rules about compiled parsing
                except Exception:
                    pass
                return r_
            if isinstance(f, ast.Name):
                b = self.lookup(f.id, env)
                if b is None:
                    raise Unknown("unbound call " + f.id)
                if b[0] == "ext" and b[1] in CONSTRUCT_MODS:
                    return self.builtin(b[2], node, env, depth)
                if b[0] == "class":
                    return self.instantiate(b[1], node, env, depth)
                if b[0] == "func":
                    return self.call_factory(b[1], node, env, depth)
                raise Unknown(f"call of {f.id} ({b[0]})")
            raise Unknown("call " + ast.unparse(f))
        raise Unknown("expr " + type(node).__name__ + " " + " ".join(ast.unparse(node).split())[:50])

    def _table_rows(self, node, env):
        """[(element node, env)] of a list / tuple display, written in place or bound once to a module-level (or factory-local) name"""
        if isinstance(node, (ast.List, ast.Tuple)):
            return [(e, env) for e in node.elts]
        if isinstance(node, ast.Name):
            v = env.get_local(node.id)
            if isinstance(v, tuple) and len(v) == 2 and isinstance(v[0], ast.AST) and isinstance(v[1], Env):
                return self._table_rows(v[0], v[1])
            r = self.prog.resolve(env.mod, node.id)
            if r and r[0] == "assign" and isinstance(r[1], (ast.List, ast.Tuple)):
                return [(e, Env(r[2])) for e in r[1].elts]
        return None

    def _expand_args(self, A, env):
        """positional arguments with `*TABLE` and `*(E for a, b in TABLE)` written out (declaration order is field order)"""
        out = []
        for a in A:
            if not isinstance(a, ast.Starred):
                out.append((a, env))
                continue
            v = a.value
            rows = self._table_rows(v, env)
            if rows is not None:
                out += rows
                continue
            if isinstance(v, (ast.GeneratorExp, ast.ListComp)) and len(v.generators) == 1 and not v.generators[0].ifs:
                g = v.generators[0]
                rows = self._table_rows(g.iter, env)
                if rows is not None:
                    from .loader import clone as _cl
                    ok = True
                    for row, env_r in rows:
                        if isinstance(g.target, ast.Name):
                            binds = {g.target.id: row}
                        elif isinstance(g.target, (ast.Tuple, ast.List)) and isinstance(row, (ast.Tuple, ast.List)) and len(row.elts) == len(g.target.elts) \
                                and all(isinstance(t_, ast.Name) for t_ in g.target.elts):
                            binds = {t_.id: e_ for t_, e_ in zip(g.target.elts, row.elts)}
                        else:
                            ok = False
                            break

                        class S(ast.NodeTransformer):
                            def visit_Name(self, nd):
                                if isinstance(nd.ctx, ast.Load) and nd.id in binds:
                                    return ast.copy_location(_cl(binds[nd.id]), nd)
                                return nd

                        el = S().visit(_cl(v.elt))
                        ast.copy_location(el, v.elt)
                        ast.fix_missing_locations(el)
                        for par_ in ast.walk(el):
                            for ch_ in ast.iter_child_nodes(par_):
                                ch_._parent = par_
                        el._parent = a  # keeps the way up to the module for the describer
                        out.append((el, env_r if env_r.mod is env.mod else env))
                    if ok:
                        continue
            raise Unknown("expr Starred " + " ".join(ast.unparse(a).split())[:50])
        return out

    def builtin(self, n, call, env, depth):
        A = call.args
        kw = {k.arg: k.value for k in call.keywords if k.arg}

        def ev(i):
            return unn(self.eval_con(A[i], env, depth + 1))

        if n == "Struct":
            fields = []
            for a, env_a in self._expand_args(A, env):
                r = self.eval_con(a, env_a, depth + 1)
                fields.append((r[1], r[2]) if isinstance(r, tuple) else (None, r))
            for k in call.keywords:
                # Struct(name=subcon, ...) declares the same fields as "name" / subcon, in keyword order
                if k.arg is None:
                    raise Unknown("Struct(**fields)")
                fields.append((k.arg, unn(self.eval_con(k.value, env, depth + 1))))
            return Struct(fields)
        if n == "Renamed":
            nm = self.const(kw["newname"] if "newname" in kw else A[1], env)
            if not isinstance(nm, str):
                raise Unknown("Renamed without a constant name")
            return ("named", nm, unn(self.eval_con(A[0] if A else kw["subcon"], env, depth + 1)))
        if n == "Padding":
            return Prim(self.const(A[0], env), "pad")
        if n == "Bytes":
            c = self.const(A[0], env)
            return Prim(c, "bytes") if isinstance(c, int) else Dyn("Bytes", (str(c),), call, env)
        if n == "Const":
            if len(A) == 2:
                sub = ev(1)
                v = self.const(A[0], env)
                if isinstance(sub, Prim) and sub.kind == "bytes" and isinstance(v, bytes) and sub.size == len(v):
                    return Prim(len(v), "const", extra=v)  # Const(v, Bytes(len(v))) is Const(v)
                return Wrap("Const", sub, v)
            v = self.const(A[0], env)
            return Prim(len(v), "const", extra=v)
        if n == "PaddedString":
            return Prim(self.const(A[0], env), "str", extra=self.const(A[1], env) if len(A) > 1 else (self.const(kw["encoding"], env) if "encoding" in kw else None))
        if n in ("FixedSized", "Padded"):
            return Fixed(self.const(A[0], env), ev(1), n)
        if n == "Array":
            return Arr(self.const(A[0], env), ev(1))
        if n in ("Computed", "Tell", "Seek", "Pass", "If", "Check", "Error", "Terminated", "Probe"):
            return Zero(n, A[0] if A else None, call, env)
        if n == "Pointer":
            return Zero("Pointer", (A[0], ev(1)), call, env)
        if n in ("Rebuild", "Default", "ExprAdapter", "ExprSymmetricAdapter", "ExprValidator", "Lazy", "NullStripped",
                 "Enum", "EnumConstruct", "Mapping", "Optional", "Slicing", "Indexing", "Hex", "Peek", "Compiled"):
            A2, call2 = self._beta(A, call, env)
            w = Wrap(n, ev(0), A2[1:], call2)
            w.subcon_nodes = {id(A2[0])}
            return w
        if n == "Filter":
            w = Wrap(n, ev(1), A[:1], call)
            w.subcon_nodes = {id(A[1])}
            return w
        if n == "Bitwise":
            return BitsS(ev(0))
        if n == "Prefixed":
            return Dyn("Prefixed", (ev(0), ev(1)), call, env)
        if n == "GreedyRange":
            return Dyn("GreedyRange", (ev(0),), call, env)
        if n == "Switch":
            return Dyn("Switch", (), call, env)
        if n == "FocusedSeq":
            fields = []
            for a in A[1:]:
                r = self.eval_con(a, env, depth + 1)
                fields.append((r[1], r[2]) if isinstance(r, tuple) else (None, r))
            return Struct(fields)
        if n == "Union":
            parts = []
            for a in A[1:]:
                r = self.eval_con(a, env, depth + 1)
                parts.append(r[2] if isinstance(r, tuple) else r)
            d = Dyn("Union", tuple(parts), call, env)
            d.names = [(self.eval_con(a, env, depth + 1)[1] if isinstance(self.eval_con(a, env, depth + 1), tuple) else None) for a in A[1:]]
            return d
        if n == "Sequence":
            return Struct([(None, unn(self.eval_con(a, env, depth + 1))) for a in A])
        raise Unknown("construct builtin " + n)

    # --------------------------------------------------------- repo classes
    def construct_base(self, cls):
        """name of the first construct library base class in the MRO, or None"""
        for c in self.prog.mro(cls):
            for b in c.bases:
                if isinstance(b, ast.Name):
                    r = self.prog.resolve(c._module, b.id)
                    if r and r[0] == "ext" and r[1] in CONSTRUCT_MODS:
                        return r[2]
        return None

    def next_init(self, cls, owner):
        """class whose __init__ `super().__init__` reaches from `owner` in cls's MRO:
        ('ext', name) or ('cls', ClassDef)"""
        mro = self.prog.mro(cls)
        idx = mro.index(owner)
        for c in mro[idx + 1:]:
            for st in c.body:
                if isinstance(st, ast.FunctionDef) and st.name == "__init__":
                    return ("cls", c, st)
        return ("ext", self.construct_base(cls))

    def instantiate(self, cls, call, env, depth):
        base = self.construct_base(cls)
        if not base:
            raise Unknown("class is not a construct: " + cls.name)
        so = self.prog.find_method(cls, "_sizeof")
        if so is not None:
            rets = [s for s in ast.walk(so) if isinstance(s, ast.Return)]
            has_try = any(isinstance(s, ast.Try) for s in ast.walk(so))
            if len(rets) == 1 and isinstance(rets[0].value, ast.Constant) and rets[0].value.value == 0 and not has_try:
                return Zero(cls.name, None, call, env)
        init = self.prog.find_method(cls, "__init__")
        if call is None:
            return Zero(cls.name)
        if so is not None and init is not None:
            # _sizeof summarised as Array(count, self.subcon): count x subcon
            arr = [c for c in ast.walk(so) if isinstance(c, ast.Call) and isinstance(c.func, ast.Name) and c.func.id == "Array"
                   and len(c.args) == 2 and dotted(c.args[1]) == "self.subcon"]
            if arr:
                inner = self._through_init(cls, init, call, env, depth)
                sub = inner.inner if isinstance(inner, Wrap) else (inner.elem if isinstance(inner, Arr) else None)
                cnt_param = None
                for st in ast.walk(init):
                    if isinstance(st, ast.Assign) and dotted(st.targets[0]) == "self.count" and isinstance(st.value, ast.Name):
                        cnt_param = st.value.id
                if sub is not None and cnt_param is not None:
                    params = [a.arg for a in init.args.args][1:]
                    node = None
                    if cnt_param in params and params.index(cnt_param) < len(call.args):
                        node = call.args[params.index(cnt_param)]
                    for k in call.keywords:
                        if k.arg == cnt_param:
                            node = k.value
                    if node is not None:
                        return Wrap(cls.name, Arr(self.const_b(node, env), sub), None, call)
        if init is not None:
            return self._through_init(cls, init, call, env, depth)
        return self._ext_init(base, cls.name, call.args, call.keywords, env, depth, call)

    def _ext_init(self, base, tag, args, keywords, env, depth, node=None):
        if base == "Array":
            return Arr(self.const_b(args[0], env), unn(self.eval_con(args[1], env, depth + 1)))
        if base in ("Adapter", "Subconstruct", "Mapping", "Validator", "SymmetricAdapter", "Tunnel"):
            if not args:
                return Zero(tag)
            w = Wrap(tag, unn(self.eval_con(args[0], env, depth + 1)), None, node)
            w.subcon_nodes = {id(self._origin(args[0], env))}
            return w
        if base == "Construct":
            return Zero(tag)
        raise Unknown(f"construct base {base} of {tag}")

    def _origin(self, node, env):
        """follow parameter bindings back to the AST node written at the outermost call site"""
        for _ in range(10):
            if isinstance(node, ast.Name):
                v = env.get_local(node.id)
                if isinstance(v, tuple) and len(v) == 2 and isinstance(v[0], ast.AST):
                    node, env = v
                    continue
            break
        return node

    def _through_init(self, cls, init, call, env, depth):
        from .loader import enclosing_class
        owner = enclosing_class(init)
        params = [a.arg for a in init.args.args][1:]
        bound = {}
        for i, a in enumerate(call.args):
            if i < len(params):
                bound[params[i]] = (a, env)
        for k in call.keywords:
            if k.arg:
                bound[k.arg] = (k.value, env)
        defaults = init.args.defaults
        for p, d in zip(params[len(params) - len(defaults):], defaults):
            bound.setdefault(p, (d, Env(init._module)))
        ienv = Env(init._module, bound)
        for s in ast.walk(init):
            if isinstance(s, ast.Call) and isinstance(s.func, ast.Attribute) and s.func.attr == "__init__" \
                    and isinstance(s.func.value, ast.Call) and getattr(s.func.value.func, "id", "") == "super":
                nxt = self.next_init(cls, owner)
                if nxt[0] == "ext":
                    r = self._ext_init(nxt[1], cls.name, s.args, s.keywords, ienv, depth, call)
                    return r
                fake = ast.Call(func=ast.Name(id="?", ctx=ast.Load()), args=s.args, keywords=s.keywords)
                return self._through_init(cls, nxt[2], fake, ienv, depth + 1)
        raise Unknown("no super().__init__ in " + cls.name)

    def const_b(self, node, env):
        try:
            return self.const(node, env)
        except Unknown:
            return Sym("?")

    def call_factory(self, fn, call, env, depth):
        params = [a.arg for a in fn.args.args]
        bound = {}
        for i, a in enumerate(call.args):
            if i < len(params):
                bound[params[i]] = (a, env)
        for k in call.keywords:
            if k.arg:
                bound[k.arg] = (k.value, env)
        for a, d in zip(reversed(fn.args.args), reversed(fn.args.defaults)):
            bound.setdefault(a.arg, (d, Env(fn._module)))
        fenv = Env(fn._module, bound)
        ret = None
        for st in fn.body:
            if isinstance(st, ast.Assign) and isinstance(st.targets[0], ast.Name):
                fenv.local[st.targets[0].id] = (st.value, Env(fn._module, dict(fenv.local)))
            elif isinstance(st, ast.Return):
                ret = st.value
        if ret is None:
            raise Unknown("factory without return: " + fn.name)
        return self.eval_con(ret, fenv, depth + 1)


_CONSTRUCT_SIGS = {
    "ExprAdapter": ("subcon", "decoder", "encoder"), "ExprSymmetricAdapter": ("subcon", "encoder"), "ExprValidator": ("subcon", "validator"),
    "Rebuild": ("subcon", "func"), "Default": ("subcon", "value"), "Mapping": ("subcon", "mapping"), "Slicing": ("subcon", "count", "start", "stop", "step", "empty"),
    "NullStripped": ("subcon", "pad"),
}


def _lit(v):
    return ast.Constant(value=v)


def unn(x):
    return x[2] if isinstance(x, tuple) else x


def this_path(node, roots):
    parts = []
    while isinstance(node, ast.Attribute) or (isinstance(node, ast.Subscript) and isinstance(node.slice, ast.Constant)
                                              and isinstance(node.slice.value, str) and node.slice.value.isidentifier()):
        # this["a"]["b"] is this.a.b
        parts.append(node.attr if isinstance(node, ast.Attribute) else node.slice.value)
        node = node.value
    if isinstance(node, ast.Name) and node.id in roots and parts:
        return ".".join(reversed(parts))
    return None


def find_construct_calls(ctx, mod, names):
    """yield (node, construct-name) for every use of the given construct library names in a module
    (calls, or bare names such as GreedyBytes)."""
    for node in ast.walk(mod.tree):
        if isinstance(node, ast.Call) and isinstance(node.func, ast.Name):
            r = ctx.prog.resolve(mod, node.func.id)
            if r and r[0] == "ext" and r[1] in CONSTRUCT_MODS and r[2] in names:
                yield node, r[2]
        elif isinstance(node, ast.Name) and isinstance(node.ctx, ast.Load) and not isinstance(getattr(node, "_parent", None), ast.Call):
            r = ctx.prog.resolve(mod, node.id)
            if r and r[0] == "ext" and r[1] in CONSTRUCT_MODS and r[2] in names:
                yield node, r[2]
        elif isinstance(node, ast.Name) and isinstance(node.ctx, ast.Load) and isinstance(getattr(node, "_parent", None), ast.Call) \
                and node is not node._parent.func:
            r = ctx.prog.resolve(mod, node.id)
            if r and r[0] == "ext" and r[1] in CONSTRUCT_MODS and r[2] in names:
                yield node, r[2]


# ---------------------------------------------------------------- description
class Describer:
    """Turns a layout into rows {path, off, size, leaf, wrap, ann} where `ann` carries the canonical
    (E-AFF) form of every expression, mapping table and enum attached to the field."""

    def __init__(self, layouts):
        self.L = layouts
        self.ctx = layouts.ctx
        self.prog = layouts.prog
        self.folder = layouts.folder

    # canonical form of an expression argument ---------------------------------
    def canon(self, node, mod, depth=0):
        from .terms import Evaluator, Term, inline_call
        if node is None:
            return None
        if isinstance(node, L):
            return node.desc()
        if isinstance(node, (list, tuple)):
            return [self.canon(n, mod, depth) for n in node]
        if not isinstance(node, ast.AST):
            return self._val(node)
        const_of = self.L.const_of(mod, depth)

        def fold_sizeof(n_):
            if isinstance(n_, ast.Call) and isinstance(n_.func, ast.Attribute) and n_.func.attr == "sizeof" and not n_.args and not n_.keywords:
                v_ = self.L.const(n_, Env(mod))
                if isinstance(v_, int) and not isinstance(v_, bool):
                    return v_
            if isinstance(n_, ast.Call) and isinstance(n_.func, ast.Name) and n_.func.id == "sum" and len(n_.args) == 1 and not n_.keywords:
                v_ = self.L.const(n_, Env(mod))
                if isinstance(v_, int) and not isinstance(v_, bool):
                    return v_
            raise ValueError("not a static size")

        def func_of(name):
            r = self.prog.resolve(mod, name)
            if r and r[0] == "func":
                m2 = r[2]
                return (r[1], lambda env: Evaluator(env=env, const_of=self.folder.const_of(m2), func_of=None, this_names=("this",)))
            if r and r[0] == "assign" and isinstance(r[1], ast.Lambda):
                m2 = r[2]
                return (r[1], lambda env: Evaluator(env=env, const_of=self.folder.const_of(m2), func_of=None, this_names=("this",)))
            return None

        if isinstance(node, ast.Call) and not node.keywords and len(node.args) == 1 and isinstance(node.args[0], ast.Constant) and isinstance(node.args[0].value, str) \
                and ((isinstance(node.func, ast.Name) and node.func.id == "attrgetter") or (isinstance(node.func, ast.Attribute) and node.func.attr == "attrgetter"
                                                                                           and isinstance(node.func.value, ast.Name) and node.func.value.id == "operator")) \
                and all(x.isidentifier() for x in node.args[0].value.split(".")):
            # operator.attrgetter("a.b") applied to the context is the context function this.a.b
            return "this." + node.args[0].value
        if isinstance(node, ast.Lambda):
            params = [a.arg for a in node.args.args]
            ev = Evaluator(const_of=const_of, func_of=func_of, this_names=(params[0],) if params else (), fold=fold_sizeof)
            env = {p: Term.atom("ctx" if i else "this") for i, p in enumerate(params)}
            env.pop(params[0], None) if params else None
            ev.env = env
            return ev.ev(node.body).key()
        if isinstance(node, ast.Name):
            r = self.prog.resolve(mod, node.id)
            if r and r[0] == "func":
                fn = r[1]
                params = [a.arg for a in fn.args.args]
                # predicate functions: canonical disjunctive normal form over their return paths (insensitive to
                # guard clauses / merged conditions / temporaries)
                def boolish(e):
                    if isinstance(e, (ast.Compare, ast.BoolOp)) or (isinstance(e, ast.UnaryOp) and isinstance(e.op, ast.Not)):
                        return True
                    if isinstance(e, ast.Constant) and isinstance(e.value, bool):
                        return True
                    if isinstance(e, ast.Name):
                        ds = [a.value for a in ast.walk(fn) if isinstance(a, ast.Assign) and any(isinstance(t, ast.Name) and t.id == e.id for t in a.targets)]
                        return bool(ds) and all(boolish(d) for d in ds)
                    return False

                rets = [x.value for x in ast.walk(fn) if isinstance(x, ast.Return) and x.value is not None]
                if params and not fn.args.defaults and rets and all(boolish(x) for x in rets):
                    try:
                        from ..rules.sem import dnf_of_paths, dnf_text
                        d = dnf_of_paths(self.ctx, fn, this_names=(params[0],))
                        if d:
                            return "dnf[" + dnf_text(d) + "]"
                    except AnalysisError:
                        pass
                fake = ast.Call(func=node, args=[ast.Name(id="this" if i == 0 else "ctx", ctx=ast.Load()) for i in range(max(1, len(params) - len(fn.args.defaults)))], keywords=[])
                ev = Evaluator(const_of=const_of, func_of=func_of, this_names=("this",), fold=fold_sizeof)
                t = inline_call(fn, fake, ev, lambda env: Evaluator(env=env, const_of=self.L.const_of(r[2]) if hasattr(self.L, "const_of") else self.folder.const_of(r[2]), func_of=None,
                                                                    this_names=("this",), fold=fold_sizeof))
                if t is not None:
                    return t.key()
                return "func:" + node.id
            if r and r[0] == "class":
                mem = self.folder.enum_members(r[1])
                if mem is not None:
                    return "enum:" + r[1].name + "{" + ",".join(f"{k}={self._val(v)}" for k, v in mem.items()) + "}"
                return "class:" + r[1].name
            if r and r[0] == "assign" and isinstance(r[1], ast.Lambda):
                return self.canon(r[1], r[2], depth + 1)
        try:
            v = self.folder.ev(node, mod)
            return self._val(v)
        except NotConst:
            pass
        ev = Evaluator(const_of=const_of, func_of=func_of, this_names=("this", "obj_"))
        return ev.ev(node).key()

    def _val(self, v):
        if isinstance(v, dict):
            return "{" + ",".join(f"{self._val(k)}:{self._val(x)}" for k, x in v.items()) + "}"
        if isinstance(v, (list, tuple)):
            return "(" + ",".join(self._val(x) for x in v) + ")"
        if isinstance(v, EnumVal):
            return f"{v.cls}.{v.name}={v.value}"
        if isinstance(v, bytes):
            return "b:" + v.hex()
        if isinstance(v, LambdaVal):
            return self.canon(v.node, v.mod)
        if isinstance(v, tuple) and len(v) == 2 and v[0] in ("class", "func"):
            return f"{v[0]}:{getattr(v[1], 'name', '?')}"
        return repr(v)

    # annotations of one field ---------------------------------------------------
    def annotate(self, f):
        ann = []
        cur = f
        while True:
            if isinstance(cur, Wrap):
                mod = self._mod_of(cur)
                if cur.tag in ("Lazy", "Optional", "Peek", "Hex", "Compiled", "Indexing"):
                    pass
                elif cur.tag in ("Rebuild", "Default", "ExprAdapter", "ExprSymmetricAdapter", "ExprValidator", "Enum", "EnumConstruct",
                               "Mapping", "Filter", "NullStripped", "Slicing"):
                    args = list(cur.extra or [])
                    kws = []
                    if cur.node is not None and isinstance(cur.node, ast.Call):
                        kws = [(k.arg, k.value) for k in cur.node.keywords if k.arg]
                        for k in cur.node.keywords:
                            if k.arg is None and mod is not None:
                                # f(**{name: value, ...}) with a constant table: the same keywords spelled out
                                try:
                                    tbl = self.folder.ev(k.value, mod)
                                except Exception:
                                    tbl = None
                                if isinstance(tbl, dict) and all(isinstance(x, str) for x in tbl):
                                    kws += [(x, _lit(v)) for x, v in tbl.items()]
                                else:
                                    kws.append(("**", k.value))
                    # keyword spelling of the library's positional parameters: ExprAdapter(subcon, decoder=f, encoder=g) is ExprAdapter(subcon, f, g)
                    sig = _CONSTRUCT_SIGS.get(cur.tag)
                    if sig and kws:
                        i_ = len(args) + 1  # the sub-construct is parameter 0
                        kd = dict(kws)
                        while i_ < len(sig) and sig[i_] in kd:
                            args.append(kd.pop(sig[i_]))
                            i_ += 1
                        kws = [(k_, v_) for k_, v_ in kws if k_ in kd]
                    vals = [self.canon(a, mod) for a in args] + [f"{k}={self.canon(v, mod)}" for k, v in kws]
                    ann.append(f"{cur.tag}[" + "; ".join(str(v) for v in vals) + "]")
                elif cur.tag == "Const":
                    ann.append(f"Const[{self._val(cur.extra)}]")
                elif cur.node is not None and isinstance(cur.node, ast.Call) and mod is not None:
                    # repo adapter class / factory: canonical forms of its non-construct arguments
                    vals = []
                    skip = getattr(cur, "subcon_nodes", set())
                    for a in list(cur.node.args) + [k.value for k in cur.node.keywords]:
                        if id(a) in skip:
                            continue  # the sub-construct, described structurally
                        vals.append(self.canon(a, mod))
                    ann.append(f"{cur.tag}[" + "; ".join(str(v) for v in vals) + "]")
                cur = cur.inner
                continue
            if isinstance(cur, Zero):
                mod = cur.env.mod if cur.env is not None else None
                if cur.tag in ("Computed", "Seek", "Check") and cur.extra is not None and mod is not None:
                    ann.append(f"{cur.tag}[{self.canon(cur.extra, mod)}]")
                elif cur.tag == "If" and mod is not None and cur.node is not None:
                    then = cur.node.args[1] if len(cur.node.args) > 1 else None
                    td = ""
                    if then is not None:
                        try:
                            tl = unn(self.L.eval_con(then, cur.env))
                            td = "".join(self.annotate(tl)) or tl.desc()
                        except Unknown:
                            td = "?"
                    ann.append(f"If[{self.canon(cur.extra, mod)} -> {td}]")
                elif cur.tag == "Pointer" and mod is not None:
                    ann.append(f"Pointer[{self.canon(cur.extra[0], mod)}]")
                elif cur.node is not None and isinstance(cur.node, ast.Call) and mod is not None and cur.tag not in ("Pass", "Tell"):
                    vals = []
                    for a in list(cur.node.args) + [k.value for k in cur.node.keywords]:
                        vals.append(self.canon(a, mod) if not isinstance(a, ast.Name) or not self._is_class(a, mod) else "class:" + a.id)
                    kw = [k.arg for k in cur.node.keywords]
                    ann.append(f"{cur.tag}[" + "; ".join(str(v) for v in vals) + (" | kw=" + ",".join(kw) if kw else "") + "]")
            elif isinstance(cur, Prim) and cur.kind == "const":
                ann.append(f"Const[{self._val(cur.extra)}]")
            elif isinstance(cur, Prim) and cur.kind == "str" and cur.extra:
                ann.append(f"encoding[{cur.extra}]")
            elif isinstance(cur, Dyn) and cur.tag == "Switch" and cur.node is not None:
                mod = cur.env.mod
                kw_ = {k.arg: k.value for k in cur.node.keywords if k.arg}
                key = self.canon(cur.node.args[0] if cur.node.args else kw_.get("keyfunc"), mod)
                cases = []
                d = cur.node.args[1] if len(cur.node.args) > 1 else kw_.get("cases")
                denv = cur.env
                if isinstance(d, ast.Name):
                    # a case table bound to a module-level name
                    r_ = self.prog.resolve(mod, d.id)
                    if r_ and r_[0] == "assign" and isinstance(r_[1], ast.Dict):
                        d, denv = r_[1], Env(r_[2])
                if isinstance(d, ast.Dict):
                    for k, v in zip(d.keys, d.values):
                        try:
                            vl = unn(self.L.eval_con(v, denv)).desc()
                        except Unknown:
                            vl = "?"
                        cases.append(f"{self.canon(k, denv.mod)} -> {vl}")
                ann.append(f"Switch[{key}: " + "; ".join(cases) + "]")
            elif isinstance(cur, Dyn) and cur.tag == "Bytes" and cur.node is not None:
                ann.append(f"Bytes[{self.canon(cur.node.args[0], cur.env.mod)}]")
            elif isinstance(cur, Arr) and isinstance(cur.count, Sym):
                ann.append(f"count[{cur.count.name}]")
            if isinstance(cur, Fixed):
                cur = cur.inner
                continue
            if isinstance(cur, Arr):
                cur = cur.elem
                continue
            break
        return ann

    def _is_class(self, node, mod):
        r = self.prog.resolve(mod, node.id)
        return bool(r and r[0] == "class" and self.folder.enum_members(r[1]) is None)

    def _mod_of(self, w):
        cands = [w.node] if w.node is not None else []
        if isinstance(w.node, ast.Call):
            cands += list(w.node.args) + [k.value for k in w.node.keywords]
        for n in cands:
            while n is not None:
                if hasattr(n, "_module"):
                    return n._module
                n = getattr(n, "_parent", None)
        return None

    # rows ------------------------------------------------------------------------
    def rows(self, lay, prefix="", off=0, out=None, depth=0):
        out = [] if out is None else out
        core = lay.core() if hasattr(lay, "core") else lay
        if isinstance(core, Dyn) and core.tag in ("Prefixed", "GreedyRange"):
            for i, p in enumerate(core.parts):
                if isinstance(p, L):
                    out.append({"path": f"{prefix}<{core.tag}.{i}>", "off": None, "size": self._sz(p.size), "leaf": p.core().desc() if not isinstance(p.core(), Struct) else "Struct", "wrap": list(p.wrappers()), "ann": self.annotate(p)})
                    self.rows(p, f"{prefix}<{core.tag}.{i}>.", None, out, depth + 1)
            return out
        if isinstance(core, Dyn) and core.tag == "Union":
            for nm, p in zip(getattr(core, "names", []), core.parts):
                out.append({"path": f"{prefix}{nm}", "off": 0, "size": self._sz(p.size), "leaf": p.core().desc() if not isinstance(p.core(), Struct) else "Struct", "wrap": list(p.wrappers()), "ann": self.annotate(p)})
                self.rows(p, f"{prefix}{nm}.", 0, out, depth + 1)
            return out
        if not isinstance(core, Struct) or depth > 8:
            return out
        for nm, f in core.fields:
            sz = f.size
            fc = f.core() if hasattr(f, "core") else f
            label = nm if nm is not None else None
            if label is not None or isinstance(fc, Zero) or (isinstance(fc, Prim) and fc.kind == "const"):
                out.append({"path": prefix + (label or f"<{fc.tag}>"), "off": self._sz(off), "size": self._sz(sz),
                            "leaf": "Struct" if isinstance(fc, Struct) else fc.desc(), "wrap": list(f.wrappers()), "ann": self.annotate(f)})
            sub = fc
            while isinstance(sub, (Fixed,)):
                sub = sub.inner.core() if hasattr(sub.inner, "core") else sub.inner
            if isinstance(sub, Struct):
                self.rows(sub, prefix + (nm + "." if nm is not None else ""), off, out, depth + 1)
            elif isinstance(sub, BitsS) and isinstance(sub.inner.core(), Struct):
                boff = 0
                for bn, bf in sub.inner.core().fields:
                    if bn is not None:
                        out.append({"path": prefix + (nm + "." if nm else "") + bn, "off": f"{self._sz(off)}+bit{boff}", "size": f"{bf.size}b",
                                    "leaf": bf.core().desc(), "wrap": list(bf.wrappers()), "ann": self.annotate(bf)})
                    boff += bf.size if isinstance(bf.size, int) else 0
            elif isinstance(sub, Arr) and isinstance(sub.elem.core(), Struct) and nm is not None:
                self.rows(sub.elem.core(), prefix + nm + "[].", off, out, depth + 1)
            elif isinstance(sub, Zero) and sub.tag == "Pointer" and nm is not None:
                tgt = sub.extra[1]
                self.rows(tgt, prefix + nm + "->", 0, out, depth + 1)
            elif isinstance(sub, Dyn) and sub.tag in ("Prefixed", "GreedyRange", "Union"):
                self.rows(sub, prefix + (nm + "." if nm else ""), None, out, depth + 1)
            if sz is None or off is None:
                off = None
            else:
                off = sadd(off, sz)
        return out

    def _sz(self, s):
        if isinstance(s, dict):
            return " + ".join((str(v) if not k else f"{v}*{'*'.join(k)}") for k, v in sorted(s.items()))
        if isinstance(s, Fraction):
            return str(s)
        return s
