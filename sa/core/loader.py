"""Front end: load /repo's package into an in-memory SourceSet, parse, build
module / class / function tables and a name resolver.

Nothing here imports or executes the analysed package.
"""
import ast
import os

PKG = "smpl_extract"
REPO = os.environ.get("VERIF_REPO", "/repo")


def clone(node):
    """copy of an AST (or list of ASTs) without the analysis back-links (_parent, _module): copy.deepcopy would follow them and
    duplicate the whole module"""
    if isinstance(node, list):
        return [clone(x) for x in node]
    if not isinstance(node, ast.AST):
        return node
    new = type(node).__new__(type(node))
    for f in node._fields:
        if hasattr(node, f):
            setattr(new, f, clone(getattr(node, f)))
    for a in ("lineno", "col_offset", "end_lineno", "end_col_offset", "_orig_lineno", "_ret_loop"):
        if hasattr(node, a):
            setattr(new, a, getattr(node, a))
    return new


class AnalysisError(Exception):
    """The analysis itself cannot proceed (exit 2): parse failure, missing
    anchor, unmodelled statement kind, internal inconsistency."""

    def __init__(self, rule, at, reason):
        super().__init__(f"rule={rule} at={at} reason={reason}")
        self.rule, self.at, self.reason = rule, at, reason


def load_sourceset(root=None):
    """path (relative to repo root) -> text, for every source the build covers."""
    root = root or REPO
    out = {}
    base = os.path.join(root, PKG)
    for d, dirs, files in os.walk(base):
        dirs[:] = sorted(x for x in dirs if x != "__pycache__")
        for f in sorted(files):
            if f.endswith((".py", ".pyx")):
                p = os.path.join(d, f)
                with open(p, encoding="utf-8") as fh:
                    out[os.path.relpath(p, root)] = fh.read().replace("\r\n", "\n")
    ksy = os.path.join(root, "ksy", "roland", "s770.ksy")
    if os.path.exists(ksy):
        with open(ksy, encoding="utf-8") as fh:
            out[os.path.relpath(ksy, root)] = fh.read()
    return out


def set_parents(tree):
    for node in ast.walk(tree):
        for ch in ast.iter_child_nodes(node):
            ch._parent = node
    tree._parent = None


def _stmt_lists(node):
    for field in ("body", "orelse", "finalbody", "handlers"):
        sub = getattr(node, field, None)
        if isinstance(sub, list) and sub and isinstance(sub[0], (ast.stmt, ast.ExceptHandler)):
            yield sub


def _relayout(tree, path):
    new = ast.parse(ast.unparse(tree), filename=path)

    def pair(a, b):
        la, lb = list(_stmt_lists(a)), list(_stmt_lists(b))
        if len(la) != len(lb):
            raise AnalysisError("front-end", path, "normalised module does not re-parse to the same statement structure")
        for xa, xb in zip(la, lb):
            if len(xa) != len(xb):
                raise AnalysisError("front-end", path, "normalised module does not re-parse to the same statement structure")
            for sa_, sb in zip(xa, xb):
                if type(sa_) is not type(sb):
                    raise AnalysisError("front-end", path, "normalised module does not re-parse to the same statement structure")
                line = getattr(sa_, "lineno", 0)
                for n in ast.walk(sb):
                    if not hasattr(n, "_orig_lineno"):
                        n._orig_lineno = line
                sb._orig_lineno = line
                pair(sa_, sb)

    # inner statements are visited after their parents: give them their own line (overwrite the parent's)
    def pair_top(a, b):
        la, lb = list(_stmt_lists(a)), list(_stmt_lists(b))
        if len(la) != len(lb):
            raise AnalysisError("front-end", path, "normalised module does not re-parse to the same statement structure")
        for xa, xb in zip(la, lb):
            if len(xa) != len(xb):
                raise AnalysisError("front-end", path, "normalised module does not re-parse to the same statement structure")
            for sa_, sb in zip(xa, xb):
                if type(sa_) is not type(sb):
                    raise AnalysisError("front-end", path, "normalised module does not re-parse to the same statement structure")
                line = getattr(sa_, "lineno", 0)
                for n in ast.walk(sb):
                    n._orig_lineno = line
                pair_top(sa_, sb)

    pair_top(tree, new)
    return new


class Module:
    def __init__(self, name, path, text, tree=None):
        self.name, self.path, self.text = name, path, text
        self.tree = tree if tree is not None else ast.parse(text, filename=path)
        set_parents(self.tree)
        self.tree._module = self
        self.env = {}
        self.functions = {}  # qualname -> FunctionDef
        self.classes = {}  # qualname -> ClassDef
        for st in self.tree.body:
            self._bind(st)
        self._collect(self.tree, "")

    def _bind(self, st):
        if isinstance(st, ast.Assign):
            for t in st.targets:
                if isinstance(t, ast.Name):
                    self.env[t.id] = ("assign", st.value)
        elif isinstance(st, ast.AnnAssign) and isinstance(st.target, ast.Name) and st.value is not None:
            self.env[st.target.id] = ("assign", st.value)
        elif isinstance(st, (ast.FunctionDef, ast.AsyncFunctionDef)):
            self.env[st.name] = ("func", st)
        elif isinstance(st, ast.ClassDef):
            self.env[st.name] = ("class", st)
        elif isinstance(st, ast.ImportFrom):
            mod = st.module or ""
            if st.level:
                parts = self.name.split(".")
                if not self.path.endswith("__init__.py"):
                    parts = parts[:-1]
                base = parts[: len(parts) - (st.level - 1)] if st.level > 1 else parts
                mod = ".".join(base + ([mod] if mod else []))
            for a in st.names:
                self.env[a.asname or a.name] = ("import", mod, a.name)
        elif isinstance(st, ast.Import):
            for a in st.names:
                self.env[a.asname or a.name.split(".")[0]] = ("import", a.name, None)
        elif isinstance(st, (ast.If, ast.Try)):
            for sub in ast.iter_child_nodes(st):
                if isinstance(sub, ast.stmt):
                    self._bind(sub)

    def _collect(self, node, prefix):
        for st in ast.iter_child_nodes(node):
            if isinstance(st, (ast.FunctionDef, ast.AsyncFunctionDef)):
                q = prefix + st.name
                st._qualname = q
                st._module = self
                self.functions[q] = st
                self._collect(st, q + ".")
            elif isinstance(st, ast.ClassDef):
                q = prefix + st.name
                st._qualname = q
                st._module = self
                self.classes[q] = st
                self._collect(st, q + ".")
            elif isinstance(st, (ast.If, ast.Try, ast.With, ast.For, ast.While)):
                self._collect(st, prefix)
            elif isinstance(st, ast.ExceptHandler):
                self._collect(st, prefix)


class Program:
    """All parsed modules of the package plus resolution helpers."""

    def __init__(self, sources):
        self.sources = sources
        self.modules = {}  # dotted name -> Module
        self.by_path = {}
        self.pyx = {}  # path -> (rewritten text, tree)
        errors = []
        trees = {}
        for path, text in sorted(sources.items()):
            if path.endswith(".py"):
                try:
                    trees[path] = ast.parse(text, filename=path)
                except SyntaxError as e:
                    errors.append((path, e))
        if errors:
            p, e = errors[0]
            raise AnalysisError("front-end", f"{p}:{e.lineno}", f"does not parse: {e.msg}")
        # front-end normalisation: helpers that do not exist in the pinned tree are folded back into their callers
        from .inline import normalise_program
        self.inlined = normalise_program(trees)
        for path in self.inlined:
            # re-layout the normalised module so that line numbers again reflect statement order (rules use them as an
            # order proxy); the original positions are kept in _orig_lineno for reports
            trees[path] = _relayout(trees[path], path)
        for path, text in sorted(sources.items()):
            if path.endswith(".py"):
                name = path[:-3].replace("/", ".")
                if name.endswith(".__init__"):
                    name = name[: -len(".__init__")]
                m = Module(name, path, text, trees[path])
                self.modules[name] = m
                self.by_path[path] = m
        self._mro_cache = {}

    # ---------------------------------------------------------------- anchors
    def module(self, path):
        m = self.by_path.get(path)
        if m is None:
            raise AnalysisError("anchor", path, "module not found in the package")
        return m

    def function(self, path, qualname, rule="anchor"):
        m = self.module(path)
        f = m.functions.get(qualname)
        if f is None and "." in qualname:
            # a method the class no longer defines itself but inherits from a base of the package (moved to a mixin / base class):
            # what runs for instances of the class is the method the MRO finds
            cname, meth = qualname.rsplit(".", 1)
            c = m.classes.get(cname)
            if c is not None:
                try:
                    f = self.find_method(c, meth)
                except Exception:
                    f = None
        if f is None:
            raise AnalysisError(rule, f"{path}:{qualname}", "function/method not found (anchor vanished)")
        return f

    def klass(self, path, qualname, rule="anchor"):
        m = self.module(path)
        c = m.classes.get(qualname)
        if c is None:
            raise AnalysisError(rule, f"{path}:{qualname}", "class not found (anchor vanished)")
        return c

    def assigned(self, path, name, rule="anchor"):
        m = self.module(path)
        b = m.env.get(name)
        if b is None or b[0] != "assign":
            raise AnalysisError(rule, f"{path}:{name}", "module-level assignment not found (anchor vanished)")
        return b[1]

    def class_assigned(self, path, cls, name, rule="anchor"):
        c = self.klass(path, cls, rule)
        for st in c.body:
            if isinstance(st, ast.Assign):
                for t in st.targets:
                    if isinstance(t, ast.Name) and t.id == name:
                        return st.value
            if isinstance(st, ast.AnnAssign) and isinstance(st.target, ast.Name) and st.target.id == name and st.value is not None:
                return st.value
        raise AnalysisError(rule, f"{path}:{cls}.{name}", "class-level assignment not found (anchor vanished)")

    # ------------------------------------------------------------- resolution
    def resolve(self, mod, name, _depth=0):
        """Resolve a module-level name to its definition.
        Returns ('assign', node, Module) | ('func', node, Module) | ('class', node, Module)
                | ('ext', modname, attr) | None"""
        if _depth > 12:
            return None
        b = mod.env.get(name)
        if b is None:
            return None
        if b[0] == "import":
            target, attr = b[1], b[2]
            if attr is not None and target in self.modules:
                return self.resolve(self.modules[target], attr, _depth + 1)
            if attr is None and target in self.modules:
                return ("module", self.modules[target], None)
            if attr is not None and (target + "." + attr) in self.modules:
                return ("module", self.modules[target + "." + attr], None)
            return ("ext", target, attr)
        return (b[0], b[1], mod)

    def resolve_class(self, mod, expr):
        """expr: ast.Name / ast.Attribute / ast.Subscript(Generic[...]) -> (ClassDef, Module) or ('ext', name)"""
        if isinstance(expr, ast.Subscript):
            return self.resolve_class(mod, expr.value)
        if isinstance(expr, ast.Name):
            r = self.resolve(mod, expr.id)
            if r is None:
                return ("ext", expr.id)
            if r[0] == "class":
                return (r[1], r[2])
            if r[0] == "ext":
                return ("ext", r[2] or r[1])
            return ("ext", expr.id)
        if isinstance(expr, ast.Attribute):
            return ("ext", expr.attr)
        return ("ext", "?")

    def bases(self, cls):
        out = []
        for b in cls.bases:
            out.append(self.resolve_class(cls._module, b))
        return out

    def mro(self, cls):
        """Linearised list of repo ClassDefs (DFS, left-to-right, duplicates removed keeping
        the last occurrence - adequate for the single-inheritance-plus-mixins shapes used here)."""
        key = id(cls)
        if key in self._mro_cache:
            return self._mro_cache[key]
        order = []

        def visit(c):
            order.append(c)
            for b in self.bases(c):
                if b[0] != "ext":
                    visit(b[0])

        visit(cls)
        seen, res = set(), []
        for c in reversed(order):
            if id(c) not in seen:
                seen.add(id(c))
                res.append(c)
        res.reverse()
        # keep subclass-before-base order
        self._mro_cache[key] = res
        return res

    def ext_bases(self, cls):
        out = []
        for c in self.mro(cls):
            for b in self.bases(c):
                if b[0] == "ext":
                    out.append(b[1])
        return out

    def find_method(self, cls, name, skip_self=False):
        for c in self.mro(cls)[1 if skip_self else 0:]:
            for st in c.body:
                if isinstance(st, (ast.FunctionDef, ast.AsyncFunctionDef)) and st.name == name:
                    return st
        return None

    def all_classes(self):
        for m in self.modules.values():
            for q, c in m.classes.items():
                yield m, q, c

    def signatures(self):
        """callable name -> positional parameter names (without self/cls), for names whose every definition in the package
        agrees: module functions, classes (their __init__, through the package-local MRO), methods"""
        sigs = {}

        def add(name, params):
            if name in sigs and sigs[name] != params:
                sigs[name] = None
            elif name not in sigs:
                sigs[name] = params

        for m in self.modules.values():
            for q, f in m.functions.items():
                a = f.args
                if a.vararg or a.kwarg:
                    add(q.split(".")[-1], None)
                    continue
                params = [x.arg for x in a.posonlyargs + a.args]
                par = getattr(f, "_parent", None)
                if isinstance(par, ast.ClassDef):
                    static = any(isinstance(d, ast.Name) and d.id == "staticmethod" for d in f.decorator_list)
                    if not static:
                        params = params[1:]
                    if f.name == "__init__":
                        continue
                add(f.name, tuple(params))
            for q, c in m.classes.items():
                init = None
                try:
                    for k in self.mro(c):
                        for st in k.body:
                            if isinstance(st, ast.FunctionDef) and st.name == "__init__":
                                init = st
                                break
                        if init is not None:
                            break
                except Exception:
                    init = None
                if init is not None and not init.args.vararg and not init.args.kwarg:
                    add(c.name, tuple(x.arg for x in (init.args.posonlyargs + init.args.args)[1:]))
                elif init is None:
                    # dataclass: field order
                    is_dc = any((isinstance(d, ast.Name) and d.id == "dataclass") or (isinstance(d, ast.Call) and isinstance(d.func, ast.Name) and d.func.id == "dataclass")
                                for d in c.decorator_list)
                    if is_dc and not c.bases:
                        add(c.name, tuple(st.target.id for st in c.body if isinstance(st, ast.AnnAssign) and isinstance(st.target, ast.Name)))
                    else:
                        add(c.name, None)
                else:
                    add(c.name, None)
        return {k: v for k, v in sigs.items() if v is not None}

    def all_functions(self):
        for m in self.modules.values():
            for q, f in m.functions.items():
                yield m, q, f

    def subclasses_of(self, cls):
        out = []
        for m, q, c in self.all_classes():
            if c is not cls and cls in self.mro(c):
                out.append(c)
        return out

    def is_property(self, fn):
        return any(isinstance(d, ast.Name) and d.id == "property" for d in fn.decorator_list)

    def dataclass_fields(self, cls):
        """Ordered instance fields as dataclasses would order them (base first).
        Returns list of (name, annotation node, default node|None); ClassVar excluded."""
        fields = {}
        for c in reversed(self.mro(cls)):
            if not any(
                (isinstance(d, ast.Name) and d.id == "dataclass")
                or (isinstance(d, ast.Call) and isinstance(d.func, ast.Name) and d.func.id == "dataclass")
                for d in c.decorator_list
            ):
                continue
            for st in c.body:
                if isinstance(st, ast.AnnAssign) and isinstance(st.target, ast.Name):
                    ann = ast.unparse(st.annotation)
                    if ann.startswith("ClassVar"):
                        fields.pop(st.target.id, None)
                        continue
                    if st.target.id in fields:
                        fields[st.target.id] = (st.target.id, st.annotation, st.value)
                    else:
                        fields[st.target.id] = (st.target.id, st.annotation, st.value)
        return list(fields.values())


# ---------------------------------------------------------------- AST helpers
def qual(fn):
    return getattr(fn, "_qualname", getattr(fn, "name", "?"))


def where(node, fn=None):
    m = None
    n = node
    while n is not None and not isinstance(n, ast.Module):
        if hasattr(n, "_module"):
            m = n._module
            break
        n = getattr(n, "_parent", None)
    path = m.path if m else "?"
    return f"{path}:{getattr(node, '_orig_lineno', getattr(node, 'lineno', 0))}"


def enclosing_function(node):
    n = getattr(node, "_parent", None)
    while n is not None:
        if isinstance(n, (ast.FunctionDef, ast.AsyncFunctionDef, ast.Lambda)):
            return n
        n = getattr(n, "_parent", None)
    return None


def enclosing_class(node):
    n = getattr(node, "_parent", None)
    while n is not None:
        if isinstance(n, ast.ClassDef):
            return n
        n = getattr(n, "_parent", None)
    return None


def norm(node):
    """Normalised text of a statement/expression (key for findings; line independent)."""
    try:
        return " ".join(ast.unparse(node).split())[:200]
    except Exception:
        return type(node).__name__


def full(node):
    """Normalised text without truncation (for sub-expression containment tests)."""
    try:
        return " ".join(ast.unparse(node).split())
    except Exception:
        return type(node).__name__


def dotted(node):
    """a.b.c -> 'a.b.c' ; otherwise None"""
    parts = []
    while isinstance(node, ast.Attribute):
        parts.append(node.attr)
        node = node.value
    if isinstance(node, ast.Name):
        parts.append(node.id)
        return ".".join(reversed(parts))
    return None


def calls_in(node):
    for n in ast.walk(node):
        if isinstance(n, ast.Call):
            yield n


def call_name(call):
    """Last attribute / name of the callee."""
    f = call.func
    if isinstance(f, ast.Name):
        return f.id
    if isinstance(f, ast.Attribute):
        return f.attr
    return None


def own_nodes(fn):
    """Walk a function's body without descending into nested function/class definitions
    (lambdas and comprehensions are kept: they execute as part of the function's statements)."""
    stack = list(fn.body) if hasattr(fn, "body") and isinstance(fn.body, list) else [fn.body]
    while stack:
        n = stack.pop()
        yield n
        for ch in ast.iter_child_nodes(n):
            if isinstance(ch, (ast.FunctionDef, ast.AsyncFunctionDef, ast.ClassDef)):
                continue
            stack.append(ch)
