"""E-RX: regex ASTs (re._parser) and a small abstract domain for strings:
(alphabet over a partition of code points, possible first classes, possible last classes,
may-be-empty)."""
import re
import re._parser as sre_parse
import re._constants as sre_c

# partition of code points
W, SP, WS, DASH, DOT, HASH, LP, RP, SL, BSL, COLON, Q, OTHER = "W", "SP", "WS", "-", ".", "#", "(", ")", "/", "\\", ":", "Q", "OTHER"
ALL = frozenset([W, SP, WS, DASH, DOT, HASH, LP, RP, SL, BSL, COLON, Q, OTHER])
SINGLE = {"-": DASH, ".": DOT, "#": HASH, "(": LP, ")": RP, "/": SL, "\\": BSL, ":": COLON, " ": SP}
QUOTES = set("'\"`")
OTHER_WS = set("\t\n\r\x0b\x0c")


def classes_of_char(ch):
    if ch in SINGLE:
        return {SINGLE[ch]}
    if ch in QUOTES:
        return {Q}
    if ch in OTHER_WS:
        return {WS}
    if ch.isalnum() or ch == "_":
        return {W}
    return {OTHER}


def classes_of_text(s):
    out = set()
    for ch in s:
        out |= classes_of_char(ch)
    return out


def _unwrap_once(sub):
    """`X{1}` (a repeat of exactly one) is X; a one-character class `[.]` is that literal: written out in the tree so that the
    shape checks see one form"""
    data = sub.data if hasattr(sub, "data") else sub
    i = 0
    while i < len(data):
        op, av = data[i]
        if op is sre_c.SUBPATTERN and av[0] is None and not av[1] and not av[2]:
            # a non-capturing group without flags is its contents
            inner = list(av[3].data if hasattr(av[3], "data") else av[3])
            if not any(o_ is sre_c.BRANCH for o_, _a in inner):
                data[i:i + 1] = inner
                continue
        if op in (sre_c.MAX_REPEAT, sre_c.MIN_REPEAT, getattr(sre_c, "POSSESSIVE_REPEAT", None)) and op is not None:
            _unwrap_once(av[2])
            if av[0] == 1 and av[1] == 1:
                inner = list(av[2].data if hasattr(av[2], "data") else av[2])
                data[i:i + 1] = inner
                continue
            body = list(av[2].data if hasattr(av[2], "data") else av[2])
            if op is sre_c.MAX_REPEAT and av[1] is sre_c.MAXREPEAT and len(body) == 1 and i > 0 and data[i - 1] == body[0] \
                    and body[0][0] in (sre_c.LITERAL, sre_c.NOT_LITERAL, sre_c.ANY, sre_c.IN, sre_c.CATEGORY):
                # `X X*` (one X, then any number more) is `X+`
                data[i - 1:i + 1] = [(sre_c.MAX_REPEAT, (av[0] + 1, av[1], av[2]))]
                i -= 1
                continue
        elif op is sre_c.SUBPATTERN:
            _unwrap_once(av[3])
        elif op is sre_c.BRANCH:
            for alt in av[1]:
                _unwrap_once(alt)
        elif op in (sre_c.ASSERT, sre_c.ASSERT_NOT):
            _unwrap_once(av[1])
        elif op is sre_c.IN and len(av) == 1 and av[0][0] is sre_c.LITERAL:
            data[i] = (sre_c.LITERAL, av[0][1])
        i += 1
    return sub


def parse(pattern, flags=0):
    return _unwrap_once(sre_parse.parse(pattern, flags))


def class_items(items):
    """items of an IN node -> (negated, set of partition classes FULLY covered, set of partition classes touched)"""
    neg = False
    full, touched = set(), set()
    lits = set()
    for op, av in items:
        if op is sre_c.NEGATE:
            neg = True
        elif op is sre_c.LITERAL:
            lits.add(chr(av))
        elif op is sre_c.CATEGORY:
            if av is sre_c.CATEGORY_WORD:
                full.add(W)
                touched.add(W)
            elif av is sre_c.CATEGORY_SPACE:
                full |= {SP, WS}
                touched |= {SP, WS}
            elif av is sre_c.CATEGORY_DIGIT:
                touched.add(W)
            else:
                touched.add(OTHER)
        elif op is sre_c.RANGE:
            lo, hi = av
            for c in range(lo, min(hi, 0x7f) + 1):
                touched |= classes_of_char(chr(c))
            if hi > 0x7f:
                touched.add(OTHER)
        else:
            touched.add(OTHER)
    for ch in lits:
        cl = classes_of_char(ch)
        touched |= cl
        for c in cl:
            if c in (DASH, DOT, HASH, LP, RP, SL, BSL, COLON, SP):
                full.add(c)
    if QUOTES <= lits:
        full.add(Q)
    if OTHER_WS <= lits:
        full.add(WS)
    return neg, full, touched


def negated_class_plus(pattern, flags=0):
    """if the pattern is `[^...]+` (a repeated negated class) return the set of partition classes that
    may SURVIVE (i.e. classes touched by the class items); else None"""
    t = parse(pattern, flags)
    if len(t) != 1:
        return None
    op, av = t[0]
    if op is not sre_c.MAX_REPEAT:
        return None
    lo, hi, sub = av
    if lo != 1 or hi is not sre_c.MAXREPEAT or len(sub) != 1 or sub[0][0] is not sre_c.IN:
        return None
    neg, full, touched = class_items(sub[0][1])
    if not neg:
        return None
    return frozenset(touched)


def positive_class_plus(pattern, flags=0):
    """`[...]+` -> set of partition classes fully removed when substituting by ''"""
    t = parse(pattern, flags)
    if len(t) != 1 or t[0][0] is not sre_c.MAX_REPEAT:
        return None
    lo, hi, sub = t[0][1]
    if lo != 1 or len(sub) != 1 or sub[0][0] is not sre_c.IN:
        return None
    neg, full, touched = class_items(sub[0][1])
    if neg:
        return None
    return frozenset(full)


def first_classes(seq):
    """over-approximation of the partition classes a match of `seq` can start with; None in the
    set means the sequence may match the empty string"""
    out = set()
    for op, av in seq:
        if op is sre_c.LITERAL:
            out |= classes_of_char(chr(av))
            return out
        if op is sre_c.NOT_LITERAL or op is sre_c.ANY:
            return out | set(ALL)
        if op is sre_c.IN:
            neg, full, touched = class_items(av)
            if neg:
                return out | (set(ALL) - full)
            return out | touched
        if op in (sre_c.MAX_REPEAT, sre_c.MIN_REPEAT):
            lo, hi, sub = av
            f = first_classes(sub)
            out |= {c for c in f if c is not None}
            if lo == 0 or None in f:
                continue
            return out
        if op is sre_c.SUBPATTERN:
            f = first_classes(av[3])
            out |= {c for c in f if c is not None}
            if None in f:
                continue
            return out
        if op is sre_c.BRANCH:
            may_empty = False
            for alt in av[1]:
                f = first_classes(alt)
                out |= {c for c in f if c is not None}
                may_empty = may_empty or None in f
            if may_empty:
                continue
            return out
        if op is sre_c.AT:
            continue
        if op in (sre_c.ASSERT, sre_c.ASSERT_NOT):
            continue
        return out | set(ALL)
    out.add(None)
    return out


def groups(tree):
    """list of (group number, subpattern seq, index in top-level sequence) for top-level groups"""
    out = []
    for i, (op, av) in enumerate(tree):
        if op is sre_c.SUBPATTERN and av[0] is not None:
            out.append((av[0], av[3], i))
    return out


def is_lazy_any_plus(seq):
    return len(seq) == 1 and seq[0][0] is sre_c.MIN_REPEAT and seq[0][1][0] == 1 and len(seq[0][1][2]) == 1 and seq[0][1][2][0][0] is sre_c.ANY


def is_lazy_any_star(seq):
    return len(seq) == 1 and seq[0][0] is sre_c.MIN_REPEAT and seq[0][1][0] == 0 and len(seq[0][1][2]) == 1 and seq[0][1][2][0][0] is sre_c.ANY


def starts_with_space_star(seq):
    if not seq:
        return False
    op, av = seq[0]
    if op is sre_c.MAX_REPEAT and av[0] == 0 and len(av[2]) == 1 and av[2][0][0] is sre_c.IN:
        neg, full, touched = class_items(av[2][0][1])
        return (not neg) and {SP, WS} <= full
    return False


def ends_at_end(tree):
    return len(tree) > 0 and tree[-1][0] is sre_c.AT and tree[-1][1] in (sre_c.AT_END, sre_c.AT_END_STRING)


def literal_text(seq):
    """the literal string matched by a sequence of LITERAL nodes (case as written), else None"""
    s = ""
    for op, av in seq:
        if op is sre_c.LITERAL:
            s += chr(av)
        else:
            return None
    return s


class AStr:
    """abstract string"""

    def __init__(self, alphabet=ALL, first=ALL, last=ALL, maybe_empty=True):
        self.alphabet, self.first, self.last, self.maybe_empty = frozenset(alphabet), frozenset(first), frozenset(last), maybe_empty

    def copy(self, **kw):
        d = dict(alphabet=self.alphabet, first=self.first, last=self.last, maybe_empty=self.maybe_empty)
        d.update(kw)
        return AStr(**d)

    @staticmethod
    def const(s):
        if not s:
            return AStr((), (), (), True)
        return AStr(classes_of_text(s), classes_of_char(s[0]), classes_of_char(s[-1]), False)

    def concat(self, o):
        alpha = self.alphabet | o.alphabet
        first = set(self.first) | (set(o.first) if self.maybe_empty else set())
        last = set(o.last) | (set(self.last) if o.maybe_empty else set())
        return AStr(alpha, first, last, self.maybe_empty and o.maybe_empty)

    def strip(self):
        ws = {SP, WS}
        # after stripping, the first/last characters are non-blank characters of the string
        inner = self.alphabet - ws
        first = (set(self.first) - ws) | (inner if self.first & ws else set())
        last = (set(self.last) - ws) | (inner if self.last & ws else set())
        return AStr(self.alphabet, first, last, self.maybe_empty or bool(self.alphabet & ws) and (bool(self.first & ws)))

    def sub_negated(self, survivors, repl):
        r = AStr.const(repl)
        alpha = (self.alphabet & survivors) | r.alphabet
        first = (self.first & survivors) | (r.first if (self.first - survivors) else frozenset())
        last = (self.last & survivors) | (r.last if (self.last - survivors) else frozenset())
        me = self.maybe_empty or (not repl and bool(self.alphabet - survivors))
        if not repl:
            first = first | (alpha if (self.first - survivors) else frozenset())
            last = last | (alpha if (self.last - survivors) else frozenset())
        return AStr(alpha, first, last, me)

    def remove_classes(self, removed):
        alpha = self.alphabet - removed
        first = (self.first - removed) | (alpha if self.first & removed else frozenset())
        last = (self.last - removed) | (alpha if self.last & removed else frozenset())
        return AStr(alpha, first, last, self.maybe_empty or bool(self.alphabet & removed))

    def sub_unknown(self, repl):
        r = AStr.const(repl)
        return AStr(self.alphabet | r.alphabet, self.first | r.first | self.alphabet, self.last | r.last | self.alphabet, True)

    def join(self, o):
        return AStr(self.alphabet | o.alphabet, self.first | o.first, self.last | o.last, self.maybe_empty or o.maybe_empty)

    def __repr__(self):
        return f"AStr(alpha={sorted(self.alphabet)}, first={sorted(self.first)}, last={sorted(self.last)}, empty={self.maybe_empty})"


def class_accepts(items, ch):
    """does the character class (items of an IN node) accept character ch? (ASCII categories only)"""
    neg = False
    hit = False
    o = ord(ch)
    for op, av in items:
        if op is sre_c.NEGATE:
            neg = True
        elif op is sre_c.LITERAL:
            hit = hit or av == o
        elif op is sre_c.RANGE:
            hit = hit or av[0] <= o <= av[1]
        elif op is sre_c.CATEGORY:
            if av is sre_c.CATEGORY_DIGIT:
                hit = hit or ch.isdigit()
            elif av is sre_c.CATEGORY_NOT_DIGIT:
                hit = hit or not ch.isdigit()
            elif av is sre_c.CATEGORY_WORD:
                hit = hit or ch.isalnum() or ch == "_"
            elif av is sre_c.CATEGORY_NOT_WORD:
                hit = hit or not (ch.isalnum() or ch == "_")
            elif av is sre_c.CATEGORY_SPACE:
                hit = hit or ch.isspace()
            elif av is sre_c.CATEGORY_NOT_SPACE:
                hit = hit or not ch.isspace()
    return hit != neg


# ---------------------------------------------------------------- backtracking safety
_ALPHABET = [chr(c) for c in range(32, 127)] + ["\t", "\n"]
_REPEATS = tuple(x for x in (sre_c.MAX_REPEAT, sre_c.MIN_REPEAT, getattr(sre_c, "POSSESSIVE_REPEAT", None)) if x is not None)


def first_chars(seq):
    """(set of ASCII characters a match of the item sequence can start with, can the sequence match the empty string)"""
    out = set()
    for op, av in seq:
        if op is sre_c.LITERAL:
            return out | {chr(av)}, False
        if op is sre_c.NOT_LITERAL:
            return out | {c for c in _ALPHABET if ord(c) != av}, False
        if op is sre_c.ANY:
            return out | set(_ALPHABET), False
        if op is sre_c.IN:
            return out | {c for c in _ALPHABET if class_accepts(av, c)}, False
        if op is sre_c.SUBPATTERN:
            f, nul = first_chars(av[3])
        elif op in _REPEATS:
            f, nul = first_chars(av[2])
            nul = nul or av[0] == 0
        elif op is sre_c.BRANCH:
            f, nul = set(), False
            for alt in av[1]:
                f2, n2 = first_chars(alt)
                f |= f2
                nul = nul or n2
        elif op in (sre_c.AT, sre_c.ASSERT, sre_c.ASSERT_NOT):
            continue  # zero-width
        elif getattr(sre_c, "ATOMIC_GROUP", None) is not None and op is sre_c.ATOMIC_GROUP:
            f, nul = first_chars(av)
        else:
            return out | set(_ALPHABET), True  # unknown item: assume anything
        out |= f
        if not nul:
            return out, False
    return out, True


def backtracking_hazards(tree):
    """constructs that make Python's backtracking matcher super-linear in the worst case by an exponential factor:
    an unbounded repeat nested (through groups / alternatives) inside another unbounded repeat, and an unbounded repeat over
    alternatives that can start with the same character.  Returns a list of descriptions."""
    out = []

    def walk(seq, inside):
        for op, av in seq:
            if op in _REPEATS:
                lo, hi, sub = av
                unb = hi is sre_c.MAXREPEAT or (isinstance(hi, int) and hi >= 65535)
                # a repeat of a single character / class item cannot be split in more than one way by itself
                simple = len(sub) == 1 and sub[0][0] in (sre_c.LITERAL, sre_c.NOT_LITERAL, sre_c.ANY, sre_c.IN)
                if unb and inside:
                    out.append("an unbounded repeat nested inside another unbounded repeat")
                if unb and not simple:
                    for op2, av2 in sub:
                        pass
                walk(sub, inside or (unb and not simple) or (unb and inside))
                if unb:
                    # alternatives directly under this repeat
                    stack = list(sub)
                    while stack:
                        o2, a2 = stack.pop()
                        if o2 is sre_c.SUBPATTERN:
                            stack.extend(a2[3])
                        elif o2 is sre_c.BRANCH:
                            firsts = [first_chars(alt)[0] for alt in a2[1]]
                            for i in range(len(firsts)):
                                for j in range(i + 1, len(firsts)):
                                    if firsts[i] & firsts[j]:
                                        out.append("an unbounded repeat over alternatives that can start with the same character")
            elif op is sre_c.SUBPATTERN:
                walk(av[3], inside)
            elif op is sre_c.BRANCH:
                for alt in av[1]:
                    walk(alt, inside)
            elif op in (sre_c.ASSERT, sre_c.ASSERT_NOT):
                walk(av[1], inside)
            elif getattr(sre_c, "ATOMIC_GROUP", None) is not None and op is sre_c.ATOMIC_GROUP:
                walk(av, inside)
            elif op is sre_c.GROUPREF_EXISTS:
                walk(av[1], inside)
                if av[2] is not None:
                    walk(av[2], inside)

    walk(list(tree), False)
    return sorted(set(out))


_SAMPLE_CHARS = [chr(c) for c in range(32, 127)] + ["\t", "\n", "\u00e9", "\u4e2d"]


def _single_char_pred(op, av):
    if op is sre_c.ANY:
        return lambda ch: ch != "\n"
    if op is sre_c.LITERAL:
        return lambda ch, c=chr(av): ch == c
    if op is sre_c.NOT_LITERAL:
        return lambda ch, c=chr(av): ch != c
    if op is sre_c.IN:
        return lambda ch, items=av: class_accepts(items, ch)
    return None


def polynomial_degree(tree):
    """(k, positions): the longest chain R1 .. Rk of unbounded single-character repeats in the top-level sequence (capturing groups
    looked into) that can all match one common character, with only items that can match the empty string between consecutive ones,
    and with an item after the chain that can fail (a mandatory item or an end anchor).  On a run of n such characters followed by a
    mismatch the backtracking matcher tries every way of splitting the run among the k repeats - about n^k / k! - before it gives up
    (for an anchored match; an unanchored search multiplies by n again).  k <= 1 is linear."""
    flat = []

    def fl(seq):
        for op, av in seq:
            if op is sre_c.SUBPATTERN:
                fl(av[3])
            else:
                flat.append((op, av))
    fl(list(tree))

    def nullable(op, av):
        if op in _REPEATS:
            return av[0] == 0
        return op is sre_c.AT

    def is_end(op, av):
        return op is sre_c.AT and av in (sre_c.AT_END, sre_c.AT_END_STRING)
    best = (0, [])
    n = len(flat)
    for i in range(n):
        chain, preds = [], []
        j = i
        while j < n:
            op, av = flat[j]
            if op in _REPEATS:
                lo, hi, sub = av
                p = _single_char_pred(*sub[0]) if len(sub) == 1 else None
                if hi is sre_c.MAXREPEAT and p is not None:
                    if any(p(ch) and all(q(ch) for q in preds) for ch in _SAMPLE_CHARS):
                        chain.append(j)
                        preds.append(p)
                        j += 1
                        continue
                    break
            if nullable(op, av) and not is_end(op, av):
                j += 1
                continue
            break
        can_fail = any(is_end(*flat[k]) or not nullable(*flat[k]) for k in range(j, n))
        if chain and can_fail and len(chain) > best[0]:
            best = (len(chain), chain)
    return best
