"""Per-path abstract evaluation of small functions over E-AFF terms.

Enumerates the acyclic CFG paths of a function (loop bodies at most once; variables assigned
inside a loop are havocked to fresh atoms `name~` at the loop head) and evaluates assignments
into an environment of Terms.  No feasibility reasoning: every syntactic path is kept."""
import ast
from fractions import Fraction
from .loader import clone as _ast_clone

from .loader import AnalysisError, dotted, where
from .terms import elem_term, Evaluator, Term
from .cfg import CFG


class Step:
    __slots__ = ("kind", "ast", "label", "env")

    def __init__(self, kind, astnode, label, env):
        self.kind, self.ast, self.label, self.env = kind, astnode, label, env


class PathResult:
    def __init__(self):
        self.steps = []
        self.conds = []  # (canonical text, taken: bool, test ast)
        self.ret = None
        self.ret_node = None
        self.end = None  # 'return' | 'raise' | 'fall'
        self.env = {}
        self.raised = None

    def lines(self):
        return sorted({getattr(s.ast, "lineno", 0) for s in self.steps if s.ast is not None})

    def cond_key(self):
        return " & ".join((c if t else f"not({c})") for c, t, _ in self.conds)


def _targets(st):
    if isinstance(st, ast.Assign):
        return st.targets
    if isinstance(st, (ast.AugAssign, ast.AnnAssign)):
        return [st.target]
    return []


def loop_assigned(loop):
    out = set()
    for st in loop.body:
        for n in ast.walk(st):
            for t in _targets(n) if isinstance(n, (ast.Assign, ast.AugAssign, ast.AnnAssign)) else []:
                for sub in ast.walk(t):
                    if isinstance(sub, ast.Name):
                        out.add(sub.id)
                    elif isinstance(sub, ast.Attribute):
                        d = dotted(sub)
                        if d:
                            out.add(d)
            if isinstance(n, (ast.For,)):
                for sub in ast.walk(n.target):
                    if isinstance(sub, ast.Name):
                        out.add(sub.id)
    return out


def run_paths(ctx, fn, env0=None, this_names=("this",), include_exc=False, limit=512, rule="symexec", func_of=None, fold=False):
    """-> list[PathResult] over all entry->(return|raise|fall-off) paths."""
    cfg = ctx.cfg(fn, rule)
    mod = getattr(fn, "_module", None)
    const_of = ctx.folder.const_of(mod) if mod is not None else None
    results = []
    skip = () if include_exc else ("exc",)

    folder = None
    if fold and mod is not None:
        # constant folding sees through single-definition local aliases (`akai = CharFormat.AKAI; T[akai]`)
        from ..rules.sem import single_defs, _Inline
        import copy as _copy
        _defs = single_defs(fn)

        _blocked = {a.arg for a in fn.args.posonlyargs + fn.args.args + fn.args.kwonlyargs}
        for _n in ast.walk(fn):
            if isinstance(_n, ast.Name) and isinstance(_n.ctx, ast.Store):
                _blocked.add(_n.id)
        _blocked -= set(_defs)

        def folder(node):
            if any(isinstance(n, ast.Name) and n.id in _blocked for n in ast.walk(node)):
                raise ValueError("mentions a variable")
            return ctx.folder.ev(_Inline(_defs).visit(_ast_clone(node)), mod)

        folder.smart = True

    _par = getattr(fn, "_parent", None)
    _owner = _par.name if isinstance(_par, ast.ClassDef) and any(isinstance(d, ast.Name) and d.id == "classmethod" for d in fn.decorator_list) else None

    def mk_eval(env):
        e = Evaluator(env=env, const_of=const_of, func_of=func_of, this_names=this_names, fold=folder)
        e.owner = _owner
        return e

    def bind(env, target, term, ev):
        if isinstance(target, ast.Name):
            env[target.id] = term
        elif isinstance(target, ast.Attribute):
            d = dotted(target)
            if d:
                env[d] = term
        elif isinstance(target, (ast.Tuple, ast.List)):
            for i, e in enumerate(target.elts):
                bind(env, e, elem_term(term.key(), i), ev)
        elif isinstance(target, ast.Subscript):
            d = dotted(target.value)
            if d:
                env[d] = Term.atom(f"store({d})")

    def walrus(root, env):
        # `(x := e)` inside the expression(s) evaluated at this node binds x (inner ones first)
        if root is None:
            return
        found = [n for n in ast.walk(root) if isinstance(n, ast.NamedExpr) and isinstance(n.target, ast.Name)]
        for n in reversed(found):
            env[n.target.id] = mk_eval(env).ev(n.value)

    def comp_unpack(st, env, ev):
        """a, b, c = [f(g) for g in T]  ->  a = f(T[0]), b = f(T[1]), ...; True when handled"""
        if not (isinstance(st, ast.Assign) and len(st.targets) == 1 and isinstance(st.targets[0], (ast.Tuple, ast.List))
                and isinstance(st.value, (ast.ListComp, ast.GeneratorExp)) and len(st.value.generators) == 1):
            return False
        g = st.value.generators[0]
        if g.ifs or not isinstance(g.target, ast.Name):
            return False
        it = ev.ev(g.iter)
        for i, t in enumerate(st.targets[0].elts):
            e2 = dict(env)
            e2[g.target.id] = Term.atom(f"sub({it.key()},{i})")
            bind(env, t, mk_eval(e2).ev(st.value.elt), ev)
        return True

    def dict_update(st, env, ev):
        return dict_update_stmt(st, env, ev)

    def folded_unpack(st, env, ev):
        """a, b, c = CONSTANT_TUPLE (a module-level table of numbers): each target gets its number"""
        if any(isinstance(n_, ast.Name) and n_.id in env for n_ in ast.walk(st.value)):
            return False
        try:
            val = ctx.folder.ev(st.value, mod)
        except Exception:
            return False
        tg = st.targets[0].elts
        if not isinstance(val, (tuple, list)) or len(val) != len(tg) or not all(isinstance(x_, (int, float, Fraction)) and not isinstance(x_, bool) for x_ in val):
            return False
        for t_, x_ in zip(tg, val):
            bind(env, t_, Term.const(Fraction(repr(x_)) if isinstance(x_, float) else x_), ev)
        return True

    def step(node, env, res):
        st = node.ast
        if node.kind == "test" and st is not None and hasattr(st, "test"):
            walrus(st.test, env)
        elif node.kind in ("stmt", "return") and st is not None:
            walrus(getattr(st, "value", None), env)
        ev = mk_eval(env)
        if node.kind == "stmt":
            if comp_unpack(st, env, ev):
                pass
            elif dict_update(st, env, ev):
                pass
            elif isinstance(st, ast.Assign):
                if isinstance(st.value, ast.Tuple) and len(st.targets) == 1 and isinstance(st.targets[0], ast.Tuple) \
                        and len(st.value.elts) == len(st.targets[0].elts):
                    vals = [ev.ev(e) for e in st.value.elts]
                    for t, v in zip(st.targets[0].elts, vals):
                        bind(env, t, v, ev)
                elif len(st.targets) == 1 and isinstance(st.targets[0], (ast.Tuple, ast.List)) and folded_unpack(st, env, ev):
                    pass
                else:
                    v = ev.ev(st.value)
                    for t in st.targets:
                        bind(env, t, v, ev)
            elif isinstance(st, ast.AnnAssign) and st.value is not None:
                bind(env, st.target, ev.ev(st.value), ev)
            elif dict_update(st, env, ev):
                pass
            elif isinstance(st, ast.AugAssign):
                cur = ev.ev(st.target) if not isinstance(st.target, ast.Subscript) else None
                if cur is not None:
                    fake = ast.BinOp(left=st.target, op=st.op, right=st.value)
                    ast.copy_location(fake, st)
                    bind(env, st.target, ev.ev(fake), ev)
        elif node.kind == "for":
            for sub in ast.walk(st.target):
                if isinstance(sub, ast.Name):
                    env[sub.id] = Term.atom(sub.id + "~")
        elif node.kind == "with":
            for it in st.items:
                if it.optional_vars is not None:
                    bind(env, it.optional_vars, ev.ev(it.context_expr), ev)
        elif node.kind == "except":
            if st.name:
                env[st.name] = Term.atom(st.name)

    def dfs(n, env, res, onpath, heads, exit_only=False):
        if len(results) > limit:
            raise AnalysisError(rule, where(fn), f"more than {limit} paths")
        node = cfg.nodes[n]
        if n == cfg.exit:
            res.end = res.end or "fall"
            res.env = env
            results.append(res)
            return
        if n == cfg.raise_exit:
            res.end = "raise"
            res.env = env
            results.append(res)
            return
        env = dict(env)
        is_head = node.kind in ("test", "for") and isinstance(node.ast, (ast.While, ast.For))
        if is_head:
            for v in loop_assigned(node.ast):
                env[v] = Term.atom(v + "~")
            heads = heads | {n}
        snap = dict(env)
        if not exit_only:
            step(node, env, res)
        succs = [(s, lab) for s, lab in node.succ if lab not in skip]
        if exit_only:
            succs = [(s, lab) for s, lab in succs if lab != "true"]
        if node.kind == "return":
            r2 = _clone(res)
            r2.steps.append(Step(node.kind, node.ast, "return", snap))
            r2.ret = mk_eval(snap).ev(node.ast.value) if node.ast.value is not None else None
            r2.ret_node = node.ast
            r2.end = "return"
            r2.env = env
            results.append(r2)
            return
        if node.kind == "raise":
            r2 = _clone(res)
            r2.steps.append(Step(node.kind, node.ast, "raise", snap))
            r2.end = "raise"
            exc = node.ast.exc
            if isinstance(exc, ast.Call):
                exc = exc.func
            r2.raised = dotted(exc) if exc is not None else "reraise"
            r2.env = env
            handler_succs = [(s, lab) for s, lab in succs if s != cfg.raise_exit]
            if not handler_succs or not include_exc:
                results.append(r2)
                return
            for s, lab in handler_succs:
                if (n, s, lab) in onpath:
                    continue
                dfs(s, env, _clone(r2, keep_end=False), onpath | {(n, s, lab)}, heads)
            return
        if not succs:
            # e.g. `while True` re-entered through its back edge: the abstract path ends here
            return
        for s, lab in succs:
            if (n, s, lab) in onpath:
                continue
            r2 = _clone(res)
            r2.steps.append(Step(node.kind, node.ast, lab, snap))
            if node.kind == "test" and lab in ("true", "false"):
                ck = mk_eval(snap).cond(node.ast.test)
                if _trivial(ck) is (lab != "true"):
                    continue  # `None is None` cannot be false: the arm is dead on this path
                r2.conds.append((ck, lab == "true", node.ast))
            back = (n, s) in cfg.back_edges and s in heads
            dfs(s, env, r2, onpath | {(n, s, lab)}, heads, exit_only=back)

    dfs(cfg.entry, dict(env0 or {}), PathResult(), frozenset(), frozenset())
    return results


def dict_update_stmt(st, env, ev):
    """`d.update(k=v, ...)` / `d.update({...})` / `d["k"] = v` on a local whose value is a dict-literal term: the term is updated.
    True when handled."""
    from .terms import dict_parts, dict_merge
    if isinstance(st, ast.Expr) and isinstance(st.value, ast.Call) and isinstance(st.value.func, ast.Attribute) and st.value.func.attr == "update" \
            and isinstance(st.value.func.value, ast.Name) and st.value.func.value.id in env and len(st.value.args) <= 1:
        name = st.value.func.value.id
        cur = env[name].key() if hasattr(env[name], "key") else None
        if cur is not None and cur.startswith("dcomp(") and cur.endswith(")"):
            cur = "{**" + cur + "}"  # a dict comprehension is a dict
        if cur is None or dict_parts(cur) is None:
            return False
        new = cur
        if st.value.args:
            at = ev.ev(st.value.args[0]).key()
            ap = dict_parts(at)
            new = dict_merge(new, *ap) if ap is not None else dict_merge(new, [at], {})
        kws = {}
        for k in st.value.keywords:
            if k.arg is None:
                return False
            kws[k.arg] = ev.ev(k.value).key()
        new = dict_merge(new, [], kws)
        env[name] = Term.atom(new)
        return True
    if isinstance(st, ast.Assign) and len(st.targets) == 1 and isinstance(st.targets[0], ast.Subscript) and isinstance(st.targets[0].value, ast.Name) \
            and st.targets[0].value.id in env and isinstance(st.targets[0].slice, ast.Constant) and isinstance(st.targets[0].slice.value, str) \
            and st.targets[0].slice.value.isidentifier():
        name = st.targets[0].value.id
        cur = env[name].key() if hasattr(env[name], "key") else None
        if cur is None or dict_parts(cur) is None:
            return False
        env[name] = Term.atom(dict_merge(cur, [], {st.targets[0].slice.value: ev.ev(st.value).key()}))
        return True
    return False


_TRIVIAL = {"Is(None,None)": True, "IsNot(None,None)": False, "truthy(None)": False, "truthy(0)": False}


def _trivial(ck):
    """truth of a condition whose canonical text is a constant (None / integer literal), else None"""
    if ck.startswith("not(") and ck.endswith(")"):
        v = _trivial(ck[4:-1])
        return None if v is None else not v
    if ck in _TRIVIAL:
        return _TRIVIAL[ck]
    if ck.startswith("truthy(") and ck[7:-1].lstrip("-").isdigit():
        return int(ck[7:-1]) != 0
    import re as _re
    m_ = _re.fullmatch(r"(-?\d+) (>=|<=|==|!=|>|<) 0", ck)
    if m_:
        v_ = int(m_.group(1))
        return {">": v_ > 0, "<": v_ < 0, ">=": v_ >= 0, "<=": v_ <= 0, "==": v_ == 0, "!=": v_ != 0}[m_.group(2)]
    if ck.startswith("Is(") and ck.endswith(",None)"):
        x = ck[3:-len(",None)")]
        # a tuple / list / dict display, a string or a number is never None
        if _whole(x, "tuple(", ")") or _whole(x, "[", "]") or _whole(x, "{", "}") or x.lstrip("-").isdigit() or (len(x) >= 2 and x[0] in "'\"" and x[-1] == x[0] and x.count(x[0]) == 2):
            return False
    if ck.startswith("truthy(") and ck.endswith(")"):
        x = ck[7:-1]
        if _whole(x, "tuple(", ")") and x != "tuple()":
            return True  # a non-empty tuple display
    return None


def _whole(x, opener, closer):
    """x is one bracketed display `opener ... closer` (the opening bracket closes at the very end)"""
    if not (x.startswith(opener) and x.endswith(closer)):
        return False
    depth = 0
    for i, ch in enumerate(x):
        if ch in "([{":
            depth += 1
        elif ch in ")]}":
            depth -= 1
            if depth == 0 and i != len(x) - 1:
                return False
    return depth == 0


class _NoLoop:
    body = frozenset()


_NOLOOP = _NoLoop()


def _clone(res, keep_end=True):
    r = PathResult()
    r.steps = list(res.steps)
    r.conds = list(res.conds)
    r.ret, r.ret_node = res.ret, res.ret_node
    r.end = res.end if keep_end else None
    r.raised = res.raised
    return r


def calls_on(path_result, name=None, attr=None):
    """Call nodes executed on a path, in statement order, with the environment before the statement:
    yields (call node, env, step)."""
    for s in path_result.steps:
        if s.ast is None:
            continue
        roots = []
        if s.kind in ("stmt", "return", "raise", "with"):
            roots = [s.ast]
        elif s.kind == "test":
            roots = [s.ast.test]
        elif s.kind == "for":
            roots = [s.ast.iter]
        for root in roots:
            for c in _calls_in_order(root):
                f = c.func
                if name is not None and not (isinstance(f, ast.Name) and f.id == name):
                    continue
                if attr is not None and not (isinstance(f, ast.Attribute) and f.attr == attr):
                    continue
                yield c, s.env, s


def _calls_in_order(root):
    out = []

    def visit(n):
        if isinstance(n, (ast.FunctionDef, ast.AsyncFunctionDef, ast.ClassDef, ast.Lambda)):
            return
        for ch in ast.iter_child_nodes(n):
            visit(ch)
        if isinstance(n, ast.Call):
            out.append(n)

    if isinstance(root, (ast.If, ast.While)):
        visit(root.test)
    elif isinstance(root, (ast.For,)):
        visit(root.iter)
    elif isinstance(root, ast.With):
        for it in root.items:
            visit(it.context_expr)
    elif isinstance(root, ast.Try):
        pass
    else:
        visit(root)
    return out
