"""E-AFF: polynomial terms with rational coefficients over atoms, and an
expression evaluator that maps Python expressions to such terms.  Two terms are
equal iff their normal forms are identical; there is no feasibility reasoning and
no solver.  Anything outside the language becomes an opaque atom."""
import ast
from fractions import Fraction

from .loader import dotted


class Term:
    __slots__ = ("p",)

    def __init__(self, p=None, norm=True):
        self.p = {k: v for k, v in (p or {}).items() if v != 0}
        if norm and any(a.startswith("floordiv(") for k in self.p if k for a in k):
            self.p = _divnorm(self.p)

    @staticmethod
    def const(c):
        return Term({(): Fraction(c)})

    @staticmethod
    def atom(name):
        return Term({(name,): Fraction(1)})

    def __add__(self, o):
        r = dict(self.p)
        for k, v in o.p.items():
            r[k] = r.get(k, 0) + v
        return Term(r)

    def __neg__(self):
        return Term({k: -v for k, v in self.p.items()})

    def __sub__(self, o):
        return self + (-o)

    def __mul__(self, o):
        r = {}
        for k1, v1 in self.p.items():
            for k2, v2 in o.p.items():
                k = tuple(sorted(k1 + k2))
                r[k] = r.get(k, 0) + v1 * v2
        return Term(r)

    def scale(self, c):
        return Term({k: v * Fraction(c) for k, v in self.p.items()})

    def is_const(self):
        return all(k == () for k in self.p)

    def value(self):
        return self.p.get((), Fraction(0))

    def atoms(self):
        s = set()
        for k in self.p:
            s.update(k)
        return s

    def coeff(self, *mono):
        return self.p.get(tuple(sorted(mono)), Fraction(0))

    def __eq__(self, o):
        return isinstance(o, Term) and self.p == o.p

    def __hash__(self):
        return hash(frozenset(self.p.items()))

    def key(self):
        parts = []
        for k in sorted(self.p):
            c = self.p[k]
            cs = str(c.numerator) if c.denominator == 1 else f"{c.numerator}/{c.denominator}"
            parts.append(cs if not k else (("" if c == 1 else cs + "*") + "*".join(k)))
        return " + ".join(parts) if parts else "0"

    __repr__ = key

    def subst(self, mapping):
        """replace atoms by terms"""
        res = Term()
        for k, c in self.p.items():
            t = Term.const(c)
            for a in k:
                t = t * (mapping[a] if a in mapping else Term.atom(a))
            res = res + t
        return res


def T(x):
    return x if isinstance(x, Term) else Term.const(x)


def elem_term(seq_key, i):
    """term of element i of a sequence-valued term: divmod(a, b)[0] is a // b, [1] is a % b; tuple(x, y)[i] is the element"""
    if seq_key.startswith("divmod(") and seq_key.endswith(")"):
        parts = _split_top(seq_key[len("divmod("):-1], ",")
        if len(parts) == 2 and i in (0, 1):
            return Term({(("floordiv(" if i == 0 else "mod(") + parts[0] + "," + parts[1] + ")",): Fraction(1)})
    if seq_key.startswith("tuple(") and seq_key.endswith(")"):
        parts = _split_top(seq_key[len("tuple("):-1], ",")
        if 0 <= i < len(parts):
            return parse_key(parts[i])
    if seq_key.startswith("map(") and seq_key.endswith(")"):
        # map(f, S)[i] (by unpacking) is f(S[i]) for a plain function name f
        parts = _split_top(seq_key[len("map("):-1], ",")
        if len(parts) == 2 and parts[0].isidentifier() and i >= 0:
            inner = elem_term(parts[1], i).key()
            if parts[0] == "int":
                return Term.atom(f"int({inner})")
            return Term.atom(f"{parts[0]}({inner})")
    return Term.atom(f"sub({seq_key},{i})")


DC_FIELDS = {}  # dataclass name -> field names (set per analysed program by report.Ctx)
SIGS = {}  # callable name -> positional parameter names (set per analysed program by report.Ctx)


# ---------------------------------------------------------------- dict-valued terms: {**splat,k:v,...}
def dict_parts(text):
    """([splat term texts], {key: value text}) of a dict-literal term text `{**a,k:v,...}`; None for anything else"""
    if not (text.startswith("{") and text.endswith("}")):
        return None
    depth = 0
    for i, ch in enumerate(text):
        if ch in "([{":
            depth += 1
        elif ch in ")]}":
            depth -= 1
            if depth == 0 and i != len(text) - 1:
                return None
    inner = text[1:-1]
    splats, kv = [], {}
    if not inner:
        return splats, kv
    for part in _split_top(inner, ","):
        if part.startswith("**"):
            splats.append(part[2:])
            continue
        if ":" not in part:
            return None
        k, v = part.split(":", 1)
        if not k.isidentifier():
            return None
        kv[k] = v
    return splats, kv


def dict_text(splats, kv):
    return "{" + ",".join([f"**{x}" for x in splats] + [f"{k}:{kv[k]}" for k in sorted(kv)]) + "}"


def dict_merge(base_text, add_splats, add_kv):
    """term text of base updated with more entries (later entries win); None when base is not a dict-literal term"""
    bp = dict_parts(base_text)
    if bp is None:
        return None
    splats, kv = list(bp[0]), dict(bp[1])
    splats += add_splats
    kv.update(add_kv)
    return dict_text(splats, kv)


# ---------------------------------------------------------------- (a // b) * b  ==  a - a % b
def _split_top(text, sep):
    out, depth, cur, i = [], 0, "", 0
    while i < len(text):
        ch = text[i]
        if ch in "([{":
            depth += 1
        elif ch in ")]}":
            depth -= 1
        if depth == 0 and text.startswith(sep, i):
            out.append(cur)
            cur = ""
            i += len(sep)
            continue
        cur += ch
        i += 1
    out.append(cur)
    return out


def parse_key(text):
    """inverse of Term.key() (atoms are kept as opaque texts)"""
    if text == "0":
        return Term()
    p = {}
    for mono in _split_top(text, " + "):
        parts = _split_top(mono, "*")
        c = Fraction(1)
        atoms = []
        for i, part in enumerate(parts):
            if i == 0:
                try:
                    c = Fraction(part)
                    continue
                except (ValueError, ZeroDivisionError):
                    pass
            atoms.append(part)
        k = tuple(sorted(atoms))
        p[k] = p.get(k, 0) + c
    return Term(p)


_DIVARGS = {}


def _div_args(atom):
    r = _DIVARGS.get(atom)
    if r is None:
        inner = atom[len("floordiv("):-1]
        parts = _split_top(inner, ",")
        if len(parts) != 2:
            r = (None, None)
        else:
            try:
                r = (parse_key(parts[0]), parse_key(parts[1]))
            except Exception:
                r = (None, None)
        _DIVARGS[atom] = r
    return r


def _divnorm(p):
    """normal form for exact-multiple products: floordiv(X,Y)*Y -> X - mod(X,Y) (Y one atom, or a constant dividing the coefficient)"""
    p = dict(p)
    for _ in range(16):
        hit = None
        for k, v in p.items():
            for a in k:
                if not (a.startswith("floordiv(") and a.endswith(")")):
                    continue
                X, Y = _div_args(a)
                if X is None:
                    continue
                rest = list(k)
                rest.remove(a)
                if Y.is_const():
                    cy = Y.value()
                    if cy in (0, 1) or (v / cy).denominator != 1:
                        continue
                    m = v / cy
                elif len(Y.p) == 1 and list(Y.p.values())[0] == 1 and len(list(Y.p)[0]) == 1 and list(Y.p)[0][0] in rest:
                    rest.remove(list(Y.p)[0][0])
                    m = v
                else:
                    continue
                hit = (k, a, X, Y, rest, m)
                break
            if hit:
                break
        if not hit:
            break
        k, a, X, Y, rest, m = hit
        del p[k]
        rest_t = Term({tuple(sorted(rest)): Fraction(1)}, norm=False)
        mod_atom = Term({(f"mod({X.key()},{Y.key()})",): Fraction(1)}, norm=False)
        add = ((X - mod_atom) * rest_t).scale(m)
        for k2, v2 in add.p.items():
            p[k2] = p.get(k2, 0) + v2
        p = {k2: v2 for k2, v2 in p.items() if v2 != 0}
    return p


class Evaluator:
    """Expression -> Term.

    env:       dict name/dotted-path -> Term (locals, self.attrs)
    const_of:  callable(name) -> python constant or raises KeyError (module-level constants)
    func_of:   callable(name) -> (FunctionDef|Lambda, Evaluator-factory) for inlining, or None
    this_names: names treated as the construct context (`this`, lambda parameter) - paths through
                them are atoms 'this.a.b'.
    """

    def __init__(self, env=None, const_of=None, func_of=None, this_names=("this",), depth=0, strip_parent=True, fold=None):
        self.env = dict(env or {})
        self.fold = fold  # optional callable(ast) -> python number (raises on failure): folds constant sub-expressions
        self.const_of = const_of
        self.func_of = func_of
        self.this_names = set(this_names)
        self.depth = depth
        self.opaque = []  # expressions that became opaque atoms (for reporting)
        self.owner = None  # name of the class whose classmethod is being evaluated: `cls(...)` takes its constructor signature

    def child(self, env, this_names=None):
        e = Evaluator(env, self.const_of, self.func_of, this_names or self.this_names, self.depth + 1, fold=self.fold)
        e.opaque = self.opaque
        e.owner = self.owner
        return e

    def atom_of(self, text, node=None):
        if node is not None:
            self.opaque.append(text)
        return Term.atom(text)

    def ev(self, node):
        if isinstance(node, Term):
            return node
        if isinstance(node, ast.Constant):
            v = node.value
            if isinstance(v, bool):
                return Term.const(int(v))
            if isinstance(v, int):
                return Term.const(v)
            if isinstance(v, float):
                return Term.const(Fraction(repr(v)))
            return Term.atom(repr(v))
        if isinstance(node, ast.Name):
            if node.id in self.env:
                return T(self.env[node.id])
            if node.id in self.this_names:
                return Term.atom("this")
            if self.const_of is not None:
                try:
                    v = self.const_of(node.id)
                    if isinstance(v, bool):
                        return Term.const(int(v))
                    if isinstance(v, (int, Fraction)):
                        return Term.const(v)
                    if isinstance(v, float):
                        return Term.const(Fraction(repr(v)))
                    if isinstance(v, Term):
                        return v
                    if isinstance(v, (str, bytes)):
                        return Term.atom(repr(v))  # a module-level text constant is its literal
                except KeyError:
                    pass
            return Term.atom(node.id)
        if self.fold is not None and isinstance(node, (ast.Subscript, ast.Attribute, ast.Call)):
            names = {n.id for n in ast.walk(node) if isinstance(n, ast.Name)}
            if (getattr(self.fold, "smart", False) or not (names & set(self.env))) and not (names & self.this_names):
                try:
                    v = self.fold(node)
                    if isinstance(v, bool):
                        return Term.const(int(v))
                    if isinstance(v, (int, Fraction)):
                        return Term.const(v)
                    if isinstance(v, float):
                        return Term.const(Fraction(repr(v)))
                    if hasattr(v, "value") and isinstance(getattr(v, "value"), int) and hasattr(v, "cls"):
                        return Term.const(v.value)
                except Exception:
                    pass
        if isinstance(node, ast.Attribute):
            d = dotted(node)
            if d in ("io.SEEK_SET", "io.SEEK_CUR", "io.SEEK_END", "os.SEEK_SET", "os.SEEK_CUR", "os.SEEK_END") and d.split(".")[0] not in self.env:
                return Term.atom(d.split(".")[1])  # the same constant however it is imported
            if d is not None:
                if d in self.env:
                    return T(self.env[d])
                root = d.split(".")[0]
                if root in self.this_names:
                    return Term.atom("this." + d.split(".", 1)[1])
                if root in self.env:
                    base = T(self.env[root])
                    if len(base.p) == 1 and list(base.p.values())[0] == 1 and len(list(base.p)[0]) == 1:
                        return Term.atom(list(base.p)[0][0] + "." + d.split(".", 1)[1])
                return Term.atom(d)
            base = self.ev(node.value)
            return Term.atom(f"({base.key()}).{node.attr}")
        if isinstance(node, ast.UnaryOp):
            if isinstance(node.op, ast.USub):
                return -self.ev(node.operand)
            if isinstance(node.op, ast.UAdd):
                return self.ev(node.operand)
            return self.atom_of(f"{type(node.op).__name__}({self.ev(node.operand).key()})")
        if isinstance(node, ast.BinOp):
            a, b = self.ev(node.left), self.ev(node.right)
            op = node.op
            if isinstance(op, ast.Add):
                return a + b
            if isinstance(op, ast.Sub):
                return a - b
            if isinstance(op, ast.Mult):
                for l_, r_ in ((node.left, node.right), (node.right, node.left)):
                    if isinstance(l_, ast.List) and len(l_.elts) == 1:
                        return Term.atom(f"rep({self.ev(r_).key()},{self.ev(l_.elts[0]).key()})")  # [e] * n
                return a * b
            if isinstance(op, ast.Div):
                if b.is_const() and b.value() != 0:
                    return a.scale(1 / b.value())
                return Term.atom(f"div({a.key()},{b.key()})")
            if a.is_const() and b.is_const() and a.value().denominator == 1 and b.value().denominator == 1:
                x, y = int(a.value()), int(b.value())
                try:
                    if isinstance(op, ast.FloorDiv):
                        return Term.const(x // y)
                    if isinstance(op, ast.Mod):
                        return Term.const(x % y)
                    if isinstance(op, ast.LShift):
                        return Term.const(x << y)
                    if isinstance(op, ast.RShift):
                        return Term.const(x >> y)
                    if isinstance(op, ast.BitAnd):
                        return Term.const(x & y)
                    if isinstance(op, ast.BitOr):
                        return Term.const(x | y)
                    if isinstance(op, ast.BitXor):
                        return Term.const(x ^ y)
                    if isinstance(op, ast.Pow):
                        return Term.const(Fraction(x) ** y)
                except (ZeroDivisionError, ValueError):
                    pass
            name = {ast.FloorDiv: "floordiv", ast.Mod: "mod", ast.LShift: "shl", ast.RShift: "shr",
                    ast.BitAnd: "and", ast.BitOr: "or", ast.BitXor: "xor", ast.Pow: "pow",
                    ast.MatMult: "matmul"}.get(type(op), type(op).__name__)
            if name in ("and", "or", "xor"):
                x, y = sorted([a.key(), b.key()])
                return Term.atom(f"{name}({x},{y})")
            return Term.atom(f"{name}({a.key()},{b.key()})")
        if isinstance(node, ast.Call):
            return self._call(node)
        if isinstance(node, ast.Subscript):
            base = self.ev(node.value)
            if isinstance(node.slice, ast.Slice):
                lo = self.ev(node.slice.lower).key() if node.slice.lower else ""
                hi = self.ev(node.slice.upper).key() if node.slice.upper else ""
                st = self.ev(node.slice.step).key() if node.slice.step else ""
                return Term.atom(f"slice({base.key()},{lo}:{hi}:{st})")
            bk = base.key()
            if isinstance(node.slice, ast.Constant) and isinstance(node.slice.value, str) and node.slice.value.isidentifier() \
                    and (bk == "this" or bk.startswith("this.")) and len(base.p) == 1:
                # construct contexts are attribute dictionaries: ctx["name"] is ctx.name
                return Term.atom(bk + "." + node.slice.value)
            if isinstance(node.slice, ast.Constant) and isinstance(node.slice.value, str) and bk.startswith("{"):
                dp_ = dict_parts(bk)
                if dp_ is not None and not dp_[0] and node.slice.value in dp_[1]:
                    return parse_key(dp_[1][node.slice.value])  # {k: v}["k"] is v
            idx = self.ev(node.slice)
            if idx.is_const() and idx.value().denominator == 1 and bk.startswith("divmod("):
                return elem_term(bk, int(idx.value()))
            return Term.atom(f"sub({bk},{idx.key()})")
        if isinstance(node, ast.Starred):
            return Term.atom("*" + self.ev(node.value).key())  # a splatted positional argument
        if isinstance(node, ast.NamedExpr):
            v = self.ev(node.value)
            if isinstance(node.target, ast.Name):
                self.env[node.target.id] = v  # `(x := e)` binds x for the rest of the evaluation
            return v
        if isinstance(node, ast.IfExp):
            return Term.atom(f"ite({self.cond(node.test)},{self.ev(node.body).key()},{self.ev(node.orelse).key()})")
        if isinstance(node, ast.Lambda):
            ps_ = [a.arg for a in node.args.args]
            env_ = {p_: Term.atom("ctx" if i_ == 1 else f"ctx{i_}") for i_, p_ in enumerate(ps_) if i_ >= 1}
            return Term.atom("lambda:" + self.child(env_, this_names=set(ps_[:1])).ev(node.body).key())
        if isinstance(node, ast.Tuple):
            return Term.atom("tuple(" + ",".join(self.ev(e).key() for e in node.elts) + ")")
        if isinstance(node, ast.List):
            return Term.atom("[" + ",".join(self.ev(e).key() for e in node.elts) + "]")
        if isinstance(node, ast.Dict) and all(k is None or (isinstance(k, ast.Constant) and isinstance(k.value, str) and k.value.isidentifier()) for k in node.keys):
            cur = "{}"
            for k, v in zip(node.keys, node.values):
                vt = self.ev(v).key()
                if k is None:
                    vp = dict_parts(vt)
                    cur = dict_merge(cur, *vp) if vp is not None else dict_merge(cur, [vt], {})
                else:
                    cur = dict_merge(cur, [], {k.value: vt})
            return Term.atom(cur)
        if isinstance(node, ast.DictComp) and len(node.generators) == 1 and not node.generators[0].ifs and isinstance(node.generators[0].target, ast.Name):
            g = node.generators[0]
            sub = self.child(dict(self.env))
            sub.env[g.target.id] = Term.atom("_c0")
            return Term.atom(f"dcomp({sub.ev(node.key).key()}:{sub.ev(node.value).key()} for _c0 in {self.ev(g.iter).key()})")
        if isinstance(node, (ast.Compare, ast.BoolOp)):
            return Term.atom("cond(" + self.cond(node) + ")")
        if isinstance(node, (ast.ListComp, ast.GeneratorExp)) and len(node.generators) == 1 and node.generators[0].ifs \
                and isinstance(node.generators[0].target, ast.Name):
            # a filtered traversal: comp(E for _c0 in S if C)
            g = node.generators[0]
            sub = self.child(dict(self.env))
            sub.env[g.target.id] = Term.atom("_c0")
            conds = sorted(sub.cond(c) for c in g.ifs)
            return Term.atom(f"comp({sub.ev(node.elt).key()} for _c0 in {self.ev(g.iter).key()} if {' and '.join(conds)})")
        if isinstance(node, (ast.ListComp, ast.GeneratorExp)) and len(node.generators) == 1 and not node.generators[0].ifs \
                and isinstance(node.generators[0].target, ast.Name):
            g = node.generators[0]
            var = g.target.id
            uses = any(isinstance(n, ast.Name) and n.id == var for n in ast.walk(node.elt))
            it = g.iter
            if not uses and isinstance(it, ast.Call) and isinstance(it.func, ast.Name) and it.func.id == "range" and len(it.args) == 1 and not it.keywords:
                # n copies of the same element expression
                return Term.atom(f"rep({self.ev(it.args[0]).key()},{self.ev(node.elt).key()})")
            sub = self.child(dict(self.env))
            sub.env[var] = Term.atom("_c0")
            return Term.atom(f"comp({sub.ev(node.elt).key()} for _c0 in {self.ev(it).key()})")
        txt = " ".join(ast.unparse(node).split())
        if len(txt) > 80:
            import hashlib
            txt = txt[:60] + "#" + hashlib.sha1(txt.encode()).hexdigest()[:10]
        # keep the atom text bracket-balanced (keys are split on top-level commas)
        depth_ok, d_ = True, 0
        for ch in txt:
            if ch in "([{":
                d_ += 1
            elif ch in ")]}":
                d_ -= 1
                if d_ < 0:
                    depth_ok = False
        if not depth_ok or d_ != 0:
            txt = txt.replace("(", "<").replace(")", ">").replace("[", "<").replace("]", ">").replace("{", "<").replace("}", ">")
        return self.atom_of("opaque(" + txt + ")", node)

    def _call(self, node):
        f = node.func
        args = [self.ev(a) for a in node.args]
        name = f.id if isinstance(f, ast.Name) else None
        if name in ("min", "max") and not node.keywords:
            if all(a.is_const() for a in args) and args:
                vals = [a.value() for a in args]
                return Term.const(min(vals) if name == "min" else max(vals))
            return Term.atom(f"{name}(" + ",".join(sorted(a.key() for a in args)) + ")")
        if name == "int" and len(args) == 1:
            if args[0].is_const() and args[0].value().denominator == 1:
                return args[0]
            return Term.atom(f"int({args[0].key()})")
        if name == "tuple" and len(args) == 1 and not node.keywords:
            k0 = args[0].key()
            if k0.startswith("[") and k0.endswith("]") and len(args[0].p) == 1:
                return Term.atom("tuple(" + k0[1:-1] + ")")  # tuple of a list whose elements are known
        if name == "cast" and len(args) == 2 and not node.keywords:
            return args[1]  # typing.cast returns its second argument unchanged
        if name == "len_" and len(node.args) == 1 and isinstance(node.args[0], ast.Lambda) and len(node.args[0].args.args) == 1:
            # len_(lambda this: E) and len_(<this-expression E>) are the same context function
            lam_ = node.args[0]
            inner_ = self.child(dict(self.env), this_names=set(self.this_names) | {lam_.args.args[0].arg}).ev(lam_.body)
            return Term.atom(f"len({inner_.key()})")
        if name in ("len", "len_") and len(args) == 1:  # construct's len_ is len on the context value
            return Term.atom(f"len({args[0].key()})")
        if name == "abs" and len(args) == 1 and args[0].is_const():
            return Term.const(abs(args[0].value()))
        if name == "ord" and len(node.args) == 1 and isinstance(node.args[0], ast.Constant):
            return Term.const(ord(node.args[0].value))
        # inline single-return helper or lambda bound to a name
        if name is not None and self.func_of is not None and self.depth < 3:
            target = self.func_of(name)
            if target is not None:
                fn, ev_factory = target
                r = inline_call(fn, node, self, ev_factory)
                if r is not None:
                    return r
        fname = dotted(f) or "call"
        if isinstance(f, ast.Name) and f.id in self.env:
            # a local that is a plain copy of a callable's name (parser_class = AkaiImageParser): the call is a call of that callable
            tk_ = T(self.env[f.id]).key()
            if tk_.isidentifier() and not tk_.endswith("~") and tk_ != f.id:
                fname = tk_
                f = ast.Name(id=tk_, ctx=ast.Load())
        if isinstance(f, ast.Attribute) and dotted(f) is None:
            fname = f"({self.ev(f.value).key()}).{f.attr}"
        elif isinstance(f, ast.Attribute):
            root = fname.split(".")[0]
            if root in self.env:
                base = self.ev(f.value)
                bk = base.key()
                fname = f"{bk}.{f.attr}" if (bk == "this" or (bk.startswith("this.") and all(x.isidentifier() for x in bk.split(".")))) else f"({bk}).{f.attr}"
            elif root in self.this_names:
                fname = "this." + fname.split(".", 1)[1]  # method of the context / adapted object: parameter name is irrelevant
            elif isinstance(f.value, ast.Name) and self.const_of is not None:
                try:
                    cv_ = self.const_of(root)
                except KeyError:
                    cv_ = None
                if isinstance(cv_, str):
                    fname = f"({self.ev(f.value).key()}).{f.attr}"  # method of a module-level string constant: the literal's method
        if isinstance(f, ast.Attribute) and f.attr == "group" and len(node.args) == 1 and not node.keywords and isinstance(node.args[0], ast.Constant) \
                and isinstance(node.args[0].value, int) and not isinstance(node.args[0].value, bool) and node.args[0].value >= 1:
            # match.group(k) is match.groups()[k-1]
            base = self.ev(f.value).key()
            recv = base if all(x.isidentifier() for x in base.replace("~", "").split(".")) else f"({base})"
            return Term.atom(f"sub({recv}.groups(),{node.args[0].value - 1})")
        if isinstance(f, ast.Name) and f.id in ("Container", "dict") and not node.args and node.keywords and all(k.arg for k in node.keywords):
            body = "{" + ",".join(f"{k.arg}:{self.ev(k.value).key()}" for k in sorted(node.keywords, key=lambda k: k.arg)) + "}"
            return Term.atom(body if f.id == "dict" else f"Container({body})")
        kwd = {k.arg: self.ev(k.value).key() for k in node.keywords if k.arg}
        star_kw = []
        for k in node.keywords:
            if k.arg is None:
                vt = self.ev(k.value).key()
                vp = dict_parts(vt)
                if vp is not None:
                    # f(**{**a, k: v}) is f(**a, k=v)
                    star_kw += [f"**{x}" for x in vp[0]]
                    for kk, vv in vp[1].items():
                        kwd.setdefault(kk, vv)
                else:
                    star_kw.append(f"**{vt}")
        pos = [a.key() for a in args]
        cname = f.id if isinstance(f, ast.Name) else (f.attr if isinstance(f, ast.Attribute) else None)
        if cname == "cls" and isinstance(f, ast.Name) and self.owner:
            cname = self.owner
        if cname == "get_common_field_args" and isinstance(f, ast.Name) and len(node.args) == 2 and not node.keywords and isinstance(node.args[0], ast.Name) \
                and DC_FIELDS.get(node.args[0].id):
            # the helper copies every field of the dataclass from the source by its own name: {f: source.f for f in fields(D)}
            sk_ = pos[1]
            if all(x.isidentifier() for x in sk_.replace("~", "").split(".")):
                return Term.atom(dict_text([], {fl_: f"{sk_}.{fl_}" for fl_ in DC_FIELDS[node.args[0].id]}))
        if cname == "replace" and fname in ("replace", "dataclasses.replace") and len(node.args) == 1 and not star_kw:
            # dataclasses.replace(T, k=v) with T a known constructor call C(...) is C(<T's arguments with k overridden>)
            r_ = self._dc_replace(node.args[0], pos[0], kwd)
            if r_ is not None:
                return r_
        params = SIGS.get(cname) if cname and not any(isinstance(a, ast.Starred) for a in node.args) else None
        if params is not None and kwd and len(pos) <= len(params):
            # f(a, q=c, p=b) with signature (x, p, q): the keywords that continue the positional prefix are rendered in place
            i = len(pos)
            while i < len(params) and params[i] in kwd:
                pos.append(kwd.pop(params[i]))
                i += 1
        kw = [f"{k}={v}" for k, v in kwd.items()]
        return Term.atom(f"{fname}(" + ",".join(pos + sorted(kw) + sorted(star_kw)) + ")")

    def _dc_replace(self, arg, base_key, kwd):
        if isinstance(arg, ast.Name) and arg.id not in self.env:
            mod = getattr(self.const_of, "mod", None)
            b = mod.env.get(arg.id) if mod is not None else None
            if not (b and b[0] == "assign" and isinstance(b[1], ast.Call)):
                return None
            rebinds = [n for n in ast.walk(mod.tree) if isinstance(n, (ast.Name, ast.Attribute)) and isinstance(n.ctx, (ast.Store, ast.Del)) and
                       ((isinstance(n, ast.Name) and n.id == arg.id) or (isinstance(n, ast.Attribute) and isinstance(n.value, ast.Name) and n.value.id == arg.id))]
            if len(rebinds) != 1:
                return None  # the template is re-bound or has a field assigned somewhere in its module
            base_key = Evaluator(const_of=self.const_of, this_names=()).ev(b[1]).key()
        if not base_key.endswith(")") or "(" not in base_key:
            return None
        cname = base_key[:base_key.index("(")]
        params = SIGS.get(cname)
        if params is None or not cname.isidentifier():
            return None
        inner = base_key[len(cname) + 1:-1]
        have = {}
        for i, part in enumerate(_split_top(inner, ",") if inner else []):
            import re as _re
            m = _re.match(r"^([A-Za-z_][A-Za-z_0-9]*)=(?!=)(.*)$", part)
            if part.startswith("*"):
                return None
            if m:
                have[m.group(1)] = m.group(2)
            elif i < len(params):
                have[params[i]] = part
            else:
                return None
        have.update(kwd)
        pos, i = [], 0
        while i < len(params) and params[i] in have:
            pos.append(have.pop(params[i]))
            i += 1
        return Term.atom(f"{cname}(" + ",".join(pos + sorted(f"{k}={v}" for k, v in have.items())) + ")")

    # ------------------------------------------------------------ conditions
    def cond(self, node):
        """canonical text of a boolean expression (comparisons normalised to 'lhs-rhs OP 0')."""
        if isinstance(node, ast.BoolOp):
            parts = sorted(self.cond(v) for v in node.values)
            return ("and" if isinstance(node.op, ast.And) else "or") + "(" + ",".join(parts) + ")"
        if isinstance(node, ast.UnaryOp) and isinstance(node.op, ast.Not):
            return "not(" + self.cond(node.operand) + ")"
        if isinstance(node, ast.Compare):
            parts = []
            left = node.left
            for op, right in zip(node.ops, node.comparators):
                parts.append(self._cmp(left, op, right))
                left = right
            return parts[0] if len(parts) == 1 else "and(" + ",".join(sorted(parts)) + ")"
        t = self.ev(node)
        k = t.key()
        if len(t.p) == 1 and list(t.p.values())[0] == 1 and len(list(t.p)[0]) == 1 and k.startswith(("mod(", "len(")):
            # truthiness of a remainder / a length is `!= 0` resp. `> 0`; rendered like the comparison so both spellings agree
            d = t
            return f"{d.key()} != 0" if k.startswith("mod(") else f"{d.key()} > 0"
        if len(t.p) == 1 and list(t.p.values())[0] == 1 and len(list(t.p)[0]) == 1 and k.startswith("cond(") and k.endswith(")"):
            # the truth of a value that is itself a condition (a named boolean `b = x < y`; `if b:`) is that condition
            depth = 0
            whole = True
            for i_, ch_ in enumerate(k):
                if ch_ == "(":
                    depth += 1
                elif ch_ == ")":
                    depth -= 1
                    if depth == 0 and i_ != len(k) - 1:
                        whole = False
                        break
            if whole:
                return k[5:-1]
        return "truthy(" + k + ")"

    def _cmp(self, l, op, r):
        a, b = self.ev(l), self.ev(r)
        d = a - b
        sym = {ast.Lt: "<", ast.LtE: "<=", ast.Gt: ">", ast.GtE: ">=", ast.Eq: "==", ast.NotEq: "!="}.get(type(op))
        if sym is None:
            return f"{type(op).__name__}({a.key()},{b.key()})"
        # orient: make the leading coefficient positive
        if d.p:
            lead = d.p[sorted(d.p)[-1]]
            if lead < 0:
                d = -d
                sym = {"<": ">", "<=": ">=", ">": "<", ">=": "<=", "==": "==", "!=": "!="}[sym]
        return f"{d.key()} {sym} 0"


def inline_call(fn, call, ev, ev_factory=None):
    """Inline a lambda or a function whose body is straight-line assignments followed by a
    single return.  Returns Term or None."""
    if isinstance(fn, ast.Lambda):
        params = [a.arg for a in fn.args.args]
        body_ret = fn.body
        stmts = []
    else:
        params = [a.arg for a in fn.args.args]
        stmts = fn.body[:-1]
        last = fn.body[-1] if fn.body else None
        if not isinstance(last, ast.Return) or last.value is None:
            return None
        body_ret = last.value
        stmts = [st for st in stmts if not (isinstance(st, ast.Expr) and isinstance(st.value, ast.Constant))
                 and not isinstance(st, ast.Pass) and not (isinstance(st, ast.Delete) and all(isinstance(t, ast.Name) for t in st.targets))]
        for st in stmts:
            if not (isinstance(st, ast.Assign) and len(st.targets) == 1 and isinstance(st.targets[0], ast.Name)):
                return None
    env = {}
    for p, a in zip(params, call.args):
        env[p] = ev.ev(a)
    for k in call.keywords:
        if k.arg in params:
            env[k.arg] = ev.ev(k.value)
    defaults = fn.args.defaults
    for p, d in zip(params[len(params) - len(defaults):], defaults):
        if p not in env:
            env[p] = ev.ev(d)
    sub = (ev_factory(env) if ev_factory else ev.child(env, this_names=()))
    sub.depth = ev.depth + 1
    sub.opaque = ev.opaque
    for st in stmts:
        if isinstance(st, ast.Assign):
            sub.env[st.targets[0].id] = sub.ev(st.value)
    return sub.ev(body_ret)


def cmp_struct(ev, test):
    """For a simple comparison `a OP b` return (Term a-b, OP-symbol) with the canonical
    orientation used by Evaluator.cond; None for anything else.  `not (a OP b)` is read as the complementary
    comparison (the quantities compared by the rules are integers)."""
    if isinstance(test, ast.UnaryOp) and isinstance(test.op, ast.Not):
        inner = cmp_struct(ev, test.operand)
        return None if inner is None else (inner[0], NEG[inner[1]])
    if isinstance(test, ast.Compare) and len(test.ops) == 1:
        a, b = ev.ev(test.left), ev.ev(test.comparators[0])
        sym = {ast.Lt: "<", ast.LtE: "<=", ast.Gt: ">", ast.GtE: ">=", ast.Eq: "==", ast.NotEq: "!="}.get(type(test.ops[0]))
        if sym is None:
            return None
        return (a - b, sym)
    return None


def holds_at(d, sym, **vals):
    """truth of `d sym 0` when the atoms of d are replaced by the given numbers (None if other atoms remain)"""
    t = d.subst({k: Term.const(v) for k, v in vals.items()})
    if not t.is_const():
        return None
    v = t.value()
    return {"<": v < 0, "<=": v <= 0, ">": v > 0, ">=": v >= 0, "==": v == 0, "!=": v != 0}[sym]


NEG = {"<": ">=", "<=": ">", ">": "<=", ">=": "<", "==": "!=", "!=": "=="}
FLIP = {"<": ">", "<=": ">=", ">": "<", ">=": "<=", "==": "==", "!=": "!="}


def same_cmp(c1, c2):
    """(d1, op1) equivalent to (d2, op2) as a constraint over the reals/integers (syntactic:
    identical, or negated difference with flipped operator)."""
    if c1 is None or c2 is None:
        return False
    (d1, o1), (d2, o2) = c1, c2
    return (d1 == d2 and o1 == o2) or (d1 == -d2 and o1 == FLIP[o2])
