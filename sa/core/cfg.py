"""Hand-built statement-level control-flow graph for the statement kinds the
package uses, with dominators, post-dominators, loop structure and bounded
acyclic path enumeration."""
import ast

from .loader import AnalysisError, where

PATH_LIMIT = 512


class Node:
    __slots__ = ("id", "kind", "ast", "succ", "pred", "label")

    def __init__(self, id, kind, astnode=None, label=""):
        self.id, self.kind, self.ast, self.label = id, kind, astnode, label
        self.succ = []  # (node id, edge label)
        self.pred = []

    def __repr__(self):
        ln = getattr(self.ast, "lineno", "-")
        return f"<{self.id}:{self.kind}@{ln}>"


class Loop:
    def __init__(self, stmt, head):
        self.stmt, self.head = stmt, head
        self.body_entry = None
        self.body = set()  # node ids inside the loop (including head)
        self.back = []  # (src id) of back edges to head
        self.exits = []  # (src id, dst id, label) edges leaving the loop


class CFG:
    def __init__(self, fn, rule="cfg"):
        self.fn, self.rule = fn, rule
        self.nodes = []
        self.node_of = {}  # id(ast stmt) -> node id (test node for If/While, header for For)
        self.loops = {}  # id(loop stmt) -> Loop
        self.back_edges = set()  # (src, head): edges closing a loop (they keep their branch label)
        self.entry = self._new("entry")
        self.exit = self._new("exit")
        self.raise_exit = self._new("raise_exit")
        self._loop_stack = []
        self._try_stack = []  # list of lists of handler-entry node ids
        body = fn.body if isinstance(fn.body, list) else [ast.Expr(value=fn.body)]
        ends = self._block(body, [(self.entry, "next")])
        for src, lab in ends:
            self._edge(src, self.exit, lab)
        self._finish_loops()

    # ------------------------------------------------------------ construction
    def _new(self, kind, astnode=None, label=""):
        n = Node(len(self.nodes), kind, astnode, label)
        self.nodes.append(n)
        return n.id

    def _edge(self, a, b, label="next"):
        if (b, label) not in self.nodes[a].succ:
            self.nodes[a].succ.append((b, label))
            self.nodes[b].pred.append((a, label))

    def _connect(self, frontier, target):
        for src, lab in frontier:
            self._edge(src, target, lab)

    def _exc_edges(self, nid):
        """implicit exception edge from a statement in a try body to the innermost handlers"""
        st = self.nodes[nid].ast
        if isinstance(st, ast.Pass) or (isinstance(st, ast.Assign) and isinstance(st.value, ast.Constant) and all(isinstance(t, ast.Name) for t in st.targets)):
            return  # binding a literal to a local (or doing nothing) cannot raise
        if self._try_stack:
            for h in self._try_stack[-1]:
                self._edge(nid, h, "exc")

    def _block(self, stmts, frontier):
        for st in stmts:
            frontier = self._stmt(st, frontier)
        return frontier

    def _stmt(self, st, frontier):
        if isinstance(st, (ast.Assign, ast.AugAssign, ast.AnnAssign, ast.Expr, ast.Pass, ast.Delete, ast.Assert,
                           ast.Import, ast.ImportFrom, ast.Global, ast.Nonlocal, ast.FunctionDef,
                           ast.AsyncFunctionDef, ast.ClassDef)):
            n = self._new("stmt", st)
            self.node_of[id(st)] = n
            self._connect(frontier, n)
            self._exc_edges(n)
            return [(n, "next")]
        if isinstance(st, ast.Return):
            n = self._new("return", st)
            self.node_of[id(st)] = n
            self._connect(frontier, n)
            self._exc_edges(n)
            self._edge(n, self.exit, "return")
            return []
        if isinstance(st, ast.Raise):
            n = self._new("raise", st)
            self.node_of[id(st)] = n
            self._connect(frontier, n)
            if self._try_stack:
                for h in self._try_stack[-1]:
                    self._edge(n, h, "raise")
            self._edge(n, self.raise_exit, "raise")
            return []
        if isinstance(st, ast.Break):
            n = self._new("break", st)
            self.node_of[id(st)] = n
            self._connect(frontier, n)
            if not self._loop_stack:
                raise AnalysisError(self.rule, where(st), "break outside loop")
            self._loop_stack[-1]["breaks"].append((n, "break"))
            return []
        if isinstance(st, ast.Continue):
            n = self._new("continue", st)
            self.node_of[id(st)] = n
            self._connect(frontier, n)
            if not self._loop_stack:
                raise AnalysisError(self.rule, where(st), "continue outside loop")
            self._edge(n, self._loop_stack[-1]["head"], "continue")
            self.back_edges.add((n, self._loop_stack[-1]["head"]))
            return []
        if isinstance(st, ast.If):
            t = self._new("test", st)
            self.node_of[id(st)] = t
            self._connect(frontier, t)
            self._exc_edges(t)
            out = self._block(st.body, [(t, "true")])
            if st.orelse:
                out += self._block(st.orelse, [(t, "false")])
            else:
                out += [(t, "false")]
            return out
        if isinstance(st, ast.While):
            h = self._new("test", st)
            self.node_of[id(st)] = h
            self._connect(frontier, h)
            self._exc_edges(h)
            lp = Loop(st, h)
            self.loops[id(st)] = lp
            self._loop_stack.append({"head": h, "breaks": []})
            ends = self._block(st.body, [(h, "true")])
            for src, lab in ends:
                self._edge(src, h, lab)
                self.back_edges.add((src, h))
            info = self._loop_stack.pop()
            const_true = isinstance(st.test, ast.Constant) and bool(st.test.value) is True
            out = []
            if not const_true:
                if st.orelse:
                    out += self._block(st.orelse, [(h, "false")])
                else:
                    out += [(h, "false")]
            out += info["breaks"]
            return out
        if isinstance(st, (ast.For, ast.AsyncFor)):
            h = self._new("for", st)
            self.node_of[id(st)] = h
            self._connect(frontier, h)
            self._exc_edges(h)
            lp = Loop(st, h)
            self.loops[id(st)] = lp
            self._loop_stack.append({"head": h, "breaks": []})
            ends = self._block(st.body, [(h, "true")])
            for src, lab in ends:
                self._edge(src, h, lab)
                self.back_edges.add((src, h))
            info = self._loop_stack.pop()
            out = []
            if st.orelse:
                out += self._block(st.orelse, [(h, "false")])
            else:
                out += [(h, "false")]
            out += info["breaks"]
            return out
        if isinstance(st, (ast.With, ast.AsyncWith)):
            n = self._new("with", st)
            self.node_of[id(st)] = n
            self._connect(frontier, n)
            self._exc_edges(n)
            return self._block(st.body, [(n, "next")])
        if isinstance(st, ast.Try):
            t = self._new("try", st)
            self.node_of[id(st)] = t
            self._connect(frontier, t)
            handlers = []
            for h in st.handlers:
                hn = self._new("except", h)
                self.node_of[id(h)] = hn
                handlers.append(hn)
            self._try_stack.append(handlers)
            ends = self._block(st.body, [(t, "next")])
            self._try_stack.pop()
            if st.orelse:
                ends = self._block(st.orelse, ends)
            for h, hn in zip(st.handlers, handlers):
                ends += self._block(h.body, [(hn, "next")])
            if st.finalbody:
                for sub in ast.walk(st):
                    if sub is not st and isinstance(sub, (ast.Return,)) and self._inside(sub, st.body):
                        raise AnalysisError(self.rule, where(sub), "return inside try/finally is not modelled")
                ends = self._block(st.finalbody, ends)
            return ends
        raise AnalysisError(self.rule, where(st), f"statement kind {type(st).__name__} is not modelled by the CFG builder")

    @staticmethod
    def _inside(node, body):
        for b in body:
            for n in ast.walk(b):
                if n is node:
                    return True
        return False

    def _finish_loops(self):
        for lp in self.loops.values():
            h = lp.head
            # natural loop: nodes that can reach a back-edge source without passing through head
            back_srcs = sorted({p for p, lab in self.nodes[h].pred if (p, h) in self.back_edges})
            body = {h}
            stack = list(back_srcs)
            while stack:
                n = stack.pop()
                if n in body:
                    continue
                body.add(n)
                for p, _ in self.nodes[n].pred:
                    stack.append(p)
            # also nodes of the body from which no back edge is reachable (e.g. break / return / raise paths)
            inner = set()
            for st in lp.stmt.body:
                for sub in ast.walk(st):
                    nid = self.node_of.get(id(sub))
                    if nid is not None:
                        inner.add(nid)
            body |= inner
            lp.body = body
            lp.back = back_srcs
            for n in body:
                for s, lab in self.nodes[n].succ:
                    if s not in body:
                        lp.exits.append((n, s, lab))
            ent = [s for s, lab in self.nodes[h].succ if lab == "true"]
            lp.body_entry = ent[0] if ent else None

    # ---------------------------------------------------------------- queries
    def nid(self, stmt):
        n = self.node_of.get(id(stmt))
        if n is None:
            raise AnalysisError(self.rule, where(stmt), "statement has no CFG node")
        return n

    def reachable(self, start=None):
        start = self.entry if start is None else start
        seen, stack = set(), [start]
        while stack:
            n = stack.pop()
            if n in seen:
                continue
            seen.add(n)
            stack.extend(s for s, _ in self.nodes[n].succ)
        return seen

    def dominators(self, skip_labels=()):
        """node -> set of dominators (forward, from entry). Edges whose label is in
        skip_labels are ignored (e.g. 'exc' to reason about normal flow only)."""
        reach = self._reach(self.entry, skip_labels)
        dom = {n: set(reach) for n in reach}
        dom[self.entry] = {self.entry}
        changed = True
        order = sorted(reach)
        while changed:
            changed = False
            for n in order:
                if n == self.entry:
                    continue
                preds = [p for p, lab in self.nodes[n].pred if p in reach and lab not in skip_labels]
                if not preds:
                    new = {n}
                else:
                    new = set.intersection(*(dom[p] for p in preds)) | {n}
                if new != dom[n]:
                    dom[n] = new
                    changed = True
        return dom

    def _reach(self, start, skip_labels=()):
        seen, stack = set(), [start]
        while stack:
            n = stack.pop()
            if n in seen:
                continue
            seen.add(n)
            stack.extend(s for s, lab in self.nodes[n].succ if lab not in skip_labels)
        return seen

    def postdominators(self, exit_node=None, skip_labels=("exc",)):
        """node -> set of post-dominators w.r.t. exit_node (default: normal exit)."""
        ex = self.exit if exit_node is None else exit_node
        # nodes that can reach ex
        can = set()
        stack = [ex]
        while stack:
            n = stack.pop()
            if n in can:
                continue
            can.add(n)
            stack.extend(p for p, lab in self.nodes[n].pred if lab not in skip_labels)
        pdom = {n: set(can) for n in can}
        pdom[ex] = {ex}
        changed = True
        while changed:
            changed = False
            for n in sorted(can, reverse=True):
                if n == ex:
                    continue
                succs = [s for s, lab in self.nodes[n].succ if s in can and lab not in skip_labels]
                new = (set.intersection(*(pdom[s] for s in succs)) if succs else set()) | {n}
                if new != pdom[n]:
                    pdom[n] = new
                    changed = True
        return pdom

    def paths(self, src, stop, skip_labels=("exc",), limit=PATH_LIMIT, within=None, follow_back=False):
        """All acyclic paths (lists of (node id, label of the edge taken out of it)) from src until
        `stop(node id, incoming label)` is true or a sink is reached.  Returns list of
        (path_nodes, end_node, end_label).  Back edges are followed only when follow_back (the
        target is then a stop point by construction of the callers)."""
        out = []

        def dfs(n, path, onpath):
            if len(out) > limit:
                raise AnalysisError(self.rule, where(self.fn), f"more than {limit} paths")
            succs = [(s, lab) for s, lab in self.nodes[n].succ if lab not in skip_labels]
            if not succs:
                out.append((path, n, None))
                return
            for s, lab in succs:
                if stop(s, lab, n):
                    out.append((path + [(n, lab)], s, lab))
                    continue
                if within is not None and s not in within:
                    out.append((path + [(n, lab)], s, lab))
                    continue
                if s in onpath:
                    continue
                dfs(s, path + [(n, lab)], onpath | {s})

        dfs(src, [], {src})
        return out

    def loop_of(self, stmt):
        lp = self.loops.get(id(stmt))
        if lp is None:
            raise AnalysisError(self.rule, where(stmt), "loop not found in CFG")
        return lp

    def iteration_paths(self, lp, skip_labels=("exc",)):
        """Paths of one iteration: from the loop head to (a) a back edge to the head
        -> kind 'back', or (b) an edge leaving the loop -> kind 'exit'.
        Returns list of (kind, [node ids], (src, dst, label))."""
        res = []
        h = lp.head

        def stop(s, lab, src):
            return s == h or s not in lp.body

        for path, end, lab in self.paths(h, stop, skip_labels=skip_labels, within=None):
            if end == h:
                res.append(("back", path, (path[-1][0], end, lab)))
            elif end is not None and lab is not None:
                res.append(("exit", path, (path[-1][0], end, lab)))
            else:
                res.append(("sink", path, (end, None, None)))
        return res

    def stmts_on(self, path):
        return [self.nodes[n].ast for n, _ in path if self.nodes[n].ast is not None]
