"""Token/line-level rewriter that turns the two Cython sources into text `ast` can parse, keeping
line numbers: drops cimport lines and `cdef struct` blocks, strips C types from declarations and
parameters, `cdef class` -> class, `cdef T f(..)` -> def, casts `<T> e` -> `__cast_T__ @ e`, `&x` -> x."""
import ast
import re

from .loader import AnalysisError, set_parents

CTYPES = r"(?:unsigned\s+)?(?:short|int|long|double|float|size_t|char|void|bint|s_double_cbuffer)"


def decython(src):
    out = []
    lines = src.split("\n")
    i = 0
    while i < len(lines):
        ln = lines[i]
        s = ln.strip()
        ind = ln[:len(ln) - len(ln.lstrip())]
        if s.startswith("cimport ") or re.match(r"from\s+\S+\s+cimport\s", s):
            out.append(ind + "pass  # " + s)
            i += 1
            continue
        if re.match(r"cdef\s+struct\s", s):
            out.append(ind + "pass  # " + s)
            i += 1
            while i < len(lines) and (lines[i].strip() == "" or lines[i].startswith(ind + " ")):
                out.append(ind + "# " + lines[i].strip())
                i += 1
            continue
        m = re.match(r"cdef\s+class\s+(.*)", s)
        if m:
            out.append(ind + "class " + m.group(1))
            i += 1
            continue
        m = re.match(r"(?:cdef|cpdef)\s+(?:inline\s+)?(?:" + CTYPES + r"\s*\*?\s+)?(\w+)\s*\((.*)$", s)
        if m and (s.rstrip().endswith(":") or "(" in s) and not re.match(r"cdef\s+" + CTYPES + r"\s*(?:\[[:,\s]*\])?\s*\*?\s*\w+\s*=", s):
            buf = s
            j = i
            while not buf.rstrip().endswith(":"):
                j += 1
                buf += " " + lines[j].strip()
            m = re.match(r"(?:cdef|cpdef)\s+(?:inline\s+)?(?:" + CTYPES + r"\s*\*?\s+)?(\w+)\s*\((.*)\)\s*:\s*$", buf)
            if m:
                name, args = m.group(1), m.group(2)
                out.append(ind + f"def {name}({strip_arg_types(args)}):")
                for _ in range(j - i):
                    out.append("")
                i = j + 1
                continue
        if re.match(r"def\s+\w+\s*\(", s):
            buf = s
            j = i
            while not buf.rstrip().endswith(":"):
                j += 1
                buf += " " + lines[j].strip()
            m = re.match(r"def\s+(\w+)\s*\((.*)\)\s*(->\s*[^:]+)?:\s*$", buf)
            name, args = m.group(1), m.group(2)
            out.append(ind + f"def {name}({strip_arg_types(args)}):")
            for _ in range(j - i):
                out.append("")
            i = j + 1
            continue
        m = re.match(r"cdef\s+" + CTYPES + r"\s*(?:\[[:,\s]*\])?\s*\*?\s*(\w+)\s*(=\s*(.*))?$", s)
        if m:
            if m.group(2):
                out.append(ind + f"{m.group(1)} = {fix_expr(m.group(3))}")
            else:
                out.append(ind + f"{m.group(1)} = __decl__()")
            i += 1
            continue
        out.append(ind + fix_expr(s) if s else ln)
        i += 1
    return "\n".join(out)


def strip_arg_types(args):
    res = []
    for a in split_top(args):
        a = a.strip()
        if not a:
            continue
        m = re.match(r"(\*{0,2}\w+)\s*:\s*[^=]+(=.*)?$", a)
        if m:
            res.append(m.group(1) + (m.group(2) or ""))
            continue
        m = re.match(CTYPES + r"\s*(?:\[[:,\s]*\])?\s*\*?\s*(\w+)\s*(=.*)?$", a)
        if m:
            res.append(m.group(1) + (m.group(2) or ""))
            continue
        res.append(a)
    return ", ".join(res)


def split_top(s):
    parts = []
    d = 0
    cur = ""
    for ch in s:
        if ch in "([{":
            d += 1
        if ch in ")]}":
            d -= 1
        if ch == "," and d == 0:
            parts.append(cur)
            cur = ""
        else:
            cur += ch
    parts.append(cur)
    return parts


def fix_expr(s):
    s = re.sub(r"<\s*(" + CTYPES + r"\s*\*?)\s*>\s*", lambda m: f'__cast_{re.sub(r"[^a-z_]", "", m.group(1).replace(" ", "_").replace("*", "ptr"))}__ @ ', s)
    s = re.sub(r"&(?=[A-Za-z_])", "", s)
    s = re.sub(r"sizeof\((\w+)\)", r'sizeof("\1")', s)
    return s


class PyxModule:
    def __init__(self, path, text):
        self.path = path
        self.name = path[:-4].replace("/", ".")
        self.text = decython(text)
        try:
            self.tree = ast.parse(self.text, filename=path)
        except SyntaxError as e:
            raise AnalysisError("pyx-front-end", f"{path}:{e.lineno}", f"rewritten Cython source does not parse: {e.msg}")
        # the same front-end normalisation as for .py modules: helpers that are not in the pinned tree are folded back
        from .inline import normalise_program
        from .loader import _relayout
        if normalise_program({path: self.tree}):
            self.tree = _relayout(self.tree, path)
        set_parents(self.tree)
        self.tree._module = self
        self.env = {}
        self.functions, self.classes = {}, {}
        self._collect(self.tree, "")

    def _collect(self, node, prefix):
        for st in ast.iter_child_nodes(node):
            if isinstance(st, (ast.FunctionDef,)):
                q = prefix + st.name
                st._qualname, st._module = q, self
                self.functions[q] = st
                self._collect(st, q + ".")
            elif isinstance(st, ast.ClassDef):
                q = prefix + st.name
                st._qualname, st._module = q, self
                self.classes[q] = st
                self._collect(st, q + ".")
            elif isinstance(st, (ast.If, ast.Try, ast.With, ast.For, ast.While)):
                self._collect(st, prefix)


def load_pyx(sources):
    out = {}
    for path, text in sources.items():
        if path.endswith(".pyx"):
            out[path] = PyxModule(path, text)
    if len(out) < 2:
        raise AnalysisError("pyx-front-end", "smpl_extract/filters", f"{len(out)} .pyx sources found (expected fir.pyx and iir.pyx)")
    return out
